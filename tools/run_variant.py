#!/venv/bin/python
"""usage: tools/run_variant.py <prop> <variant id> [...]   -- run single self-test variants (debugging aid)"""
import sys, os
sys.path.insert(0, os.path.dirname(os.path.dirname(os.path.abspath(__file__))))
from parsolint.selftest import load_variants, _run_variant
prop = sys.argv[1]
for v in load_variants():
    if v['id'] in sys.argv[2:]:
        r = _run_variant((prop, os.environ.get('PARSOLINT_ROOT', '/repo'), v))
        print(v['id'], v['kind'], '->', r[1], r[2][:200] if isinstance(r[2], str) else r[2], [str(x)[:120] for x in r[3]][:4])
