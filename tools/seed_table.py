#!/venv/bin/python
"""Regenerate the seeded-changes table in DESIGN.md from seeded/*/meta.json."""
import glob
import json
import os

HERE = os.path.dirname(os.path.dirname(os.path.abspath(__file__)))
BEGIN = '<!-- seeded-table:begin -->'
END = '<!-- seeded-table:end -->'
rows = []
caught = missed = 0
for p in sorted(glob.glob(os.path.join(HERE, 'seeded', '*', 'meta.json'))):
    m = json.load(open(p))
    cb = ', '.join(m.get('caught_by') or []) or '**not caught**'
    if m.get('caught_by'):
        caught += 1
    else:
        missed += 1
    note = m.get('missed_before') or ''
    rows.append('| %s | %s | %s | %s | %s | %s |' % (m['id'], m['property'], m['summary'].replace('|', '\\|'),
                                                  m['needs'].replace('|', '\\|'), cb, note.replace('|', '\\|')))
table = [BEGIN,
         '%d independent changes confirmed (test-suite green with the change, demonstration fails with it and passes '
         'without it); %d are reported by a check, %d are not.' % (caught + missed, caught, missed), '',
         '| seed | property | change | needs, to manifest | reported by (property:rule) | what had to be built / why not caught |',
         '|---|---|---|---|---|---|'] + rows + [END]
path = os.path.join(HERE, 'DESIGN.md')
s = open(path).read()
if BEGIN in s:
    s = s[:s.index(BEGIN)] + '\n'.join(table) + s[s.index(END) + len(END):]
else:
    s = s.rstrip('\n') + '''

---------------------------------------------------------------------------

## 9. Seeded changes: which checks catch which

Each change below was written by a fresh sub-agent that saw only the text of one property and its own scratch
worktree of /repo (nothing from /verif), asked for a realistic change that breaks the property while the
1987 tests stay green and that needs something specific to manifest.  Every change was re-confirmed here
(`tools/confirm_seed.sh`) and is kept under `seeded/<id>/` (patch.diff, demo.py, notes.md, meta.json).
They are evaluated with `tools/eval_seed.sh <tree>` = every quick check with `--root <tree with the change>`;
none of them is ever committed to /repo.

''' + '\n'.join(table) + '\n'
open(path, 'w').write(s)
print('seeds: %d caught, %d missed' % (caught, missed))
