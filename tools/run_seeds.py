#!/venv/bin/python
"""Apply every kept seeded change to a scratch copy of /repo's current tree and run the checks named in its
meta.json (plus the check of its own property).  Reports, per seed, which rules fire.  Nothing is written to
/repo; scratch copies live under a temporary directory and are removed."""
import glob
import json
import os
import shutil
import subprocess
import sys
import tempfile

HERE = os.path.dirname(os.path.dirname(os.path.abspath(__file__)))
REPO = os.environ.get('PARSOLINT_ROOT', '/repo')


def main():
    ok = True
    for meta_path in sorted(glob.glob(os.path.join(HERE, 'seeded', '*', 'meta.json'))):
        m = json.load(open(meta_path))
        d = os.path.dirname(meta_path)
        tmp = tempfile.mkdtemp(prefix='parsolint-seed-')
        try:
            shutil.copytree(os.path.join(REPO, 'parso'), os.path.join(tmp, 'parso'),
                            ignore=shutil.ignore_patterns('__pycache__', '*.pyc'))
            r = subprocess.run(['patch', '-p1', '-s', '-i', os.path.join(d, 'patch.diff')], cwd=tmp,
                               capture_output=True, text=True)
            if r.returncode != 0 and m.get('base_commit'):
                # the tree moved on (a later fix: commit touches the same lines): use the commit the change was written against
                shutil.rmtree(os.path.join(tmp, 'parso'))
                ar = subprocess.run('git -C %s archive %s parso | tar -x -C %s' % (REPO, m['base_commit'], tmp), shell=True)
                r = subprocess.run(['patch', '-p1', '-s', '-i', os.path.join(d, 'patch.diff')], cwd=tmp, capture_output=True, text=True)
                based = ' (on base %s)' % m['base_commit']
            else:
                based = ''
            if r.returncode != 0:
                print('%-8s patch does not apply: %s' % (m['id'], (r.stdout + r.stderr).strip()[:120]))
                continue
            props = sorted({m['property']} | {c.split(':')[0] for c in m.get('caught_by', [])})
            fired = []
            for p in props:
                env = dict(os.environ, PARSOLINT_EVIDENCE=os.devnull)
                out = subprocess.run([os.path.join(HERE, 'check'), p, '--root', tmp], capture_output=True, text=True, env=env)
                rules = set()
                lines = out.stdout.splitlines()
                for i, line in enumerate(lines):
                    if line.startswith('VIOLATION'):
                        for back in range(i - 1, max(-1, i - 8), -1):
                            if lines[back].startswith('  ') and not lines[back].startswith('   '):
                                rules.add(lines[back].split()[0])
                                break
                if out.returncode == 2:
                    rules.add('ANALYSIS-ERROR')
                fired += ['%s:%s' % (p, r_) for r_ in sorted(rules)]
            expected = set(m.get('caught_by', []))
            status = 'caught' if fired else 'missed'
            flag = ''
            if expected and not (expected & set(fired)):
                flag = '   <-- EXPECTED %s' % sorted(expected)
                ok = False
            print('%-8s %-7s %s%s%s' % (m['id'], status, ', '.join(fired), based, flag))
        finally:
            shutil.rmtree(tmp, ignore_errors=True)
    return 0 if ok else 1


if __name__ == '__main__':
    sys.exit(main())
