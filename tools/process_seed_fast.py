#!/venv/bin/python
"""usage: tools/process_seed_fast.py <round> <Cnn> [props...]  -- confirm the change in /tmp/<round>/<Cnn>, then run the given
quick checks (default: every check) against it, four at a time; prints the rules that report it."""
import os, subprocess, sys
from concurrent.futures import ThreadPoolExecutor
HERE = os.path.dirname(os.path.dirname(os.path.abspath(__file__)))
rnd, prop = sys.argv[1], sys.argv[2]
props = sys.argv[3:] or ['C%02d' % i for i in range(1, 21)]
wt = '/tmp/%s/%s' % (rnd, prop)
r = subprocess.run(['sh', os.path.join(HERE, 'tools', 'confirm_seed.sh'), wt, '%s-%s' % (rnd, prop), prop], capture_output=True, text=True)
print('\n'.join((r.stdout + r.stderr).strip().splitlines()[-3:]))


def run(p):
    env = dict(os.environ, PARSOLINT_EVIDENCE=os.devnull)
    out = subprocess.run([os.path.join(HERE, 'check'), p, '--root', wt], capture_output=True, text=True, env=env)
    lines = out.stdout.splitlines()
    rules = []
    for i, l in enumerate(lines):
        if l.startswith('VIOLATION'):
            for b in range(i - 1, max(-1, i - 8), -1):
                if lines[b].startswith('  ') and not lines[b].startswith('   '):
                    rules.append('%s | %s | %s' % (lines[b].strip()[:90], lines[b + 1].strip()[:110], lines[b + 2].strip()[:160]))
                    break
    ae = [l[:200] for l in lines if l.startswith('ANALYSIS-ERROR')]
    return p, out.returncode, rules, ae


with ThreadPoolExecutor(4) as ex:
    for p, rc, rules, ae in ex.map(run, props):
        if rc:
            print('== %s exit=%d' % (p, rc))
            for x in rules:
                print('   ', x)
            for x in ae:
                print('   ', x)
