#!/bin/sh
# usage: tools/eval_seed.sh <root-with-change-applied> [ids...]   -- runs the quick checks against a tree, evidence not written
ROOT="$1"; shift
IDS="$@"
[ -z "$IDS" ] && IDS="C01 C02 C03 C04 C05 C06 C07 C08 C09 C10 C11 C12 C13 C14 C15 C16 C17 C18 C19 C20"
cd "$(dirname "$0")/.."
for id in $IDS; do
  out=$(PARSOLINT_EVIDENCE=/dev/null ./check $id --root "$ROOT" 2>&1); rc=$?
  if [ $rc -ne 0 ]; then echo "== $id exit=$rc"; printf "%s\n" "$out" | grep -v "^KNOWN-FINDING" | grep -B4 "^VIOLATION\|ANALYSIS-ERROR" | grep -v "^--" | cut -c1-300 | head -30; fi
done
echo "evaluated: $IDS"
