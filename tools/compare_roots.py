#!/usr/bin/env python3
"""usage: tools/compare_roots.py <rootA> <rootB>  -- per rule: obligations/discharged under both roots.
Used to confirm that a behaviour-preserving transform neither raises alarms nor makes a rule lose instances."""
import json, os, subprocess, sys, tempfile
from concurrent.futures import ThreadPoolExecutor
VERIF = os.path.dirname(os.path.dirname(os.path.abspath(__file__)))
IDS = ['C%02d' % i for i in range(1, 21)]

def run(args):
    root, pid = args
    fd, path = tempfile.mkstemp(suffix='.json'); os.close(fd)
    env = dict(os.environ, PARSOLINT_EVIDENCE=path)
    p = subprocess.run([os.path.join(VERIF, 'check'), pid, '--root', root], env=env, capture_output=True, text=True)
    try:
        ev = json.load(open(path))
    except Exception:
        ev = None
    os.unlink(path)
    return root, pid, p.returncode, ev

def main():
    a, b = sys.argv[1:3]
    with ThreadPoolExecutor(16) as ex:
        res = list(ex.map(run, [(r, p) for r in (a, b) for p in IDS]))
    tab = {(r, p): (rc, ev) for r, p, rc, ev in res}
    bad = 0
    for p in IDS:
        rca, eva = tab[(a, p)]; rcb, evb = tab[(b, p)]
        ra = eva['coverage']['rules'] if eva else {}
        rb = evb['coverage']['rules'] if evb else {}
        diffs = []
        for r in sorted(set(ra) | set(rb)):
            x = (ra.get(r, {}).get('obligations'), ra.get(r, {}).get('discharged'))
            y = (rb.get(r, {}).get('obligations'), rb.get(r, {}).get('discharged'))
            if x != y:
                diffs.append('%s %s->%s' % (r, x, y))
        flag = 'same' if not diffs and rca == rcb else 'DIFF'
        if flag == 'DIFF':
            bad += 1
        print(p, 'exit %s/%s' % (rca, rcb), flag, '; '.join(diffs))
    return 1 if bad else 0

sys.exit(main())
