#!/venv/bin/python
"""usage: tools/run_seeds_par.py [id-prefix ...]   -- like run_seeds.py, four seeds at a time, optionally only the seeds whose id
starts with one of the prefixes: every (property:rule) pair listed in meta.json `caught_by` must still be reported."""
import glob, json, os, shutil, subprocess, sys, tempfile
from concurrent.futures import ThreadPoolExecutor
HERE = os.path.dirname(os.path.dirname(os.path.abspath(__file__)))
REPO = os.environ.get('PARSOLINT_ROOT', '/repo')
prefixes = tuple(sys.argv[1:])


def one(meta_path):
    m = json.load(open(meta_path))
    d = os.path.dirname(meta_path)
    tmp = tempfile.mkdtemp(prefix='parsolint-seed-')
    try:
        shutil.copytree(os.path.join(REPO, 'parso'), os.path.join(tmp, 'parso'), ignore=shutil.ignore_patterns('__pycache__', '*.pyc'))
        r = subprocess.run(['patch', '-p1', '-s', '-i', os.path.join(d, 'patch.diff')], cwd=tmp, capture_output=True, text=True)
        based = ''
        if r.returncode != 0 and m.get('base_commit'):
            shutil.rmtree(os.path.join(tmp, 'parso'))
            subprocess.run('git -C %s archive %s parso | tar -x -C %s' % (REPO, m['base_commit'], tmp), shell=True)
            r = subprocess.run(['patch', '-p1', '-s', '-i', os.path.join(d, 'patch.diff')], cwd=tmp, capture_output=True, text=True)
            based = ' (on base %s)' % m['base_commit']
        if r.returncode != 0:
            return m['id'], 'patch does not apply', []
        want = set(m.get('caught_by') or [])
        props = sorted({c.split(':')[0] for c in want} | {m['property']})
        fired = set()
        for p in props:
            out = subprocess.run([os.path.join(HERE, 'check'), p, '--root', tmp], capture_output=True, text=True,
                                 env=dict(os.environ, PARSOLINT_EVIDENCE=os.devnull))
            lines = out.stdout.splitlines()
            for i, line in enumerate(lines):
                if line.startswith('VIOLATION'):
                    for back in range(i - 1, max(-1, i - 8), -1):
                        if lines[back].startswith('  ') and not lines[back].startswith('   '):
                            fired.add('%s:%s' % (p, lines[back].split()[0]))
                            break
        lost = sorted(want - fired)
        return m['id'], ('ok' if not lost else 'LOST ' + ' '.join(lost)) + based, sorted(fired - want)
    finally:
        shutil.rmtree(tmp, ignore_errors=True)


metas = [p for p in sorted(glob.glob(os.path.join(HERE, 'seeded', '*', 'meta.json')))
         if not prefixes or os.path.basename(os.path.dirname(p)).startswith(prefixes)]
bad = 0
with ThreadPoolExecutor(int(os.environ.get('SEED_JOBS', '4'))) as ex:
    for sid, status, extra in ex.map(one, metas):
        if status != 'ok' or '-v' in sys.argv:
            print('%-10s %s%s' % (sid, status, ('   (also: %s)' % ' '.join(extra)) if extra and status != 'ok' else ''))
        bad += status.startswith('LOST') or status.startswith('patch')
print('%d seeds, %d with a lost report' % (len(metas), bad))
sys.exit(1 if bad else 0)
