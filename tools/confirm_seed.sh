#!/bin/sh
# usage: tools/confirm_seed.sh <scratch worktree with the change applied> <seed id> <property>
# confirms: test-suite passes with the change, demo exits 1 with / 0 without; then stores it under seeded/<id>/
W="$1"; ID="$2"; PROP="$3"
VERIF="$(cd "$(dirname "$0")/.." && pwd)"
cd "$W" || exit 2
git diff -- parso > /tmp/confirm_$ID.diff
[ -s /tmp/confirm_$ID.diff ] || { echo "no change applied in $W"; exit 2; }
echo "--- test-suite with the change"
TESTS=$(/venv/bin/python -m pytest -q -p no:cacheprovider -n 8 2>&1 | tail -1)
echo "$TESTS"
/venv/bin/python demo.py > /tmp/confirm_$ID.with 2>&1; RC_WITH=$?
git apply -R /tmp/confirm_$ID.diff || exit 2
/venv/bin/python demo.py > /tmp/confirm_$ID.without 2>&1; RC_WITHOUT=$?
git apply /tmp/confirm_$ID.diff || exit 2
echo "demo with change: exit $RC_WITH ; without: exit $RC_WITHOUT"
case "$TESTS" in *failed*|*error*) echo "NOT CONFIRMED: tests fail"; exit 1;; esac
[ "$RC_WITH" = 1 ] && [ "$RC_WITHOUT" = 0 ] || { echo "NOT CONFIRMED: demo does not separate"; exit 1; }
D="$VERIF/seeded/$ID"; mkdir -p "$D"
cp /tmp/confirm_$ID.diff "$D/patch.diff"; cp demo.py "$D/demo.py"; [ -f notes.md ] && cp notes.md "$D/notes.md"
tail -3 /tmp/confirm_$ID.with > "$D/demo_with_change.txt"
echo "$TESTS" > "$D/tests_with_change.txt"
echo "CONFIRMED -> $D (write meta.json)"
