#!/venv/bin/python
"""Regenerate /verif/MANIFEST.json from the table below (kept in one place so it stays valid)."""
import json
import os
import sys

HERE = os.path.dirname(os.path.dirname(os.path.abspath(__file__)))
sys.path.insert(0, HERE)
from parsolint.props import REGISTRY          # noqa: E402
from parsolint.props.meta import META         # noqa: E402
from parsolint.props import meta as _meta     # noqa: E402
ADDENDA = getattr(_meta, 'ADDENDA', {})
TECH = getattr(_meta, 'TECH_ADDENDA', {})

ALL = ['C%02d' % i for i in range(1, 21)]

manifest = {
    'version': 1,
    'setup_cmd': '/venv/bin/python -m compileall -q parsolint || python3 -m compileall -q parsolint',
    'hooks': {
        'guard': 'DAVIDHALTER_PARSO_VERIF',
        'enable': 'no hooks are needed: every check reads the source text of /repo and never runs it',
        'baseline_off_cmd': 'cd /repo && /venv/bin/python -m pytest -ra -q -p no:cacheprovider --timeout=900 '
                            '--continue-on-collection-errors',
        'source_commits': [],
        'add_only': True,
    },
    'engines': [
        {'name': 'parsolint', 'path': 'parsolint/',
         'serves_properties': sorted(REGISTRY),
         'kind_free_text': 'repository-specific static analyser: ast program model + call graph + CFG '
                           '(definite assignment, path rules, effects, exception escape), own EBNF/LL(1) '
                           'grammar engine, regular-language engine over re syntax trees'},
    ],
    'checks': [],
    'not_applicable': [],
    'notes': 'Technique family: static analysis only. No registered command imports or executes parso. '
             'Exit 0 ok / 1 VIOLATION / 2 ANALYSIS-ERROR (vanished anchor, instance count below minimum).',
}
for pid in ALL:
    m = META.get(pid)
    if pid in REGISTRY and m and m.get('claimed', True):
        manifest['checks'].append({
            'property_id': pid,
            'quick_cmd': './check %s --tier quick' % pid,
            'thorough_cmd': './check %s --tier thorough' % pid,
            'evidence_file': 'evidence/%s.json' % pid,
            'replay_cmd_template': './check %s --replay {path}' % pid,
            'engine': 'parsolint',
            'level_claimed': {'category': 'other', 'text': m['level'] + ADDENDA.get(pid, ''), 'design_ref': 'DESIGN.md section 2, %s' % pid},
            'level_note': m['note'],
            'technique': m['technique'] + TECH.get(pid, ''),
        })
    else:
        manifest['not_applicable'].append({
            'property_id': pid,
            'reason': (m or {}).get('na_reason', 'check under construction in this round (design in DESIGN.md section 2)'),
        })
with open(os.path.join(HERE, 'MANIFEST.json'), 'w') as f:
    json.dump(manifest, f, indent=1)
print('checks:', [c['property_id'] for c in manifest['checks']])
print('not_applicable:', [c['property_id'] for c in manifest['not_applicable']])
