#!/venv/bin/python
"""usage: tools/diff_obs.py <ID> <rule> <rootA> <rootB> -- obligations of one rule under two roots, side by side"""
import sys
sys.path.insert(0, '/verif')
from parsolint.ctx import Ctx
from parsolint.report import Report
from parsolint.props import REGISTRY
pid, rule, a, b = sys.argv[1:5]
out = []
for root in (a, b):
    rep = Report(pid, 'quick', root)
    REGISTRY[pid](Ctx(root), rep)
    out.append({(o.file, o.qual, o.construct) for o in rep.obs if o.rule == rule})
for x in sorted(out[0] - out[1]):
    print('only A:', x)
for x in sorted(out[1] - out[0]):
    print('only B:', x)
