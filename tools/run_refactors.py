#!/venv/bin/python
"""Apply every stored behaviour-preserving refactor (refactors/<id>/patch.diff) to a scratch copy of the commit it was
written against and run all checks on the base and on the refactored tree: the refactored tree must not fail any
obligation the base does not fail, and no check may answer with an analysis error.  Scratch copies are temporary."""
import glob, json, os, shutil, subprocess, sys, tempfile
from concurrent.futures import ThreadPoolExecutor
HERE = os.path.dirname(os.path.dirname(os.path.abspath(__file__)))
REPO = os.environ.get('PARSOLINT_ROOT', '/repo')
IDS = ['C%02d' % i for i in range(1, 21)]


def failing(root, pid):
    fd, path = tempfile.mkstemp(suffix='.json'); os.close(fd)
    env = dict(os.environ, PARSOLINT_EVIDENCE=path)
    p = subprocess.run([os.path.join(HERE, 'check'), pid, '--root', root], env=env, capture_output=True, text=True)
    keys = set()
    lines = p.stdout.splitlines()
    for i, line in enumerate(lines):
        if line.startswith('VIOLATION'):
            for back in range(i - 1, max(-1, i - 8), -1):
                if lines[back].startswith('  ') and not lines[back].startswith('   '):
                    keys.add(lines[back].strip().split(' ', 1)[0])      # rule id
                    break
    os.unlink(path)
    return p.returncode, keys, (p.stdout + p.stderr)


def main():
    ok = True
    for meta_path in sorted(glob.glob(os.path.join(HERE, 'refactors', '*', 'meta.json'))):
        m = json.load(open(meta_path))
        if len(sys.argv) > 1 and m['id'] not in sys.argv[1:]:
            continue
        d = os.path.dirname(meta_path)
        base = tempfile.mkdtemp(prefix='parsolint-rfbase-')
        new = tempfile.mkdtemp(prefix='parsolint-rf-')
        try:
            for t in (base, new):
                subprocess.run('git -C %s archive %s parso | tar -x -C %s' % (REPO, m['base_commit'], t), shell=True, check=True)
            r = subprocess.run(['patch', '-p1', '-s', '-i', os.path.join(d, 'patch.diff')], cwd=new, capture_output=True, text=True)
            if r.returncode != 0:
                print('%-12s patch does not apply' % m['id']); ok = False; continue
            with ThreadPoolExecutor(16) as ex:
                res_b = list(ex.map(lambda p: failing(base, p), IDS))
                res_n = list(ex.map(lambda p: failing(new, p), IDS))
            bad = []
            closed = []
            for pid, (rcb, kb, _), (rcn, kn, out) in zip(IDS, res_b, res_n):
                if rcn == 2 and pid in m.get('may_fail_closed', []):
                    closed.append(pid)
                elif rcn == 2:
                    bad.append('%s: ANALYSIS-ERROR %s' % (pid, [l for l in out.splitlines() if 'ANALYSIS-ERROR' in l][:1]))
                elif kn - kb:
                    bad.append('%s: new alarms %s' % (pid, sorted(kn - kb)))
            print('%-12s %s%s' % (m['id'], 'silent' if not bad else 'ALARMS: ' + '; '.join(bad),
                                   (' (fail-closed as documented: %s)' % ' '.join(closed)) if closed else ''))
            ok = ok and not bad
        finally:
            shutil.rmtree(base, ignore_errors=True); shutil.rmtree(new, ignore_errors=True)
    return 0 if ok else 1


sys.exit(main())
