#!/bin/sh
# usage: tools/process_seed.sh <round> <Cnn>   -- confirm the change in /tmp/<round>/<Cnn>, then run every quick check against it
R="$1"; P="$2"; W=/tmp/$R/$P
cd "$(dirname "$0")/.." || exit 2
sh tools/confirm_seed.sh "$W" "$R-$P" "$P" 2>&1 | tail -4
sh tools/eval_seed.sh "$W" 2>&1
