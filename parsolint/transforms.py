"""Whole-tree behaviour-preserving transformations used as must-stay-silent variants.

reformat      : every module is replaced by ast.unparse(ast.parse(source)) - layout, comments, string quoting and
                parenthesisation change, behaviour does not.
alpha-rename  : in every function, locals that are not parameters (and are not declared global/nonlocal, and whose name
                is not also used as an attribute/keyword spelling that matters) get a new spelling, consistently in the
                nested functions that close over them.
"""
import ast
import os
import symtable


def reformat_tree(root):
    n = 0
    for dirpath, _, files in os.walk(os.path.join(root, 'parso')):
        for fn in files:
            if fn.endswith('.py'):
                p = os.path.join(dirpath, fn)
                with open(p, encoding='utf-8') as f:
                    src = f.read()
                out = ast.unparse(ast.parse(src)) + '\n'
                compile(out, p, 'exec')
                with open(p, 'w', encoding='utf-8') as f:
                    f.write(out)
                n += 1
    return n


class _Renamer(ast.NodeTransformer):
    """Renames the given names inside one function, following closures."""

    def __init__(self, mapping):
        self.mapping = mapping

    def _inner_mapping(self, node):
        # names rebound locally in a nested scope shadow the outer ones, unless declared nonlocal
        shadow = set()
        a = node.args
        for x in a.posonlyargs + a.args + a.kwonlyargs:
            shadow.add(x.arg)
        if a.vararg:
            shadow.add(a.vararg.arg)
        if a.kwarg:
            shadow.add(a.kwarg.arg)
        nonlocals = set()
        body = node.body if isinstance(node.body, list) else [node.body]
        for st in body:
            for n in ast.walk(st):
                if isinstance(n, ast.Nonlocal):
                    nonlocals.update(n.names)
        def visit(n):
            for c in ast.iter_child_nodes(n):
                if isinstance(c, (ast.FunctionDef, ast.AsyncFunctionDef, ast.ClassDef)):
                    shadow.add(c.name)
                    continue
                if isinstance(c, ast.Lambda):
                    continue
                if isinstance(c, ast.Name) and isinstance(c.ctx, (ast.Store, ast.Del)):
                    shadow.add(c.id)
                if isinstance(c, ast.ExceptHandler) and c.name:
                    shadow.add(c.name)
                if isinstance(c, (ast.Import, ast.ImportFrom)):
                    for al in c.names:
                        shadow.add((al.asname or al.name).split('.')[0])
                visit(c)
        for st in body:
            if isinstance(st, (ast.FunctionDef, ast.AsyncFunctionDef, ast.ClassDef)):
                shadow.add(st.name)
            else:
                visit(ast.Module(body=[st], type_ignores=[]))
        shadow -= nonlocals
        return {k: v for k, v in self.mapping.items() if k not in shadow}

    def visit_FunctionDef(self, node):
        inner = self._inner_mapping(node)
        node.decorator_list = [self.visit(d) for d in node.decorator_list]
        node.args.defaults = [self.visit(d) for d in node.args.defaults]
        node.args.kw_defaults = [self.visit(d) if d is not None else None for d in node.args.kw_defaults]
        if node.name in self.mapping:
            node.name = self.mapping[node.name]
        r = _Renamer(inner)
        node.body = [r.visit(s) for s in node.body]
        return node

    visit_AsyncFunctionDef = visit_FunctionDef

    def visit_Lambda(self, node):
        inner = self._inner_mapping(node)
        node.args.defaults = [self.visit(d) for d in node.args.defaults]
        node.body = _Renamer(inner).visit(node.body)
        return node

    def visit_ClassDef(self, node):
        if node.name in self.mapping:
            node.name = self.mapping[node.name]
        node.bases = [self.visit(b) for b in node.bases]
        node.decorator_list = [self.visit(d) for d in node.decorator_list]
        # class bodies do not see enclosing function locals by assignment, but they can read them
        node.body = [self.visit(s) for s in node.body]
        return node

    def _comp(self, node):
        bound = set()
        for g in node.generators:
            for n in ast.walk(g.target):
                if isinstance(n, ast.Name):
                    bound.add(n.id)
        inner = {k: v for k, v in self.mapping.items() if k not in bound}
        r = _Renamer(inner)
        # the first iterable is evaluated in the enclosing scope
        first = node.generators[0]
        first.iter = self.visit(first.iter)
        for i, g in enumerate(node.generators):
            if i:
                g.iter = r.visit(g.iter)
            g.ifs = [r.visit(x) for x in g.ifs]
            g.target = r.visit(g.target)
        if isinstance(node, ast.DictComp):
            node.key = r.visit(node.key)
            node.value = r.visit(node.value)
        else:
            node.elt = r.visit(node.elt)
        return node

    visit_ListComp = visit_SetComp = visit_GeneratorExp = visit_DictComp = _comp

    def visit_Name(self, node):
        if node.id in self.mapping:
            node.id = self.mapping[node.id]
        return node

    def visit_ExceptHandler(self, node):
        if node.name and node.name in self.mapping:
            node.name = self.mapping[node.name]
        self.generic_visit(node)
        return node

    def visit_Global(self, node):
        return node

    def visit_Nonlocal(self, node):
        node.names = [self.mapping.get(n, n) for n in node.names]
        return node


def _function_locals(fn):
    """Names assigned in ``fn`` itself (not parameters, not global/nonlocal)."""
    from .da import function_locals
    loc, params = function_locals(fn)
    declared = set()
    for n in ast.walk(fn):
        if isinstance(n, (ast.Global, ast.Nonlocal)):
            declared.update(n.names)
    return {x for x in loc - params - declared if not x.startswith('__')}


def alpha_rename_tree(root, suffix='_rn', opaque=False):
    n_funcs = n_names = 0

    def fresh(names, tag):
        if not opaque:
            return {x: x + suffix + tag for x in names}
        return {x: 'zq%s%d%s' % (tag, i, suffix) for i, x in enumerate(sorted(names))}

    for dirpath, _, files in os.walk(os.path.join(root, 'parso')):
        for fn in files:
            if not fn.endswith('.py'):
                continue
            p = os.path.join(dirpath, fn)
            with open(p, encoding='utf-8') as f:
                src = f.read()
            tree = ast.parse(src)

            def process(body):
                nonlocal n_funcs, n_names
                for st in body:
                    if isinstance(st, (ast.FunctionDef, ast.AsyncFunctionDef)):
                        names = _function_locals(st)
                        # keep names of nested defs/classes that are used as attributes elsewhere untouched is not needed:
                        # nested function names are plain locals too
                        mapping = fresh(names, '')
                        if mapping:
                            n_funcs += 1
                            n_names += len(mapping)
                            r = _Renamer(mapping)
                            st.body = [r.visit(s) for s in st.body]
                            # nested functions get their own locals renamed as well
                        process_nested(st)
                    elif isinstance(st, ast.ClassDef):
                        process(st.body)
                    elif isinstance(st, (ast.If, ast.Try)):
                        for field in ('body', 'orelse', 'finalbody'):
                            process(getattr(st, field, []) or [])

            def process_nested(fn_node):
                for sub in ast.walk(fn_node):
                    if sub is not fn_node and isinstance(sub, (ast.FunctionDef, ast.AsyncFunctionDef)):
                        names = {x for x in _function_locals(sub) if not x.endswith(suffix)}
                        mapping = fresh(names, 'n')
                        if mapping:
                            r = _Renamer(mapping)
                            sub.body = [r.visit(s) for s in sub.body]
            process(tree.body)
            out = ast.unparse(tree) + '\n'
            compile(out, p, 'exec')
            with open(p, 'w', encoding='utf-8') as f:
                f.write(out)
    return n_funcs, n_names


TRANSFORMS = {'reformat': reformat_tree, 'alpha-rename': alpha_rename_tree}


def opaque_rename_tree(root):
    """Like alpha_rename_tree, but the new names carry no trace of the old ones (zq0_rn, zq1_rn ...)."""
    return alpha_rename_tree(root, opaque=True)
