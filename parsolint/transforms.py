"""Whole-tree behaviour-preserving transformations used as must-stay-silent variants.

reformat      : every module is replaced by ast.unparse(ast.parse(source)) - layout, comments, string quoting and
                parenthesisation change, behaviour does not.
alpha-rename  : in every function, locals that are not parameters (and are not declared global/nonlocal, and whose name
                is not also used as an attribute/keyword spelling that matters) get a new spelling, consistently in the
                nested functions that close over them.
"""
import ast
import os
import symtable


def reformat_tree(root):
    n = 0
    for dirpath, _, files in os.walk(os.path.join(root, 'parso')):
        for fn in files:
            if fn.endswith('.py'):
                p = os.path.join(dirpath, fn)
                with open(p, encoding='utf-8') as f:
                    src = f.read()
                out = ast.unparse(ast.parse(src)) + '\n'
                compile(out, p, 'exec')
                with open(p, 'w', encoding='utf-8') as f:
                    f.write(out)
                n += 1
    return n


class _Renamer(ast.NodeTransformer):
    """Renames the given names inside one function, following closures."""

    def __init__(self, mapping):
        self.mapping = mapping

    def _inner_mapping(self, node):
        # names rebound locally in a nested scope shadow the outer ones, unless declared nonlocal
        shadow = set()
        a = node.args
        for x in a.posonlyargs + a.args + a.kwonlyargs:
            shadow.add(x.arg)
        if a.vararg:
            shadow.add(a.vararg.arg)
        if a.kwarg:
            shadow.add(a.kwarg.arg)
        nonlocals = set()
        body = node.body if isinstance(node.body, list) else [node.body]
        for st in body:
            for n in ast.walk(st):
                if isinstance(n, ast.Nonlocal):
                    nonlocals.update(n.names)
        def visit(n):
            for c in ast.iter_child_nodes(n):
                if isinstance(c, (ast.FunctionDef, ast.AsyncFunctionDef, ast.ClassDef)):
                    shadow.add(c.name)
                    continue
                if isinstance(c, ast.Lambda):
                    continue
                if isinstance(c, ast.Name) and isinstance(c.ctx, (ast.Store, ast.Del)):
                    shadow.add(c.id)
                if isinstance(c, ast.ExceptHandler) and c.name:
                    shadow.add(c.name)
                if isinstance(c, (ast.Import, ast.ImportFrom)):
                    for al in c.names:
                        shadow.add((al.asname or al.name).split('.')[0])
                visit(c)
        for st in body:
            if isinstance(st, (ast.FunctionDef, ast.AsyncFunctionDef, ast.ClassDef)):
                shadow.add(st.name)
            else:
                visit(ast.Module(body=[st], type_ignores=[]))
        shadow -= nonlocals
        return {k: v for k, v in self.mapping.items() if k not in shadow}

    def visit_FunctionDef(self, node):
        inner = self._inner_mapping(node)
        node.decorator_list = [self.visit(d) for d in node.decorator_list]
        node.args.defaults = [self.visit(d) for d in node.args.defaults]
        node.args.kw_defaults = [self.visit(d) if d is not None else None for d in node.args.kw_defaults]
        if node.name in self.mapping:
            node.name = self.mapping[node.name]
        r = _Renamer(inner)
        node.body = [r.visit(s) for s in node.body]
        return node

    visit_AsyncFunctionDef = visit_FunctionDef

    def visit_Lambda(self, node):
        inner = self._inner_mapping(node)
        node.args.defaults = [self.visit(d) for d in node.args.defaults]
        node.body = _Renamer(inner).visit(node.body)
        return node

    def visit_ClassDef(self, node):
        if node.name in self.mapping:
            node.name = self.mapping[node.name]
        node.bases = [self.visit(b) for b in node.bases]
        node.decorator_list = [self.visit(d) for d in node.decorator_list]
        # class bodies do not see enclosing function locals by assignment, but they can read them
        node.body = [self.visit(s) for s in node.body]
        return node

    def _comp(self, node):
        bound = set()
        for g in node.generators:
            for n in ast.walk(g.target):
                if isinstance(n, ast.Name):
                    bound.add(n.id)
        inner = {k: v for k, v in self.mapping.items() if k not in bound}
        r = _Renamer(inner)
        # the first iterable is evaluated in the enclosing scope
        first = node.generators[0]
        first.iter = self.visit(first.iter)
        for i, g in enumerate(node.generators):
            if i:
                g.iter = r.visit(g.iter)
            g.ifs = [r.visit(x) for x in g.ifs]
            g.target = r.visit(g.target)
        if isinstance(node, ast.DictComp):
            node.key = r.visit(node.key)
            node.value = r.visit(node.value)
        else:
            node.elt = r.visit(node.elt)
        return node

    visit_ListComp = visit_SetComp = visit_GeneratorExp = visit_DictComp = _comp

    def visit_Name(self, node):
        if node.id in self.mapping:
            node.id = self.mapping[node.id]
        return node

    def visit_ExceptHandler(self, node):
        if node.name and node.name in self.mapping:
            node.name = self.mapping[node.name]
        self.generic_visit(node)
        return node

    def visit_Global(self, node):
        return node

    def visit_Nonlocal(self, node):
        node.names = [self.mapping.get(n, n) for n in node.names]
        return node


def _function_locals(fn):
    """Names assigned in ``fn`` itself (not parameters, not global/nonlocal)."""
    from .da import function_locals
    loc, params = function_locals(fn)
    declared = set()
    for n in ast.walk(fn):
        if isinstance(n, (ast.Global, ast.Nonlocal)):
            declared.update(n.names)
    return {x for x in loc - params - declared if not x.startswith('__')}


def alpha_rename_tree(root, suffix='_rn', opaque=False):
    n_funcs = n_names = 0

    def fresh(names, tag):
        if not opaque:
            return {x: x + suffix + tag for x in names}
        return {x: 'zq%s%d%s' % (tag, i, suffix) for i, x in enumerate(sorted(names))}

    for dirpath, _, files in os.walk(os.path.join(root, 'parso')):
        for fn in files:
            if not fn.endswith('.py'):
                continue
            p = os.path.join(dirpath, fn)
            with open(p, encoding='utf-8') as f:
                src = f.read()
            tree = ast.parse(src)

            def process(body):
                nonlocal n_funcs, n_names
                for st in body:
                    if isinstance(st, (ast.FunctionDef, ast.AsyncFunctionDef)):
                        names = _function_locals(st)
                        # keep names of nested defs/classes that are used as attributes elsewhere untouched is not needed:
                        # nested function names are plain locals too
                        mapping = fresh(names, '')
                        if mapping:
                            n_funcs += 1
                            n_names += len(mapping)
                            r = _Renamer(mapping)
                            st.body = [r.visit(s) for s in st.body]
                            # nested functions get their own locals renamed as well
                        process_nested(st)
                    elif isinstance(st, ast.ClassDef):
                        process(st.body)
                    elif isinstance(st, (ast.If, ast.Try)):
                        for field in ('body', 'orelse', 'finalbody'):
                            process(getattr(st, field, []) or [])

            def process_nested(fn_node):
                for sub in ast.walk(fn_node):
                    if sub is not fn_node and isinstance(sub, (ast.FunctionDef, ast.AsyncFunctionDef)):
                        names = {x for x in _function_locals(sub) if not x.endswith(suffix)}
                        mapping = fresh(names, 'n')
                        if mapping:
                            r = _Renamer(mapping)
                            sub.body = [r.visit(s) for s in sub.body]
            process(tree.body)
            out = ast.unparse(tree) + '\n'
            compile(out, p, 'exec')
            with open(p, 'w', encoding='utf-8') as f:
                f.write(out)
    return n_funcs, n_names


TRANSFORMS = {'reformat': reformat_tree, 'alpha-rename': alpha_rename_tree}


def opaque_rename_tree(root):
    """Like alpha_rename_tree, but the new names carry no trace of the old ones (zq0_rn, zq1_rn ...)."""
    return alpha_rename_tree(root, opaque=True)


# ---------------------------------------------------------------------------------------------------------
# statement / expression level behaviour-preserving rewrites (applied to every module of the package)
# ---------------------------------------------------------------------------------------------------------
def _rewrite_tree(root, transformer_factory):
    n = 0
    for dirpath, _, files in os.walk(os.path.join(root, 'parso')):
        for fn in files:
            if not fn.endswith('.py'):
                continue
            p = os.path.join(dirpath, fn)
            with open(p, encoding='utf-8') as f:
                src = f.read()
            tree = ast.parse(src)
            tr = transformer_factory()
            tree = tr.visit(tree)
            ast.fix_missing_locations(tree)
            out = ast.unparse(tree) + '\n'
            compile(out, p, 'exec')
            with open(p, 'w', encoding='utf-8') as f:
                f.write(out)
            n += getattr(tr, 'count', 0)
    return n


_TERMINATORS = (ast.Return, ast.Raise, ast.Continue, ast.Break)


def _negate(test):
    if isinstance(test, ast.UnaryOp) and isinstance(test.op, ast.Not):
        return test.operand
    if isinstance(test, ast.Compare) and len(test.ops) == 1:
        flip = {ast.Eq: ast.NotEq, ast.NotEq: ast.Eq, ast.In: ast.NotIn, ast.NotIn: ast.In,
                ast.Is: ast.IsNot, ast.IsNot: ast.Is}
        t = type(test.ops[0])
        if t in flip:
            return ast.Compare(left=test.left, ops=[flip[t]()], comparators=test.comparators)
    return ast.UnaryOp(op=ast.Not(), operand=test)


class _SwapBranches(ast.NodeTransformer):
    """if c: A else: B   ->   if not c: B else: A      (only plain else branches, not elif chains)"""
    count = 0

    def visit_If(self, node):
        self.generic_visit(node)
        if node.orelse and not (len(node.orelse) == 1 and isinstance(node.orelse[0], ast.If)) \
                and not (len(node.body) == 1 and isinstance(node.body[0], ast.If)):
            self.count += 1
            return ast.If(test=_negate(node.test), body=node.orelse, orelse=node.body)
        return node


class _HoistElse(ast.NodeTransformer):
    """if c: ...; return X else: B   ->   if c: ...; return X \n B   (pylint's no-else-return)"""
    count = 0

    def _block(self, stmts):
        out = []
        for st in stmts:
            if isinstance(st, ast.If) and st.orelse and st.body and isinstance(st.body[-1], _TERMINATORS) \
                    and not (len(st.orelse) == 1 and isinstance(st.orelse[0], ast.If)):
                self.count += 1
                tail = st.orelse
                st.orelse = []
                out.append(st)
                out.extend(tail)
            else:
                out.append(st)
        return out

    def generic_visit(self, node):
        super().generic_visit(node)
        for field in ('body', 'orelse', 'finalbody'):
            v = getattr(node, field, None)
            if isinstance(v, list) and v and isinstance(v[0], ast.stmt):
                setattr(node, field, self._block(v))
        return node


class _NestTail(ast.NodeTransformer):
    """if c: ...; return X \n B   ->   if c: ...; return X else: B    (the reverse of _HoistElse)"""
    count = 0

    def _block(self, stmts):
        for i, st in enumerate(stmts):
            if isinstance(st, ast.If) and not st.orelse and st.body and isinstance(st.body[-1], (ast.Return, ast.Raise)) \
                    and i + 1 < len(stmts) and not any(isinstance(s, (ast.FunctionDef, ast.ClassDef)) for s in stmts[i + 1:]):
                self.count += 1
                st.orelse = self._block(stmts[i + 1:])
                return stmts[:i + 1]
        return stmts

    def visit_FunctionDef(self, node):
        self.generic_visit(node)
        node.body = self._block(node.body)
        return node

    visit_AsyncFunctionDef = visit_FunctionDef


class _Percent2F(ast.NodeTransformer):
    """'a%sb%r' % (x, y)  ->  f'a{x}b{y!r}'"""
    count = 0

    def visit_BinOp(self, node):
        self.generic_visit(node)
        if isinstance(node.op, ast.Mod) and isinstance(node.left, ast.Constant) and isinstance(node.left.value, str):
            import re as _re
            fmt = node.left.value
            parts = _re.split(r'(%[sr%])', fmt)
            if '%' in ''.join(p for p in parts if p not in ('%s', '%r', '%%')):
                return node
            nspec = sum(1 for p in parts if p in ('%s', '%r'))
            if isinstance(node.right, ast.Tuple):
                args = list(node.right.elts)
            elif isinstance(node.right, (ast.Name, ast.Attribute, ast.Call, ast.Subscript, ast.Constant)) and nspec == 1:
                if isinstance(node.right, (ast.Name, ast.Attribute, ast.Call, ast.Subscript)):
                    return node      # could be a tuple at run time
                args = [node.right]
            else:
                return node
            if len(args) != nspec or any(isinstance(a, ast.Starred) for a in args):
                return node
            values = []
            it = iter(args)
            for p in parts:
                if p == '%s':
                    values.append(ast.FormattedValue(value=next(it), conversion=-1, format_spec=None))
                elif p == '%r':
                    values.append(ast.FormattedValue(value=next(it), conversion=114, format_spec=None))
                elif p == '%%':
                    values.append(ast.Constant(value='%'))
                elif p:
                    values.append(ast.Constant(value=p))
            self.count += 1
            return ast.JoinedStr(values=values)
        return node


class _MembershipList(ast.NodeTransformer):
    """x in ('a', 'b')  ->  x in ['a', 'b']   (constant tuples on the right of in / not in)"""
    count = 0

    def visit_Compare(self, node):
        self.generic_visit(node)
        if len(node.ops) == 1 and isinstance(node.ops[0], (ast.In, ast.NotIn)) and isinstance(node.comparators[0], ast.Tuple) \
                and all(isinstance(e, ast.Constant) for e in node.comparators[0].elts):
            self.count += 1
            node.comparators = [ast.List(elts=node.comparators[0].elts, ctx=ast.Load())]
        return node


class _Yoda(ast.NodeTransformer):
    """a.b == 'c'  ->  'c' == a.b   (== / != with a constant on the right and a name/attribute chain on the left)"""
    count = 0

    def visit_Compare(self, node):
        self.generic_visit(node)
        def simple(n):
            while isinstance(n, ast.Attribute):
                n = n.value
            return isinstance(n, ast.Name)
        if len(node.ops) == 1 and isinstance(node.ops[0], (ast.Eq, ast.NotEq)) \
                and isinstance(node.comparators[0], ast.Constant) and isinstance(node.comparators[0].value, str) \
                and simple(node.left):
            self.count += 1
            return ast.Compare(left=node.comparators[0], ops=node.ops, comparators=[node.left])
        return node


class _AugExpand(ast.NodeTransformer):
    """n += 1  ->  n = n + 1   (name targets, numeric constants only: no aliasing question)"""
    count = 0

    def visit_AugAssign(self, node):
        if isinstance(node.target, ast.Name) and isinstance(node.value, ast.Constant) and isinstance(node.value.value, int):
            self.count += 1
            return ast.Assign(targets=[ast.Name(id=node.target.id, ctx=ast.Store())],
                              value=ast.BinOp(left=ast.Name(id=node.target.id, ctx=ast.Load()), op=node.op, right=node.value),
                              lineno=node.lineno)
        return node


def swap_branches_tree(root):
    return _rewrite_tree(root, _SwapBranches)


def hoist_else_tree(root):
    return _rewrite_tree(root, _HoistElse)


def nest_tail_tree(root):
    return _rewrite_tree(root, _NestTail)


def percent_to_fstring_tree(root):
    return _rewrite_tree(root, _Percent2F)


def membership_list_tree(root):
    return _rewrite_tree(root, _MembershipList)


def yoda_tree(root):
    return _rewrite_tree(root, _Yoda)


def aug_expand_tree(root):
    return _rewrite_tree(root, _AugExpand)


# ---------------------------------------------------------------------------------------------------------
# second batch
# ---------------------------------------------------------------------------------------------------------
class _RetViaLocal(ast.NodeTransformer):
    """return EXPR  ->  result_ = EXPR; return result_     (not for bare names / constants / generators' bare return)"""
    count = 0

    def _block(self, stmts):
        out = []
        for st in stmts:
            if isinstance(st, ast.Return) and st.value is not None and not isinstance(st.value, (ast.Name, ast.Constant)):
                self.count += 1
                out.append(ast.Assign(targets=[ast.Name(id='result_', ctx=ast.Store())], value=st.value, lineno=st.lineno))
                out.append(ast.Return(value=ast.Name(id='result_', ctx=ast.Load())))
            else:
                out.append(st)
        return out

    def generic_visit(self, node):
        super().generic_visit(node)
        if isinstance(node, ast.ClassDef):
            return node
        for field in ('body', 'orelse', 'finalbody'):
            v = getattr(node, field, None)
            if isinstance(v, list) and v and isinstance(v[0], ast.stmt):
                setattr(node, field, self._block(v))
        return node

    def visit_Lambda(self, node):
        return node


class _ContinueGuard(ast.NodeTransformer):
    """for ...: if c: continue; REST   ->   for ...: if not c: REST     (c side-effect free is not needed: same order)"""
    count = 0

    def _loop(self, node):
        self.generic_visit(node)
        body = node.body
        for i, st in enumerate(body):
            if isinstance(st, ast.If) and not st.orelse and len(st.body) == 1 and isinstance(st.body[0], ast.Continue) \
                    and i + 1 < len(body) and not any(isinstance(x, (ast.FunctionDef, ast.ClassDef)) for x in body[i + 1:]):
                self.count += 1
                node.body = body[:i] + [ast.If(test=_negate(st.test), body=body[i + 1:], orelse=[])]
                break
        return node

    visit_For = visit_While = _loop


class _NestAnd(ast.NodeTransformer):
    """if a and b: X   ->   if a: if b: X      (no else branch)"""
    count = 0

    def visit_If(self, node):
        self.generic_visit(node)
        if not node.orelse and isinstance(node.test, ast.BoolOp) and isinstance(node.test.op, ast.And):
            self.count += 1
            vals = node.test.values
            inner = ast.If(test=vals[-1], body=node.body, orelse=[])
            for v in reversed(vals[:-1]):
                inner = ast.If(test=v, body=[inner], orelse=[])
            return inner
        return node


class _EarlyReturn(ast.NodeTransformer):
    """def f(): ...; if c: BLOCK      ->   def f(): ...; if not c: return; BLOCK     (last statement, no else, no value returns needed)"""
    count = 0

    def visit_FunctionDef(self, node):
        self.generic_visit(node)
        last = node.body[-1]
        is_gen = any(isinstance(n, (ast.Yield, ast.YieldFrom)) for n in ast.walk(node))
        if isinstance(last, ast.If) and not last.orelse and len(node.body) >= 1 and not is_gen \
                and not any(isinstance(x, (ast.FunctionDef, ast.ClassDef)) for x in last.body):
            self.count += 1
            node.body = node.body[:-1] + [ast.If(test=_negate(last.test), body=[ast.Return(value=None)], orelse=[])] + last.body
        return node


class _SortMethods(ast.NodeTransformer):
    """methods of a class in alphabetical order (other class-level statements stay in front, in their order;
    defs that share a name - property setters - keep their relative order; decorated defs that refer to another
    def of the class by name - @x.setter - stay behind it)"""
    count = 0

    def visit_ClassDef(self, node):
        self.generic_visit(node)
        defs = [s for s in node.body if isinstance(s, (ast.FunctionDef, ast.AsyncFunctionDef))]
        if len(defs) < 2:
            return node
        first_def = node.body.index(defs[0])
        # only reorder when everything after the first def is a def (class-level statements may use earlier defs)
        if any(not isinstance(s, (ast.FunctionDef, ast.AsyncFunctionDef)) for s in node.body[first_def:]):
            return node
        names = {d.name for d in defs}
        for d in defs:
            for dec in d.decorator_list:
                for n in ast.walk(dec):
                    if isinstance(n, ast.Name) and n.id in names:
                        return node
            for default in d.args.defaults + [x for x in d.args.kw_defaults if x is not None]:
                for n in ast.walk(default):
                    if isinstance(n, ast.Name) and n.id in names:
                        return node
        new = sorted(defs, key=lambda d: d.name)       # stable: same names keep their order
        if [d.name for d in new] != [d.name for d in defs]:
            self.count += 1
            node.body = node.body[:first_def] + new
        return node


def ret_via_local_tree(root):
    return _rewrite_tree(root, _RetViaLocal)


def continue_guard_tree(root):
    return _rewrite_tree(root, _ContinueGuard)


def nest_and_tree(root):
    return _rewrite_tree(root, _NestAnd)


def early_return_tree(root):
    return _rewrite_tree(root, _EarlyReturn)


def sort_methods_tree(root):
    return _rewrite_tree(root, _SortMethods)


# ---------------------------------------------------------------------------------------------------------
# third batch
# ---------------------------------------------------------------------------------------------------------
class _AnnotateLocals(ast.NodeTransformer):
    """x = v  ->  x: 'object' = v   for plain local names inside functions (local annotations are never evaluated)"""
    count = 0

    def __init__(self):
        self.depth = 0

    def visit_FunctionDef(self, node):
        self.depth += 1
        declared = set()
        for n in ast.walk(node):
            if isinstance(n, (ast.Global, ast.Nonlocal)):
                declared.update(n.names)
        self.declared = getattr(self, 'declared', set()) | declared
        self.generic_visit(node)
        self.depth -= 1
        return node

    visit_AsyncFunctionDef = visit_FunctionDef

    def visit_ClassDef(self, node):
        d, self.depth = self.depth, 0
        self.generic_visit(node)
        self.depth = d
        return node

    def visit_Assign(self, node):
        if self.depth and len(node.targets) == 1 and isinstance(node.targets[0], ast.Name) \
                and node.targets[0].id not in getattr(self, 'declared', set()):
            self.count += 1
            return ast.AnnAssign(target=node.targets[0], annotation=ast.Constant(value='object'), value=node.value, simple=1)
        return node


class _Walrus(ast.NodeTransformer):
    """x = E; if x ...:   ->   if (x := E) ...:      (x the first thing the test evaluates)"""
    count = 0

    @staticmethod
    def _first_name(test):
        if isinstance(test, ast.Name):
            return test, 'self'
        if isinstance(test, ast.UnaryOp) and isinstance(test.op, ast.Not) and isinstance(test.operand, ast.Name):
            return test.operand, 'operand'
        if isinstance(test, ast.Compare) and isinstance(test.left, ast.Name):
            return test.left, 'left'
        return None, None

    def _block(self, stmts):
        out = []
        i = 0
        while i < len(stmts):
            a = stmts[i]
            b = stmts[i + 1] if i + 1 < len(stmts) else None
            if isinstance(a, ast.Assign) and len(a.targets) == 1 and isinstance(a.targets[0], ast.Name) and isinstance(b, ast.If):
                name, where = self._first_name(b.test)
                if name is not None and name.id == a.targets[0].id:
                    w = ast.NamedExpr(target=ast.Name(id=name.id, ctx=ast.Store()), value=a.value)
                    if where == 'self':
                        b.test = w
                    elif where == 'operand':
                        b.test.operand = w
                    else:
                        b.test.left = w
                    self.count += 1
                    out.append(b)
                    i += 2
                    continue
            out.append(a)
            i += 1
        return out

    def visit_FunctionDef(self, node):
        self.generic_visit(node)
        for n in ast.walk(node):
            if isinstance(n, ast.ClassDef):
                continue
            for field in ('body', 'orelse', 'finalbody'):
                v = getattr(n, field, None)
                if isinstance(v, list) and v and isinstance(v[0], ast.stmt) and not isinstance(n, ast.ClassDef):
                    setattr(n, field, self._block(v))
        return node

    visit_AsyncFunctionDef = visit_FunctionDef


class _Percent2Format(ast.NodeTransformer):
    """'a%sb%s' % (x, y)  ->  'a{}b{}'.format(x, y)    (only %s, no braces in the literal)"""
    count = 0

    def visit_BinOp(self, node):
        self.generic_visit(node)
        if isinstance(node.op, ast.Mod) and isinstance(node.left, ast.Constant) and isinstance(node.left.value, str) \
                and isinstance(node.right, ast.Tuple):
            fmt = node.left.value
            if '{' in fmt or '}' in fmt or fmt.count('%') != fmt.count('%s') or fmt.count('%s') != len(node.right.elts) \
                    or any(isinstance(e, ast.Starred) for e in node.right.elts):
                return node
            self.count += 1
            return ast.Call(func=ast.Attribute(value=ast.Constant(value=fmt.replace('%s', '{}')), attr='format', ctx=ast.Load()),
                            args=list(node.right.elts), keywords=[])
        return node


def annotate_locals_tree(root):
    return _rewrite_tree(root, _AnnotateLocals)


def walrus_tree(root):
    return _rewrite_tree(root, _Walrus)


def percent_to_format_tree(root):
    return _rewrite_tree(root, _Percent2Format)


# ---------------------------------------------------------------------------------------------------------
# fourth batch
# ---------------------------------------------------------------------------------------------------------
class _MergeNestedIf(ast.NodeTransformer):
    """if a: if b: X   ->   if a and b: X     (neither has an else; the inner if is the whole body)"""
    count = 0

    def visit_If(self, node):
        self.generic_visit(node)
        if not node.orelse and len(node.body) == 1 and isinstance(node.body[0], ast.If) and not node.body[0].orelse:
            inner = node.body[0]
            self.count += 1
            vals = []
            for t in (node.test, inner.test):
                if isinstance(t, ast.BoolOp) and isinstance(t.op, ast.And):
                    vals.extend(t.values)
                else:
                    vals.append(t)
            return ast.If(test=ast.BoolOp(op=ast.And(), values=vals), body=inner.body, orelse=[])
        return node


class _IfExpToIf(ast.NodeTransformer):
    """x = A if c else B   ->   if c: x = A else: x = B"""
    count = 0

    def _block(self, stmts):
        out = []
        for st in stmts:
            if isinstance(st, ast.Assign) and isinstance(st.value, ast.IfExp) and len(st.targets) == 1 \
                    and isinstance(st.targets[0], (ast.Name, ast.Attribute)):
                self.count += 1
                import copy
                t2 = copy.deepcopy(st.targets[0])
                out.append(ast.If(test=st.value.test,
                                  body=[ast.Assign(targets=[st.targets[0]], value=st.value.body, lineno=st.lineno)],
                                  orelse=[ast.Assign(targets=[t2], value=st.value.orelse, lineno=st.lineno)]))
            else:
                out.append(st)
        return out

    def generic_visit(self, node):
        super().generic_visit(node)
        if isinstance(node, ast.ClassDef):
            return node
        for field in ('body', 'orelse', 'finalbody'):
            v = getattr(node, field, None)
            if isinstance(v, list) and v and isinstance(v[0], ast.stmt) and not isinstance(node, ast.Module):
                setattr(node, field, self._block(v))
        return node


def _pure(e):
    return all(isinstance(n, (ast.Name, ast.Constant, ast.Attribute, ast.Subscript, ast.BinOp, ast.UnaryOp, ast.Tuple, ast.Load,
                              ast.operator, ast.unaryop, ast.Slice, ast.Compare, ast.cmpop, ast.BoolOp, ast.boolop))
               for n in ast.walk(e))


def _names_in(e):
    return {n.id for n in ast.walk(e) if isinstance(n, ast.Name)}


class _SplitTupleAssign(ast.NodeTransformer):
    """a, b = x, y   ->   a = x; b = y     (plain names, right-hand sides do not mention the targets)"""
    count = 0

    def _block(self, stmts):
        out = []
        for st in stmts:
            if isinstance(st, ast.Assign) and len(st.targets) == 1 and isinstance(st.targets[0], ast.Tuple) \
                    and isinstance(st.value, ast.Tuple) and len(st.value.elts) == len(st.targets[0].elts) \
                    and all(isinstance(t, ast.Name) for t in st.targets[0].elts) \
                    and not any(isinstance(v, ast.Starred) for v in st.value.elts) \
                    and not ({t.id for t in st.targets[0].elts} & _names_in(st.value)):
                self.count += 1
                for t, v in zip(st.targets[0].elts, st.value.elts):
                    out.append(ast.Assign(targets=[t], value=v, lineno=st.lineno))
            else:
                out.append(st)
        return out

    def generic_visit(self, node):
        super().generic_visit(node)
        for field in ('body', 'orelse', 'finalbody'):
            v = getattr(node, field, None)
            if isinstance(v, list) and v and isinstance(v[0], ast.stmt) and not isinstance(node, (ast.Module, ast.ClassDef)):
                setattr(node, field, self._block(v))
        return node


class _SwapIndependent(ast.NodeTransformer):
    """a = E1; b = E2   ->   b = E2; a = E1    (plain names, side-effect-free right-hand sides, no dependence)"""
    count = 0

    def _block(self, stmts):
        out = list(stmts)
        i = 0
        while i + 1 < len(out):
            a, b = out[i], out[i + 1]
            if all(isinstance(s, ast.Assign) and len(s.targets) == 1 and isinstance(s.targets[0], ast.Name) and _pure(s.value)
                   for s in (a, b)):
                ta, tb = a.targets[0].id, b.targets[0].id
                if ta != tb and tb not in _names_in(a.value) and ta not in _names_in(b.value):
                    out[i], out[i + 1] = b, a
                    self.count += 1
                    i += 2
                    continue
            i += 1
        return out

    def generic_visit(self, node):
        super().generic_visit(node)
        for field in ('body', 'orelse', 'finalbody'):
            v = getattr(node, field, None)
            if isinstance(v, list) and v and isinstance(v[0], ast.stmt) and not isinstance(node, (ast.Module, ast.ClassDef)):
                setattr(node, field, self._block(v))
        return node


def merge_nested_if_tree(root):
    return _rewrite_tree(root, _MergeNestedIf)


def ifexp_to_if_tree(root):
    return _rewrite_tree(root, _IfExpToIf)


def split_tuple_assign_tree(root):
    return _rewrite_tree(root, _SplitTupleAssign)


def swap_independent_tree(root):
    return _rewrite_tree(root, _SwapIndependent)


def import_style_tree(root):
    """from pkg import mod [as x]  ->  import pkg.mod as mod|x     (only when pkg.mod is a module of the package)"""
    count = 0
    for dirpath, _, files in os.walk(os.path.join(root, 'parso')):
        for fn in files:
            if not fn.endswith('.py'):
                continue
            p = os.path.join(dirpath, fn)
            with open(p, encoding='utf-8') as f:
                src = f.read()
            tree = ast.parse(src)
            new_body = []
            for st in tree.body:
                if isinstance(st, ast.ImportFrom) and st.level == 0 and st.module and st.module.startswith('parso'):
                    keep = []
                    for al in st.names:
                        base = os.path.join(root, *(st.module.split('.') + [al.name]))
                        if os.path.exists(base + '.py') or os.path.isdir(base):
                            new_body.append(ast.Import(names=[ast.alias(name='%s.%s' % (st.module, al.name), asname=al.asname or al.name)]))
                            count += 1
                        else:
                            keep.append(al)
                    if keep:
                        st.names = keep
                        new_body.append(st)
                else:
                    new_body.append(st)
            tree.body = new_body
            ast.fix_missing_locations(tree)
            out = ast.unparse(tree) + '\n'
            compile(out, p, 'exec')
            with open(p, 'w', encoding='utf-8') as f:
                f.write(out)
    return count


class _Delegate(ast.NodeTransformer):
    """def f(a, b=1): BODY   ->   def f(a, b=1): return f_impl(a, b)  +  def f_impl(a, b=1): BODY
    (module-level functions and plain methods; decorators stay on the outer function)"""
    count = 0

    @staticmethod
    def _simple_args(a):
        return not a.vararg and not a.kwarg and not a.posonlyargs

    def _split(self, node, in_class, cls_name=''):
        if node.name.startswith('__') or node.decorator_list or not self._simple_args(node.args):
            return [node]
        if any(isinstance(n, ast.Call) and isinstance(n.func, ast.Name) and n.func.id == 'super' and not n.args for n in ast.walk(node)) \
                and not in_class:
            return [node]
        body = node.body
        doc = []
        if body and isinstance(body[0], ast.Expr) and isinstance(body[0].value, ast.Constant) and isinstance(body[0].value.value, str):
            doc, body = body[:1], body[1:]
        if len(body) < 2:
            return [node]
        import copy
        impl = ast.FunctionDef(name=('_%s_' % cls_name if in_class else '') + node.name + '_impl', args=copy.deepcopy(node.args), body=body, decorator_list=[],
                               returns=None, type_comment=None, lineno=node.lineno)
        if hasattr(node, 'type_params'):
            impl.type_params = []
        params = [x.arg for x in node.args.args]
        kwonly = [x.arg for x in node.args.kwonlyargs]
        if in_class:
            if not params:
                return [node]
            func = ast.Attribute(value=ast.Name(id=params[0], ctx=ast.Load()), attr=impl.name, ctx=ast.Load())
            args = [ast.Name(id=p, ctx=ast.Load()) for p in params[1:]]
        else:
            func = ast.Name(id=impl.name, ctx=ast.Load())
            args = [ast.Name(id=p, ctx=ast.Load()) for p in params]
        call = ast.Call(func=func, args=args, keywords=[ast.keyword(arg=k, value=ast.Name(id=k, ctx=ast.Load())) for k in kwonly])
        node.body = doc + [ast.Return(value=call)]
        self.count += 1
        return [node, impl]

    def _process(self, body, in_class, cls_name=''):
        out = []
        for st in body:
            if isinstance(st, ast.FunctionDef):
                out.extend(self._split(st, in_class, cls_name))
            elif isinstance(st, ast.ClassDef):
                st.body = self._process(st.body, True, st.name)
                out.append(st)
            else:
                out.append(st)
        return out

    def visit_Module(self, node):
        node.body = self._process(node.body, False)
        return node


def delegate_tree(root):
    return _rewrite_tree(root, _Delegate)
