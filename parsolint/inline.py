"""Inlined views of functions: the inverse of "extract function".

``inline_view(fn_node, lookup)`` returns a deep copy of a function in which statement-level calls of private helpers

    return _h(a, b)          x = _h(a, b)          x, y = self._h(a)          _h(a)          yield from _h(a)

are replaced by the helper's body (parameters bound, locals renamed where they collide, ``return E`` turned into the
assignment / kept as return).  It is a *view* for rules that reason about the paths of one function and must not care
whether a maintainer has moved a part of it into a helper; the program model itself is not changed, the helper stays a
function of its own for every other rule.  A call is left alone whenever the replacement would not be exact:
star-arguments, a ``return`` inside a loop / try / with of the helper (for the non-tail forms), recursion, generators
called other than by ``yield from``, nested functions capturing helper locals via nonlocal.
"""
import ast
import copy


class _Unsupported(Exception):
    pass


def _copy(node):
    """deep copy of an AST (the model's ``_parent`` links are not followed - they would drag the whole module along)"""
    if isinstance(node, list):
        return [_copy(x) for x in node]
    if not isinstance(node, ast.AST):
        return node
    new = node.__class__()
    for field in node._fields:
        if hasattr(node, field):
            setattr(new, field, _copy(getattr(node, field)))
    for attr in ('lineno', 'col_offset', 'end_lineno', 'end_col_offset'):
        if hasattr(node, attr):
            setattr(new, attr, getattr(node, attr))
    return new


def _shallow(node):
    new = node.__class__()
    for field in node._fields:
        if hasattr(node, field):
            setattr(new, field, getattr(node, field))
    for attr in ('lineno', 'col_offset', 'end_lineno', 'end_col_offset'):
        if hasattr(node, attr):
            setattr(new, attr, getattr(node, attr))
    return new


def _has_return(node_or_list):
    nodes = node_or_list if isinstance(node_or_list, list) else [node_or_list]
    for n in nodes:
        for sub in _walk_own(n):
            if isinstance(sub, ast.Return):
                return True
    return False


def _walk_own(node):
    """walk without descending into nested function / class definitions / lambdas"""
    stack = [node]
    first = True
    while stack:
        n = stack.pop()
        yield n
        if not first and isinstance(n, (ast.FunctionDef, ast.AsyncFunctionDef, ast.ClassDef, ast.Lambda)):
            continue
        first = False
        stack.extend(ast.iter_child_nodes(n))


def _terminates(block):
    if not block:
        return False
    last = block[-1]
    if isinstance(last, (ast.Return, ast.Raise, ast.Continue, ast.Break)):
        return True
    if isinstance(last, ast.If):
        return _terminates(last.body) and _terminates(last.orelse)
    return False


def _is_generator(fn):
    return any(isinstance(n, (ast.Yield, ast.YieldFrom)) for n in _walk_own(fn))


def _convert(stmts, assign, fall_off):
    """Rewrite a helper body whose returns are in tail positions so that ``return E`` becomes ``assign(E)`` and control
    simply reaches the end."""
    out = []
    for i, st in enumerate(stmts):
        if isinstance(st, ast.Return):
            out += assign(st.value)
            return out
        if isinstance(st, ast.If) and (_has_return(st.body) or _has_return(st.orelse)):
            rest = stmts[i + 1:]
            b = _convert(st.body + ([] if _terminates(st.body) else _copy(rest)), assign, fall_off)
            o = _convert(st.orelse + ([] if _terminates(st.orelse) else _copy(rest)), assign, fall_off)
            out.append(ast.copy_location(ast.If(test=st.test, body=b or [ast.Pass()], orelse=o), st))
            return out
        if isinstance(st, (ast.For, ast.While)) and _has_return(st.body) and not st.orelse and not _loop_has_break(st):
            # `for ..: if c: return E` + rest   ==   `for ..: if c: x = E; break` + `else: rest`
            body = _returns_to_breaks(st.body, assign)
            rest = _convert(stmts[i + 1:], assign, fall_off)
            new = _shallow(st)
            new.body, new.orelse = body, rest or [ast.Pass()]
            out.append(new)
            return out
        if _has_return(st):
            raise _Unsupported('return inside a try / with / nested loop')
        out.append(st)
    out += fall_off()
    return out


def _loop_has_break(loop):
    def walk(stmts):
        for st in stmts:
            if isinstance(st, ast.Break):
                return True
            if isinstance(st, (ast.For, ast.While, ast.FunctionDef, ast.AsyncFunctionDef, ast.ClassDef)):
                continue
            for field in ('body', 'orelse', 'finalbody'):
                if walk(getattr(st, field, None) or []):
                    return True
            for h in getattr(st, 'handlers', []) or []:
                if walk(h.body):
                    return True
        return False
    return walk(loop.body)


def _returns_to_breaks(stmts, assign):
    """loop body: `return E` -> assign(E); break   (only through if / else nesting)"""
    out = []
    for st in stmts:
        if isinstance(st, ast.Return):
            out += assign(st.value) + [ast.copy_location(ast.Break(), st)]
            return out
        if isinstance(st, ast.If) and (_has_return(st.body) or _has_return(st.orelse)):
            new = _shallow(st)
            new.body = _returns_to_breaks(st.body, assign)
            new.orelse = _returns_to_breaks(st.orelse, assign)
            out.append(new)
            continue
        if _has_return(st):
            raise _Unsupported('return nested in a loop / try / with inside a loop')
        out.append(st)
    return out


def _simple_arg(e):
    while isinstance(e, ast.Attribute):
        e = e.value
    return isinstance(e, (ast.Name, ast.Constant))


def _bind(fn, call, is_method):
    """[(param, arg expr)] or raise _Unsupported"""
    a = fn.args
    if a.vararg or a.kwarg:
        raise _Unsupported('star parameters')
    if any(isinstance(x, ast.Starred) for x in call.args) or any(k.arg is None for k in call.keywords):
        raise _Unsupported('star arguments')
    params = [p.arg for p in a.posonlyargs + a.args]
    defaults = dict(zip(params[len(params) - len(a.defaults):], a.defaults))
    for p, d in zip(a.kwonlyargs, a.kw_defaults):
        params.append(p.arg)
        if d is not None:
            defaults[p.arg] = d
    bound = {}
    pos = list(call.args)
    names = list(params)
    if is_method:
        bound[names[0]] = call.func.value
        names = names[1:]
    if len(pos) > len(names):
        raise _Unsupported('too many arguments')
    for n, v in zip(names, pos):
        bound[n] = v
    for k in call.keywords:
        if k.arg in bound or k.arg not in params:
            raise _Unsupported('keyword mismatch')
        bound[k.arg] = k.value
    for n in params:
        if n not in bound:
            if n not in defaults:
                raise _Unsupported('missing argument')
            bound[n] = defaults[n]
    return [(n, bound[n]) for n in params]


class _Rename(ast.NodeTransformer):
    def __init__(self, names, exprs):
        self.names = names          # local -> new local name
        self.exprs = exprs          # param -> expression substituted for loads

    def visit_Name(self, n):
        if n.id in self.exprs and isinstance(n.ctx, ast.Load):
            return ast.copy_location(_copy(self.exprs[n.id]), n)
        if n.id in self.names:
            return ast.copy_location(ast.Name(id=self.names[n.id], ctx=n.ctx), n)
        return n

    def visit_arg(self, n):
        return n


def _expand(fn, call, is_method, caller_names, assign, fall_off, tail):
    """statements replacing the call"""
    body = list(fn.body)
    if body and isinstance(body[0], ast.Expr) and isinstance(body[0].value, ast.Constant) and isinstance(body[0].value.value, str):
        body = body[1:]
    for n in _walk_own(fn):
        if isinstance(n, (ast.Global, ast.Nonlocal)):
            raise _Unsupported('global / nonlocal')
    for n in ast.walk(fn):
        if isinstance(n, ast.Nonlocal):
            raise _Unsupported('nested function with nonlocal')
    stored = {n.id for n in _walk_own(fn) if isinstance(n, ast.Name) and isinstance(n.ctx, (ast.Store, ast.Del))}
    for n in _walk_own(fn):
        if isinstance(n, (ast.FunctionDef, ast.AsyncFunctionDef, ast.ClassDef)) and n is not fn:
            stored.add(n.name)
        if isinstance(n, ast.ExceptHandler) and n.name:
            stored.add(n.name)
    pairs = _bind(fn, call, is_method)
    exprs, pre, names = {}, [], {}
    for p, arg in pairs:
        if p not in stored and _simple_arg(arg):
            exprs[p] = arg
        else:
            new = p if p not in caller_names else '%s_%s' % (p, fn.name.strip('_'))
            names[p] = new
            pre.append(ast.copy_location(ast.Assign(targets=[ast.Name(id=new, ctx=ast.Store())], value=_copy(arg)), call))
    for loc in stored:
        if loc not in names and loc not in exprs and loc in caller_names:
            names[loc] = '%s_%s' % (loc, fn.name.strip('_'))
    # a substituted expression must not be changed by the helper before it is read: only plain names / attribute chains of
    # names that the helper does not assign are substituted
    for p, arg in list(exprs.items()):
        roots = {x.id for x in ast.walk(arg) if isinstance(x, ast.Name)}
        if roots & stored:
            new = p if p not in caller_names else '%s_%s' % (p, fn.name.strip('_'))
            names[p] = new
            del exprs[p]
            pre.append(ast.copy_location(ast.Assign(targets=[ast.Name(id=new, ctx=ast.Store())], value=_copy(arg)), call))
    body = [_Rename(names, exprs).visit(_copy(st)) for st in body]
    if tail:
        return pre + body
    return pre + _convert(body, assign, fall_off)


def inline_view(fn_node, lookup, depth=3):
    """-> (new FunctionDef, names of the helpers that were inlined)"""
    new = _copy(fn_node)
    inlined = []
    for _ in range(depth):
        changed = _one_round(new, lookup, inlined, {fn_node.name})
        if not changed:
            break
    if inlined:
        for _ in range(3):
            if not _simplify(new):
                break
    ast.fix_missing_locations(new)
    for parent in ast.walk(new):
        for child in ast.iter_child_nodes(parent):
            child._parent = parent
    new._parent = getattr(fn_node, '_parent', None)
    return new, inlined


def _callee(call, lookup, owner):
    if not isinstance(call, ast.Call):
        return None, False
    f = call.func
    if isinstance(f, ast.Name):
        return lookup(f.id, False), False
    if isinstance(f, ast.Attribute) and isinstance(f.value, ast.Name) and f.value.id in ('self', 'cls'):
        return lookup(f.attr, True), True
    return None, False


def _one_round(fn, lookup, inlined, stack):
    changed = False
    caller_names = {n.id for n in ast.walk(fn) if isinstance(n, ast.Name)} | {a.arg for a in ast.walk(fn) if isinstance(a, ast.arg)}
    caller_is_gen = _is_generator(fn)

    def do_block(block):
        nonlocal changed
        out = []
        for st in block:
            rep = None
            try:
                rep = try_stmt(st)
            except _Unsupported:
                rep = None
            if rep is None:
                for field in ('body', 'orelse', 'finalbody'):
                    sub = getattr(st, field, None)
                    if isinstance(sub, list) and sub and isinstance(sub[0], ast.stmt) \
                            and not isinstance(st, (ast.FunctionDef, ast.AsyncFunctionDef, ast.ClassDef)):
                        setattr(st, field, do_block(sub))
                for h in getattr(st, 'handlers', []) or []:
                    h.body = do_block(h.body)
                for c in getattr(st, 'cases', []) or []:
                    c.body = do_block(c.body)
                out.append(st)
            else:
                changed = True
                out += rep or [ast.copy_location(ast.Pass(), st)]
        return out

    def try_stmt(st):
        call = target_kind = None
        if isinstance(st, ast.Return) and isinstance(st.value, ast.Call):
            call, target_kind = st.value, 'return'
        elif isinstance(st, ast.Assign) and isinstance(st.value, ast.Call):
            call, target_kind = st.value, 'assign'
        elif isinstance(st, ast.AnnAssign) and isinstance(st.value, ast.Call) and isinstance(st.target, ast.Name):
            call, target_kind = st.value, 'annassign'
        elif isinstance(st, ast.Expr) and isinstance(st.value, ast.Call):
            call, target_kind = st.value, 'expr'
        elif isinstance(st, ast.Expr) and isinstance(st.value, ast.YieldFrom) and isinstance(st.value.value, ast.Call):
            call, target_kind = st.value.value, 'yieldfrom'
        if call is None:
            return None
        helper, is_method = _callee(call, lookup, fn)
        if helper is None or helper.name in stack or helper is fn:
            return None
        if isinstance(helper, ast.AsyncFunctionDef):
            return None
        if helper.decorator_list:
            if len(helper.decorator_list) == 1 and isinstance(helper.decorator_list[0], ast.Name) \
                    and helper.decorator_list[0].id == 'staticmethod' and is_method:
                is_method = False            # called through self, but no instance is bound
            else:
                return None
        gen = _is_generator(helper)
        if gen != (target_kind == 'yieldfrom'):
            return None
        if any(isinstance(n, ast.Call) and isinstance(n.func, (ast.Name, ast.Attribute))
               and (getattr(n.func, 'id', None) == helper.name or getattr(n.func, 'attr', None) == helper.name)
               for n in ast.walk(helper)):
            return None                      # recursive helper
        if target_kind == 'return':
            if caller_is_gen:
                return None
            rep = _expand(helper, call, is_method, caller_names, None, None, tail=True)
            if not _terminates(rep):
                rep.append(ast.copy_location(ast.Return(value=None), st))
        elif target_kind == 'yieldfrom':
            if any(isinstance(n, ast.Return) and n.value is not None for n in _walk_own(helper)):
                return None
            rep = _expand(helper, call, is_method, caller_names, lambda e: [], lambda: [], tail=False)
        else:
            if target_kind == 'assign':
                def assign(e, st=st):
                    return [ast.copy_location(ast.Assign(targets=_copy(st.targets),
                                                         value=e if e is not None else ast.Constant(value=None)), st)]
            elif target_kind == 'annassign':
                def assign(e, st=st):
                    return [ast.copy_location(ast.Assign(targets=[_copy(st.target)],
                                                         value=e if e is not None else ast.Constant(value=None)), st)]
            else:
                def assign(e, st=st):
                    if e is None or not any(isinstance(n, (ast.Call, ast.Yield, ast.YieldFrom, ast.Await)) for n in ast.walk(e)):
                        return []
                    return [ast.copy_location(ast.Expr(value=e), st)]
            rep = _expand(helper, call, is_method, caller_names, assign, lambda: assign(None), tail=False)
        for s in rep:
            ast.copy_location(s, st) if not hasattr(s, 'lineno') else None
        inlined.append(helper.name)
        return rep

    fn.body = do_block(fn.body)
    return changed


# ---------------------------------------------------------------------------------------------------------------------
# after inlining: constants that came in as arguments are folded (`step < 0` with step = 1, `-1 if backwards else 0`)
def _const(e):
    return isinstance(e, ast.Constant) and not isinstance(e.value, (str, bytes)) or (
        isinstance(e, ast.UnaryOp) and isinstance(e.op, ast.USub) and isinstance(e.operand, ast.Constant)
        and isinstance(e.operand.value, (int, float)))


def _value(e):
    return -e.operand.value if isinstance(e, ast.UnaryOp) else e.value


def _mk(v, like):
    if isinstance(v, (int, float)) and not isinstance(v, bool) and v < 0:
        return ast.copy_location(ast.UnaryOp(op=ast.USub(), operand=ast.Constant(value=-v)), like)
    return ast.copy_location(ast.Constant(value=v), like)


class _Fold(ast.NodeTransformer):
    def __init__(self, consts):
        self.consts = consts
        self.changed = False

    def visit_FunctionDef(self, node):
        if getattr(self, '_top', None) is None:
            self._top = node
            self.generic_visit(node)
        return node

    def visit_Lambda(self, node):
        return node

    def visit_Name(self, n):
        if isinstance(n.ctx, ast.Load) and n.id in self.consts:
            self.changed = True
            return ast.copy_location(_copy(self.consts[n.id]), n)
        return n

    def visit_Compare(self, n):
        self.generic_visit(n)
        if len(n.ops) == 1 and _const(n.left) and _const(n.comparators[0]):
            a, b, op = _value(n.left), _value(n.comparators[0]), n.ops[0]
            try:
                r = {ast.Lt: a < b, ast.LtE: a <= b, ast.Gt: a > b, ast.GtE: a >= b, ast.Eq: a == b, ast.NotEq: a != b}.get(type(op))
            except TypeError:
                r = None
            if r is not None:
                self.changed = True
                return _mk(r, n)
        return n

    def visit_UnaryOp(self, n):
        self.generic_visit(n)
        if isinstance(n.op, ast.Not) and _const(n.operand):
            self.changed = True
            return _mk(not _value(n.operand), n)
        return n

    def visit_IfExp(self, n):
        self.generic_visit(n)
        if _const(n.test):
            self.changed = True
            return n.body if _value(n.test) else n.orelse
        return n

    def visit_BinOp(self, n):
        self.generic_visit(n)
        if isinstance(n.op, (ast.Add, ast.Sub)) and _const(n.right) and isinstance(_value(n.right), int) \
                and not isinstance(_value(n.right), bool) and _value(n.right) < 0:
            # x + -1  ->  x - 1
            self.changed = True
            flipped = ast.Sub() if isinstance(n.op, ast.Add) else ast.Add()
            return ast.copy_location(ast.BinOp(left=n.left, op=flipped, right=ast.Constant(value=-_value(n.right))), n)
        if isinstance(n.op, (ast.Add, ast.Sub)) and _const(n.left) and _const(n.right) \
                and all(isinstance(_value(x), int) and not isinstance(_value(x), bool) for x in (n.left, n.right)):
            self.changed = True
            v = _value(n.left) + _value(n.right) if isinstance(n.op, ast.Add) else _value(n.left) - _value(n.right)
            return _mk(v, n)
        return n


def _simplify(fn):
    stores = {}
    for n in _walk_own(fn):
        if isinstance(n, ast.Name) and isinstance(n.ctx, (ast.Store, ast.Del)):
            stores[n.id] = stores.get(n.id, 0) + 1
    params = {a.arg for a in ast.walk(fn.args) if isinstance(a, ast.arg)}
    consts = {}
    for n in _walk_own(fn):
        if isinstance(n, ast.Assign) and len(n.targets) == 1 and isinstance(n.targets[0], ast.Name) and _const(n.value):
            nm = n.targets[0].id
            if stores.get(nm) == 1 and nm not in params:
                consts[nm] = n.value
    f = _Fold(consts)
    f.visit(fn)
    changed = f.changed

    def prune(block):
        nonlocal changed
        out = []
        for st in block:
            if isinstance(st, ast.If) and _const(st.test):
                changed = True
                out += prune(st.body if _value(st.test) else st.orelse)
                continue
            for field in ('body', 'orelse', 'finalbody'):
                sub = getattr(st, field, None)
                if isinstance(sub, list) and sub and isinstance(sub[0], ast.stmt) \
                        and not isinstance(st, (ast.FunctionDef, ast.AsyncFunctionDef, ast.ClassDef)):
                    new = prune(sub)
                    setattr(st, field, new if new or field != 'body' else [ast.Pass()])
            for h in getattr(st, 'handlers', []) or []:
                h.body = prune(h.body) or [ast.Pass()]
            out.append(st)
        return out
    fn.body = prune(fn.body) or [ast.Pass()]
    return changed
