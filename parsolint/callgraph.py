"""E0 - call resolution and call graph over the program model."""
import ast

from .model import Cls, Func, Mod, walk_own, norm

# methods of builtin containers / str / re / file objects: an untyped receiver calling one
# of these is assumed to be a builtin object (policy (5) of DESIGN.md section 1)
BUILTIN_METHODS = set('''
append extend insert pop remove clear update setdefault add discard sort reverse index count copy
get items keys values join split rsplit splitlines strip lstrip rstrip startswith endswith lower upper
replace format encode decode find rfind isidentifier isalpha isdigit isspace match search group groups
span start end sub findall finditer fullmatch read write close readline readlines seek
joinpath exists is_dir expanduser stat mro title capitalize partition rpartition
__init__ __new__ __eq__ __hash__ __repr__ __gt__ __lt__ __ne__ _replace
hexdigest digest warn debug warning info error exception is_file mkdir
'''.split())


class CallSite:
    __slots__ = ('caller', 'node', 'targets', 'how')

    def __init__(self, caller, node, targets, how):
        self.caller, self.node, self.targets, self.how = caller, node, targets, how


class CallGraph:
    def __init__(self, prog):
        self.prog = prog
        self.sites = {}          # Func.key -> [CallSite]
        self.edges = {}          # Func.key -> set(Func.key)
        self.stats = {'resolved': 0, 'assumed_builtin': 0, 'unresolved': 0, 'external': 0}
        self.unresolved = []
        self._attr_types = {}
        self._attr_callables = {}
        self._ctor_sites = None
        for f in prog.funcs.values():
            self._scan(f)

    # ------------------------------------------------------------------
    def owner_class(self, f):
        """The class whose method ``f`` is, also for functions nested inside a method."""
        g = f
        while g is not None:
            if g.cls is not None:
                return g.cls
            g = g.outer
        return None

    def self_name(self, f):
        g = f
        while g is not None:
            if g.cls is not None:
                if any(d in ('staticmethod',) for d in g.decorators()):
                    return None
                ps = g.params()
                return ps[0] if ps else None
            g = g.outer
        return None

    # ------------------------------------------------------------------
    def _scan(self, f):
        sites = []
        for n in walk_own(f.node):
            if isinstance(n, ast.Call):
                targets, how = self.resolve_call(f, n)
                sites.append(CallSite(f, n, targets, how))
                self.stats[how if how in self.stats else 'resolved'] += 1
                if how == 'unresolved':
                    self.unresolved.append((f.key, norm(n.func)))
        self.sites[f.key] = sites
        self.edges[f.key] = {t.key for s in sites for t in s.targets}

    def _local_assignments(self, f, name):
        out = []
        for n in walk_own(f.node):
            if isinstance(n, ast.Assign):
                for t in n.targets:
                    if isinstance(t, ast.Name) and t.id == name:
                        out.append(n.value)
            elif isinstance(n, ast.AnnAssign) and isinstance(n.target, ast.Name) \
                    and n.target.id == name and n.value is not None:
                out.append(n.value)
            elif isinstance(n, ast.withitem) and isinstance(n.optional_vars, ast.Name) \
                    and n.optional_vars.id == name:
                out.append(n.context_expr)
        return out

    def lookup_name(self, f, name):
        """Resolve a plain name used inside ``f`` -> Func | Cls | Mod | None, and whether it is a local."""
        g = f
        while g is not None:
            if name in g.nested:
                return g.nested[name]
            g = g.outer
        return self.prog.resolve_global(f.mod, name)

    def type_of(self, f, expr, depth=0):
        """Set of Cls the expression may evaluate to an *instance* of (empty = unknown)."""
        if depth > 9:
            return set()
        cls = self.owner_class(f)
        selfname = self.self_name(f)
        if isinstance(expr, ast.Name):
            if cls is not None and expr.id == selfname:
                return {cls}
            out = set()
            for v in self._local_assignments(f, expr.id):
                out |= self.type_of(f, v, depth + 1)
            return out
        if isinstance(expr, ast.Call):
            r = self.callee_object(f, expr.func)
            if isinstance(r, Cls):
                return {r}
            if isinstance(r, Func):
                return self.return_types(r, depth + 1)
            targets, how = self.resolve_call(f, expr, depth + 1)
            out = set()
            for t in targets:
                if t.name == '__init__' and t.cls is not None:
                    out.add(t.cls)
                    # a constructor reached through a class-valued attribute may build a subclass
                    for v in self._last_ctor_classes:
                        if t.cls in v.mro:
                            out.add(v)
                elif depth < 6:
                    out |= self.return_types(t, depth + 1)
            return out
        if isinstance(expr, ast.Attribute):
            base = self.type_of(f, expr.value, depth + 1)
            out = set()
            for c in base:
                out |= self.attr_types(c, expr.attr)
            return out
        return set()

    def return_types(self, fn, depth=0):
        out = set()
        if depth > 9:
            return out
        for n in walk_own(fn.node):
            if isinstance(n, ast.Return) and n.value is not None:
                out |= self.type_of(fn, n.value, depth + 1)
        return out

    def attr_types(self, cls, attr):
        key = (cls.key, attr)
        if key in self._attr_types:
            return self._attr_types[key]
        self._attr_types[key] = set()
        out = set()
        for c in cls.mro:
            if not isinstance(c, Cls):
                continue
            for m in c.methods.values():
                sn = self.self_name(m)
                for n in walk_own(m.node):
                    if isinstance(n, (ast.Assign, ast.AnnAssign)):
                        tg = n.targets if isinstance(n, ast.Assign) else [n.target]
                        for t in tg:
                            if isinstance(t, ast.Attribute) and t.attr == attr \
                                    and isinstance(t.value, ast.Name) and t.value.id == sn \
                                    and n.value is not None:
                                out |= self.type_of(m, n.value, 1)
            if attr in c.attrs:
                v = c.attrs[attr]
                if isinstance(v, ast.Call):
                    r = self.prog.resolve_name_expr(c.mod, v.func)
                    if isinstance(r, Cls):
                        out.add(r)
        self._attr_types[key] = out
        return out

    # ------------------------------------------------------------------
    def callee_object(self, f, func_expr):
        """Resolve the *callee expression* to Func / Cls (constructor) / None."""
        if isinstance(func_expr, ast.Name):
            r = self.lookup_name(f, func_expr.id)
            if isinstance(r, (Func, Cls)):
                return r
            return None
        if isinstance(func_expr, ast.Attribute):
            base = func_expr.value
            r = None
            if isinstance(base, (ast.Name, ast.Attribute)):
                r = self.prog.resolve_name_expr(f.mod, base) if not (
                    isinstance(base, ast.Name) and self._is_local(f, base.id)) else None
            if isinstance(r, Mod):
                x = self.prog.resolve_global(r, func_expr.attr)
                return x if isinstance(x, (Func, Cls)) else None
            if isinstance(r, Cls):
                m = r.lookup(func_expr.attr)
                return m
        return None

    def _is_local(self, f, name):
        g = f
        while g is not None:
            a = g.node.args
            if name in {x.arg for x in a.posonlyargs + a.args + a.kwonlyargs} \
                    or (a.vararg and a.vararg.arg == name) or (a.kwarg and a.kwarg.arg == name):
                return True
            for n in walk_own(g.node):
                if isinstance(n, ast.Name) and isinstance(n.ctx, ast.Store) and n.id == name:
                    return True
            g = g.outer
        return False

    def _methods_in_hierarchy(self, cls, name):
        """MRO lookup from ``cls`` plus every override in a subclass of ``cls``."""
        out = []
        m = cls.lookup(name)
        if m is not None:
            out.append(m)
        for sub in self.prog.subclasses(cls):
            if sub is not cls and name in sub.methods and sub.methods[name] not in out:
                out.append(sub.methods[name])
        return out

    def _ctor(self, cls):
        init = cls.lookup('__init__')
        return [init] if init is not None else []

    def _class_valued_attr(self, cls, attr):
        """Classes/functions stored in ``attr`` of instances of ``cls`` (or subclasses)."""
        key = (cls.key, attr)
        if key in self._attr_callables:
            return self._attr_callables[key]
        self._attr_callables[key] = []
        out = []
        classes = [c for c in cls.mro if isinstance(c, Cls)] + \
                  [c for c in self.prog.subclasses(cls) if c is not cls]
        for c in classes:
            if attr in c.attrs:
                r = self.prog.resolve_name_expr(c.mod, c.attrs[attr])
                if isinstance(r, (Cls, Func)) and r not in out:
                    out.append(r)
            for m in c.methods.values():
                sn = self.self_name(m)
                for n in walk_own(m.node):
                    if not isinstance(n, ast.Assign):
                        continue
                    for t in n.targets:
                        if isinstance(t, ast.Attribute) and t.attr == attr \
                                and isinstance(t.value, ast.Name) and t.value.id == sn:
                            for r in self._values_of(m, n.value):
                                if r not in out:
                                    out.append(r)
        self._attr_callables[key] = out
        return out

    def _values_of(self, m, expr):
        """Callables an expression inside method ``m`` may denote (through parameters)."""
        out = []
        if isinstance(expr, ast.Attribute) and isinstance(expr.value, ast.Name) \
                and expr.value.id == self.self_name(m):
            cls = self.owner_class(m)
            out += self._methods_in_hierarchy(cls, expr.attr)
            return out
        r = None
        if isinstance(expr, (ast.Name, ast.Attribute)):
            if isinstance(expr, ast.Name) and expr.id in self._param_names(m):
                return self._param_values(m, expr.id)
            r = self.callee_object(m, expr)
        if isinstance(r, (Cls, Func)):
            out.append(r)
        return out

    def _param_names(self, m):
        a = m.node.args
        return [x.arg for x in a.posonlyargs + a.args + a.kwonlyargs]

    def _param_values(self, m, pname):
        """Values that flow into parameter ``pname`` of method ``m``: its default and the
        arguments at the call sites that resolve to ``m`` (constructor calls and super() chains)."""
        out = []
        a = m.node.args
        pos = [x.arg for x in a.posonlyargs + a.args]
        defaults = dict(zip(reversed(pos), reversed(a.defaults)))
        for k, d in zip(a.kwonlyargs, a.kw_defaults):
            if d is not None:
                defaults[k.arg] = d
        if pname in defaults:
            r = self.prog.resolve_name_expr(m.mod, defaults[pname])
            if isinstance(r, (Cls, Func)):
                out.append(r)
        if self._ctor_sites is None:
            self._ctor_sites = []
            for g in self.prog.funcs.values():
                for n in walk_own(g.node):
                    if isinstance(n, ast.Call):
                        self._ctor_sites.append((g, n))
        for g, call in self._ctor_sites:
            tgt = None
            fe = call.func
            if isinstance(fe, ast.Attribute) and fe.attr == m.name and isinstance(fe.value, ast.Call) \
                    and isinstance(fe.value.func, ast.Name) and fe.value.func.id == 'super':
                gc = self.owner_class(g)
                if gc is not None and m.cls is not None and m.cls in gc.mro and gc is not m.cls:
                    tgt = m
                    offset = 0
            elif m.name == '__init__':
                r = self.callee_object(g, fe)
                if isinstance(r, Cls) and r.lookup('__init__') is m:
                    tgt = m
                    offset = 0
            if tgt is None:
                continue
            params = pos[1:] if pos and pos[0] == self.self_name(m) else pos
            arg = None
            if pname in params and params.index(pname) < len(call.args):
                arg = call.args[params.index(pname)]
            for kw in call.keywords:
                if kw.arg == pname:
                    arg = kw.value
            if arg is not None:
                for r in self._values_of(g, arg):
                    if r not in out:
                        out.append(r)
        return out

    # ------------------------------------------------------------------
    _last_ctor_classes = ()

    def _dict_attr_values(self, cls, attr):
        """Class objects stored as values of a class-level dict literal ``attr`` in the hierarchy."""
        out = []
        classes = [c for c in cls.mro if isinstance(c, Cls)] + \
                  [c for c in self.prog.subclasses(cls) if c is not cls]
        for c in classes:
            v = c.attrs.get(attr)
            if isinstance(v, ast.Dict):
                for val in v.values:
                    r = self.prog.resolve_name_expr(c.mod, val)
                    if isinstance(r, (Cls, Func)) and r not in out:
                        out.append(r)
        return out

    def _expand(self, vals):
        targets = []
        classes = []
        for v in vals:
            if isinstance(v, Cls):
                classes.append(v)
                for t in self._ctor(v):
                    if t not in targets:
                        targets.append(t)
            elif v not in targets:
                targets.append(v)
        self._last_ctor_classes = tuple(classes)
        return targets

    def resolve_call(self, f, call, depth=0):
        fe = call.func
        self._last_ctor_classes = ()
        cls0 = self.owner_class(f)
        sn0 = self.self_name(f)
        # self.TABLE[key](...)  /  self.TABLE.get(key, default)(...)
        if cls0 is not None:
            tab = None
            extra = []
            if isinstance(fe, ast.Subscript):
                tab = fe.value
            elif isinstance(fe, ast.Call) and isinstance(fe.func, ast.Attribute) and fe.func.attr == 'get':
                tab = fe.func.value
                extra = fe.args[1:2]
            if isinstance(tab, ast.Attribute) and isinstance(tab.value, ast.Name) and tab.value.id == sn0:
                vals = self._dict_attr_values(cls0, tab.attr)
                for e in extra:
                    r = self.prog.resolve_name_expr(f.mod, e)
                    if isinstance(r, (Cls, Func)):
                        vals.append(r)
                if vals:
                    return self._expand(vals), 'resolved'
        cls = self.owner_class(f)
        selfname = self.self_name(f)
        # super().m(...) / super(C, self).m(...)
        if isinstance(fe, ast.Attribute) and isinstance(fe.value, ast.Call) \
                and isinstance(fe.value.func, ast.Name) and fe.value.func.id == 'super' and cls is not None:
            start = cls
            if fe.value.args:
                r = self.prog.resolve_name_expr(f.mod, fe.value.args[0])
                if isinstance(r, Cls):
                    start = r
            targets = []
            # the instance may be of any subclass of cls: follow each such MRO after ``start``
            for inst in [cls] + [c for c in self.prog.subclasses(cls) if c is not cls]:
                mro = inst.mro
                if start not in mro:
                    continue
                for c in mro[mro.index(start) + 1:]:
                    if isinstance(c, Cls) and fe.attr in c.methods:
                        if c.methods[fe.attr] not in targets:
                            targets.append(c.methods[fe.attr])
                        break
            return targets, ('resolved' if targets else 'external')
        if isinstance(fe, ast.Name):
            r = self.lookup_name(f, fe.id)
            if isinstance(r, Func):
                return [r], 'resolved'
            if isinstance(r, Cls):
                return self._ctor(r), 'resolved'
            if self._is_local(f, fe.id):
                # a callable held in a local / parameter
                vals = []
                if fe.id in self._param_names(f):
                    vals = self._param_values(f, fe.id)
                for v in self._local_assignments(f, fe.id):
                    vals += self._values_of(f, v)
                targets = []
                for v in vals:
                    targets += self._ctor(v) if isinstance(v, Cls) else [v]
                if targets:
                    return targets, 'resolved'
                return [], 'unresolved'
            return [], 'external'
        if isinstance(fe, ast.Attribute):
            name = fe.attr
            base = fe.value
            # self.m(...)
            if isinstance(base, ast.Name) and cls is not None and base.id == selfname:
                ms = self._methods_in_hierarchy(cls, name)
                if ms:
                    return ms, 'resolved'
                vals = self._class_valued_attr(cls, name)
                targets = self._expand(vals)
                if targets:
                    return targets, 'resolved'
                return [], 'unresolved'
            r = self.callee_object(f, fe)
            if isinstance(r, Func):
                return [r], 'resolved'
            if isinstance(r, Cls):
                return self._ctor(r), 'resolved'
            # module attribute of an external module (re.compile, os.path.join ...)
            root = base
            while isinstance(root, ast.Attribute):
                root = root.value
            if isinstance(root, ast.Name) and not self._is_local(f, root.id) \
                    and root.id in f.mod.imports and f.mod.imports[root.id][0] == 'mod' \
                    and self.prog.by_name.get(f.mod.imports[root.id][1]) is None:
                return [], 'external'
            if isinstance(root, ast.Name) and not self._is_local(f, root.id) \
                    and root.id in f.mod.imports and f.mod.imports[root.id][0] == 'obj' \
                    and self.prog.resolve_global(f.mod, root.id) is None:
                return [], 'external'
            # typed receiver
            ts = self.type_of(f, base, depth + 1) if depth < 8 else set()
            if ts:
                targets = []
                for c in ts:
                    for m in self._methods_in_hierarchy(c, name):
                        if m not in targets:
                            targets.append(m)
                    if not self._methods_in_hierarchy(c, name):
                        for v in self._class_valued_attr(c, name):
                            targets += self._ctor(v) if isinstance(v, Cls) else [v]
                if targets:
                    return targets, 'resolved'
            # untyped receiver
            if name in BUILTIN_METHODS:
                return [], 'assumed_builtin'
            cands = self.prog.methods_by_name.get(name, [])
            if cands:
                return list(cands), 'resolved'
            return [], 'unresolved'
        return [], 'unresolved'

    # ------------------------------------------------------------------
    def reachable(self, roots):
        seen = set()
        todo = [r.key if isinstance(r, Func) else r for r in roots]
        while todo:
            k = todo.pop()
            if k in seen:
                continue
            seen.add(k)
            todo.extend(self.edges.get(k, ()))
            # nested functions defined inside a reachable function are reachable when called;
            # calls are edges already.  Generators / closures returned are reached via the call edge.
        return seen

    def path(self, roots, target):
        """Shortest call path from any root to target (list of keys) or None."""
        from collections import deque
        roots = [r.key if isinstance(r, Func) else r for r in roots]
        prev = {r: None for r in roots}
        q = deque(roots)
        while q:
            k = q.popleft()
            if k == target:
                out = []
                while k is not None:
                    out.append(k)
                    k = prev[k]
                return list(reversed(out))
            for s in sorted(self.edges.get(k, ())):
                if s not in prev:
                    prev[s] = k
                    q.append(s)
        return None
