"""E0 - program model: modules, classes (C3 MRO), functions, name resolution."""
import ast
import os
import glob


class AnalysisError(Exception):
    """The analysis itself cannot be carried out (anchor vanished, unsupported
    construct, instance count below the confirmed minimum).  Exit status 2."""


def norm(node, limit=200):
    """Normalised text of a construct (independent of layout / line numbers)."""
    if isinstance(node, str):
        s = node
    else:
        try:
            s = ast.unparse(node)
        except Exception:  # pragma: no cover
            s = ast.dump(node)
    s = ' '.join(s.split())
    if len(s) > limit:
        s = s[:limit] + '...'
    return s


def head(stmt, limit=160):
    """Normalised header of a statement (compound statements: first line only)."""
    if isinstance(stmt, (ast.If, ast.While)):
        kw = 'if' if isinstance(stmt, ast.If) else 'while'
        return norm('%s %s:' % (kw, ast.unparse(stmt.test)), limit)
    if isinstance(stmt, (ast.For, ast.AsyncFor)):
        return norm('for %s in %s:' % (ast.unparse(stmt.target), ast.unparse(stmt.iter)), limit)
    if isinstance(stmt, (ast.With, ast.AsyncWith)):
        return norm('with %s:' % ', '.join(ast.unparse(i) for i in stmt.items), limit)
    if isinstance(stmt, ast.Try):
        return 'try:'
    if isinstance(stmt, (ast.FunctionDef, ast.AsyncFunctionDef)):
        return 'def %s(...)' % stmt.name
    if isinstance(stmt, ast.ClassDef):
        return 'class %s' % stmt.name
    return norm(stmt, limit)


class Mod:
    def __init__(self, root, rel):
        self.rel = rel
        self.path = os.path.join(root, rel)
        with open(self.path, encoding='utf-8') as f:
            self.src = f.read()
        try:
            self.tree = ast.parse(self.src, filename=self.path)
        except SyntaxError as e:
            raise AnalysisError('cannot parse %s: %s' % (rel, e))
        from .canon import canonicalise, normal_form
        normal_form(self.tree, root, rel)
        canonicalise(rel, self.tree)
        for parent in ast.walk(self.tree):
            for child in ast.iter_child_nodes(parent):
                child._parent = parent
        self.tree._parent = None
        # dotted module name
        name = rel[:-3].replace('/', '.')
        if name.endswith('.__init__'):
            name = name[:-len('.__init__')]
        self.name = name
        self.imports = {}      # local name -> ('mod', dotted) | ('obj', dotted_module, attr)
        self.globals = {}      # name -> list of value nodes (module-level assignments)
        self.funcs = {}        # qual -> Func
        self.classes = {}      # name -> Cls
        self._collect_toplevel()

    def _collect_toplevel(self):
        for st in self.tree.body:
            self._collect_stmt(st)

    def _collect_stmt(self, st):
        if isinstance(st, ast.Import):
            for a in st.names:
                if a.asname:
                    self.imports[a.asname] = ('mod', a.name)
                else:
                    self.imports[a.name.split('.')[0]] = ('mod', a.name.split('.')[0])
        elif isinstance(st, ast.ImportFrom):
            base = st.module or ''
            if st.level:
                pkg = self.name.split('.')
                if not self.rel.endswith('__init__.py'):
                    pkg = pkg[:-1]
                pkg = pkg[:len(pkg) - (st.level - 1)]
                base = '.'.join(pkg + ([st.module] if st.module else []))
            for a in st.names:
                self.imports[a.asname or a.name] = ('obj', base, a.name)
        elif isinstance(st, (ast.Assign, ast.AnnAssign, ast.AugAssign)):
            targets = st.targets if isinstance(st, ast.Assign) else [st.target]
            for t in targets:
                for n in ast.walk(t):
                    if isinstance(n, ast.Name):
                        self.globals.setdefault(n.id, []).append(
                            getattr(st, 'value', None))
        elif isinstance(st, (ast.If, ast.Try)):
            for sub in ast.iter_child_nodes(st):
                if isinstance(sub, ast.stmt):
                    self._collect_stmt(sub)
                elif isinstance(sub, ast.ExceptHandler):
                    for s2 in sub.body:
                        self._collect_stmt(s2)


class Func:
    def __init__(self, mod, qual, node, cls=None, outer=None):
        self.mod = mod
        self.qual = qual
        self.node = node
        self.cls = cls          # Cls when this is a method
        self.outer = outer      # enclosing Func for nested functions
        self.name = node.name
        self.nested = {}        # name -> Func

    @property
    def key(self):
        return (self.mod.rel, self.qual)

    def __repr__(self):
        return '<Func %s:%s>' % self.key

    @property
    def is_generator(self):
        for n in walk_own(self.node):
            if isinstance(n, (ast.Yield, ast.YieldFrom)):
                return True
        return False

    def params(self):
        a = self.node.args
        return [x.arg for x in a.posonlyargs + a.args]

    def all_params(self):
        a = self.node.args
        out = [x.arg for x in a.posonlyargs + a.args + a.kwonlyargs]
        if a.vararg:
            out.append(a.vararg.arg)
        if a.kwarg:
            out.append(a.kwarg.arg)
        return out

    def decorators(self):
        return [norm(d) for d in self.node.decorator_list]


def walk_own(fn_node):
    """Walk the body of a function without descending into nested defs / lambdas / classes
    (the nested def node itself is yielded, its body is not)."""
    body = fn_node.body if isinstance(getattr(fn_node, 'body', None), list) else [fn_node.body]
    stack = list(reversed(body))
    if isinstance(fn_node, (ast.FunctionDef, ast.AsyncFunctionDef)):
        # decorators / defaults are evaluated in the enclosing scope: not part of the body
        pass
    while stack:
        n = stack.pop()
        yield n
        if isinstance(n, (ast.FunctionDef, ast.AsyncFunctionDef, ast.Lambda, ast.ClassDef)):
            continue
        stack.extend(reversed(list(ast.iter_child_nodes(n))))


class Cls:
    def __init__(self, mod, node, qual):
        self.mod = mod
        self.node = node
        self.name = node.name
        self.qual = qual
        self.base_exprs = node.bases
        self.bases = []         # resolved Cls or str (external)
        self.methods = {}       # name -> Func
        self.attrs = {}         # class-level name -> value node
        self.mro = None
        self.slots = None       # tuple of names or None when no __slots__ statement
        for st in node.body:
            if isinstance(st, ast.Assign):
                for t in st.targets:
                    if isinstance(t, ast.Name):
                        self.attrs[t.id] = st.value
            elif isinstance(st, ast.AnnAssign) and isinstance(st.target, ast.Name):
                if st.value is not None:
                    self.attrs[st.target.id] = st.value
        if '__slots__' in self.attrs:
            v = self.attrs['__slots__']
            try:
                val = ast.literal_eval(v)
            except Exception:
                raise AnalysisError('non-literal __slots__ in %s' % self.name)
            if isinstance(val, str):
                val = (val,)
            self.slots = tuple(val)

    @property
    def key(self):
        return (self.mod.rel, self.qual)

    def __repr__(self):
        return '<Cls %s:%s>' % self.key

    def lookup(self, name):
        """MRO lookup of a method -> Func or None."""
        for c in self.mro:
            if isinstance(c, Cls) and name in c.methods:
                return c.methods[name]
        return None

    def lookup_attr(self, name):
        for c in self.mro:
            if isinstance(c, Cls):
                if name in c.attrs:
                    return c, c.attrs[name]
                if name in c.methods:
                    return c, c.methods[name]
        return None, None

    def is_subclass_of(self, other):
        return other in self.mro

    def has_dict(self):
        """True when instances have a __dict__ (some class in the MRO lacks __slots__)."""
        for c in self.mro:
            if isinstance(c, Cls):
                if c.slots is None:
                    return True
            elif c not in ('object',):
                # external base: assume it behaves like object unless known otherwise
                if c not in _SLOTTED_EXTERNALS:
                    return True
        return False

    def all_slots(self):
        out = set()
        for c in self.mro:
            if isinstance(c, Cls) and c.slots:
                out.update(c.slots)
        return out


_SLOTTED_EXTERNALS = {'object'}


class Program:
    def __init__(self, root='/repo', package='parso'):
        self.root = root
        self.package = package
        self.mods = {}
        pkgdir = os.path.join(root, package)
        if not os.path.isdir(pkgdir):
            raise AnalysisError('package directory %s does not exist' % pkgdir)
        for p in sorted(glob.glob(os.path.join(pkgdir, '**', '*.py'), recursive=True)):
            rel = os.path.relpath(p, root)
            self.mods[rel] = Mod(root, rel)
        self.by_name = {m.name: m for m in self.mods.values()}
        self.funcs = {}
        self.classes = {}
        self.classes_by_name = {}
        for m in self.mods.values():
            self._index(m, m.tree.body, '', None, None)
        self._resolve_bases()
        self.methods_by_name = {}
        for c in self.classes.values():
            for n, f in c.methods.items():
                self.methods_by_name.setdefault(n, []).append(f)

    # -- indexing ---------------------------------------------------------
    def _index(self, mod, body, prefix, cls, outer):
        for st in body:
            if isinstance(st, (ast.FunctionDef, ast.AsyncFunctionDef)):
                qual = prefix + st.name
                f = Func(mod, qual, st, cls=cls if outer is None else None, outer=outer)
                # several defs of the same name (e.g. property setter): keep first, index others with suffix
                k = qual
                i = 2
                while (mod.rel, k) in self.funcs:
                    k = '%s#%d' % (qual, i)
                    i += 1
                f.qual = k
                self.funcs[(mod.rel, k)] = f
                mod.funcs[k] = f
                if cls is not None and outer is None and st.name not in cls.methods:
                    cls.methods[st.name] = f
                if outer is not None:
                    outer.nested[st.name] = f
                self._index_nested(mod, st, k + '.', f)
            elif isinstance(st, ast.ClassDef):
                qual = prefix + st.name
                c = Cls(mod, st, qual)
                self.classes[(mod.rel, qual)] = c
                self.classes_by_name.setdefault(st.name, []).append(c)
                if outer is None and cls is None:
                    mod.classes[st.name] = c
                self._index(mod, st.body, qual + '.', c, None)
            elif isinstance(st, (ast.If, ast.Try, ast.With, ast.For, ast.While)):
                for field in ('body', 'orelse', 'finalbody'):
                    self._index(mod, getattr(st, field, []) or [], prefix, cls, outer)
                for h in getattr(st, 'handlers', []) or []:
                    self._index(mod, h.body, prefix, cls, outer)

    def _index_nested(self, mod, fn_node, prefix, outer):
        # nested defs anywhere inside the function body (not inside nested defs)
        def visit(stmts):
            for st in stmts:
                if isinstance(st, (ast.FunctionDef, ast.AsyncFunctionDef)):
                    self._index(mod, [st], prefix, None, outer)
                elif isinstance(st, ast.ClassDef):
                    self._index(mod, [st], prefix, None, outer)
                else:
                    for field in ('body', 'orelse', 'finalbody'):
                        sub = getattr(st, field, None)
                        if isinstance(sub, list):
                            visit(sub)
                    for h in getattr(st, 'handlers', []) or []:
                        visit(h.body)
        visit(fn_node.body)

    def _resolve_bases(self):
        for c in self.classes.values():
            c.bases = [self.resolve_class_expr(c.mod, b) for b in c.base_exprs]
            c.metaclass = None
            for kw in c.node.keywords:
                if kw.arg == 'metaclass':
                    c.metaclass = self.resolve_class_expr(c.mod, kw.value)
        for c in self.classes.values():
            self._mro(c, ())

    def _mro(self, c, stack):
        if c.mro is not None:
            return c.mro
        if c in stack:
            raise AnalysisError('inheritance cycle at %s' % c.name)
        seqs = []
        for b in c.bases:
            if isinstance(b, Cls):
                seqs.append(list(self._mro(b, stack + (c,))))
            else:
                seqs.append([b])
        seqs.append(list(c.bases))
        res = [c]
        while True:
            seqs = [s for s in seqs if s]
            if not seqs:
                break
            for s in seqs:
                cand = s[0]
                if not any(cand in t[1:] for t in seqs):
                    break
            else:
                raise AnalysisError('inconsistent MRO for %s' % c.name)
            res.append(cand)
            for s in seqs:
                if s[0] == cand:
                    del s[0]
        c.mro = res
        return res

    # -- resolution ----------------------------------------------------------
    def resolve_class_expr(self, mod, expr):
        """-> Cls or a string for external / unresolved bases."""
        r = self.resolve_name_expr(mod, expr)
        if isinstance(r, Cls):
            return r
        return norm(expr)

    def resolve_name_expr(self, mod, expr, seen=()):
        """Resolve Name / dotted Attribute at module scope to Cls, Func, Mod or None."""
        if isinstance(expr, ast.Subscript):   # Generic[...] etc.
            return self.resolve_name_expr(mod, expr.value, seen)
        if isinstance(expr, ast.Name):
            return self.resolve_global(mod, expr.id, seen)
        if isinstance(expr, ast.Attribute):
            base = self.resolve_name_expr(mod, expr.value, seen)
            if isinstance(base, Mod):
                return self.resolve_global(base, expr.attr, seen)
            if isinstance(base, Cls):
                c, v = base.lookup_attr(expr.attr)
                if isinstance(v, Func):
                    return v
                return None
        return None

    def resolve_global(self, mod, name, seen=()):
        if (mod.rel, name) in seen:
            return None
        seen = seen + ((mod.rel, name),)
        if name in mod.classes:
            return mod.classes[name]
        if name in mod.funcs and '.' not in name:
            return mod.funcs[name]
        if name in mod.imports:
            imp = mod.imports[name]
            if imp[0] == 'mod':
                return self.by_name.get(imp[1])
            _, base, attr = imp
            full = base + '.' + attr if base else attr
            if full in self.by_name:
                return self.by_name[full]
            target = self.by_name.get(base)
            if target is not None:
                return self.resolve_global(target, attr, seen)
            return None
        if name in mod.globals:
            vals = [v for v in mod.globals[name] if v is not None]
            if len(vals) == 1 and isinstance(vals[0], (ast.Name, ast.Attribute)):
                return self.resolve_name_expr(mod, vals[0], seen)
        return None

    # -- anchors ---------------------------------------------------------------
    def mod(self, rel):
        try:
            return self.mods[rel]
        except KeyError:
            raise AnalysisError('anchor vanished: module %s' % rel)

    def func(self, rel, qual):
        try:
            return self.funcs[(rel, qual)]
        except KeyError:
            raise AnalysisError('anchor vanished: function %s:%s' % (rel, qual))

    def cls(self, rel, name):
        try:
            return self.classes[(rel, name)]
        except KeyError:
            raise AnalysisError('anchor vanished: class %s:%s' % (rel, name))

    def global_value(self, rel, name):
        m = self.mod(rel)
        vals = [v for v in m.globals.get(name, []) if v is not None]
        if not vals:
            raise AnalysisError('anchor vanished: global %s in %s' % (name, rel))
        return vals[-1]

    def subclasses(self, cls):
        return [c for c in self.classes.values() if cls in c.mro]

    def enclosing_func(self, mod, node):
        """Func object whose body (directly) contains the ast node."""
        n = node
        while n is not None:
            n = getattr(n, '_parent', None)
            if isinstance(n, (ast.FunctionDef, ast.AsyncFunctionDef)):
                for f in mod.funcs.values():
                    if f.node is n:
                        return f
        return None


def block_of(stmt):
    """The statement list (body / orelse / finalbody / handler body) that contains ``stmt``."""
    p = getattr(stmt, '_parent', None)
    for field in ('body', 'orelse', 'finalbody'):
        block = getattr(p, field, None)
        if isinstance(block, list) and any(b is stmt for b in block):
            return block
    return []


def expand_aliases(fn_node, expr, depth=3):
    """A copy of ``expr`` in which read-only attribute aliases are spelled out: a local that is assigned exactly once, from
    an attribute chain (optionally indexed by constants) that starts at a name - `nodes = tos.nodes`,
    `reserved = grammar.reserved_syntax_strings`, `stack = self.stack` - is replaced by that chain, unless the function
    rebinds the final attribute somewhere (then the alias and the chain can differ)."""
    import copy
    assigns = {}
    stored_attrs = set()
    params = set()
    a = getattr(fn_node, 'args', None)
    if a is not None:
        params = {x.arg for x in a.posonlyargs + a.args + a.kwonlyargs}
    for n in walk_own(fn_node):
        if isinstance(n, ast.Assign):
            for t in n.targets:
                for x in ast.walk(t):
                    if isinstance(x, ast.Name) and isinstance(x.ctx, ast.Store):
                        assigns.setdefault(x.id, []).append(n.value if (len(n.targets) == 1 and t is x) else None)
                    if isinstance(x, ast.Attribute) and isinstance(x.ctx, ast.Store):
                        stored_attrs.add(norm(x))
        elif isinstance(n, (ast.AugAssign, ast.AnnAssign)):
            for x in ast.walk(n.target):
                if isinstance(x, ast.Name):
                    assigns.setdefault(x.id, []).append(None)
                if isinstance(x, ast.Attribute) and isinstance(x.ctx, ast.Store):
                    stored_attrs.add(norm(x))
        elif isinstance(n, (ast.For, ast.AsyncFor, ast.With, ast.AsyncWith, ast.comprehension)):
            tg = [n.target] if hasattr(n, 'target') else [i.optional_vars for i in n.items if i.optional_vars is not None]
            for t in tg:
                for x in ast.walk(t):
                    if isinstance(x, ast.Name):
                        assigns.setdefault(x.id, []).append(None)

    def chain(v):
        e = v
        while True:
            if isinstance(e, ast.Attribute):
                if norm(e) in stored_attrs:
                    return False          # this very attribute is rebound in the function
                e = e.value
            elif isinstance(e, ast.Subscript) and isinstance(e.slice, (ast.Constant, ast.UnaryOp)):
                e = e.value
            else:
                break
        return isinstance(e, ast.Name) and e is not v

    class T(ast.NodeTransformer):
        def visit_Name(self, n):
            if isinstance(n.ctx, ast.Load) and n.id not in params:
                vals = assigns.get(n.id, [])
                if len(vals) == 1 and vals[0] is not None and chain(vals[0]):
                    return copy.deepcopy(vals[0])
            return n
    out = copy.deepcopy(expr)
    for _ in range(depth):
        out = T().visit(out)
    return out


def xnorm(fn_node, expr, limit=400):
    return norm(expand_aliases(fn_node, expr), limit)


def reaching_values(fn_node, name_node):
    """Values that can reach this use of a local: the nearest assignment that precedes it in its own or an enclosing
    block; when that statement is compound (if / loop / try), every assignment to the name inside it."""
    child = name_node
    while child is not None and not isinstance(child, ast.stmt):
        child = getattr(child, '_parent', None)
    while child is not None and child is not fn_node:
        blk = block_of(child)
        idx = [b is child for b in blk].index(True) if blk else 0
        for st in reversed(blk[:idx]):
            vals = [a.value for a in ast.walk(st) if isinstance(a, ast.Assign)
                    and any(isinstance(t, ast.Name) and t.id == name_node.id for t in a.targets)]
            if vals:
                return vals
        child = getattr(child, '_parent', None)
        while child is not None and not isinstance(child, ast.stmt) and child is not fn_node:
            child = getattr(child, '_parent', None)
    return []


def qual_of(mod, node):
    """Qualified name of the innermost def/class enclosing ``node`` ('<module>' at top level)."""
    parts = []
    n = node
    while n is not None:
        if isinstance(n, (ast.FunctionDef, ast.AsyncFunctionDef, ast.ClassDef)):
            parts.append(n.name)
        n = getattr(n, '_parent', None)
    return '.'.join(reversed(parts)) or '<module>'


def concat_terms(e):
    """Terms of a string concatenation written as a + b, '%s%s' % (a, b), f'{a}{b}' or ''.join([a, b]);
    None when the expression is not such a concatenation.  Constant pieces are returned as repr()."""
    if isinstance(e, ast.BinOp) and isinstance(e.op, ast.Add):
        l, r = concat_terms(e.left), concat_terms(e.right)
        if l is None or r is None:
            return None
        return l + r
    if isinstance(e, ast.BinOp) and isinstance(e.op, ast.Mod) and isinstance(e.left, ast.Constant) \
            and isinstance(e.left.value, str) and e.left.value.replace('%s', '') == '':
        args = e.right.elts if isinstance(e.right, ast.Tuple) else [e.right]
        if len(args) == e.left.value.count('%s'):
            return [norm(a) for a in args]
        return None
    if isinstance(e, ast.JoinedStr):
        out = []
        for v in e.values:
            if isinstance(v, ast.Constant):
                if v.value:
                    out.append(repr(v.value))
            elif isinstance(v, ast.FormattedValue) and v.conversion == -1 and v.format_spec is None:
                out.append(norm(v.value))
            else:
                return None
        return out
    if isinstance(e, ast.Call) and isinstance(e.func, ast.Attribute) and e.func.attr == 'join' \
            and isinstance(e.func.value, ast.Constant) and e.func.value.value == '' and len(e.args) == 1 \
            and isinstance(e.args[0], (ast.List, ast.Tuple)):
        return [norm(x) for x in e.args[0].elts]
    if isinstance(e, ast.Constant) and isinstance(e.value, str):
        return [repr(e.value)] if e.value else []
    return [norm(e)]
