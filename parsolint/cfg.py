"""Statement-level control-flow graph for one Python function.

Node kinds
    entry, exit (normal return / fall off the end), raise (uncaught explicit raise)
    stmt     simple statement (ast.stmt)
    test     condition; out-edges labelled 'T' / 'F'  (short-circuit and/or/not are split)
    iter     evaluation of a for-loop iterable
    next0    first fetch from the iterator:  'next' (binds target) / 'done'
    next     later fetches:                  'next' / 'done'
    with     evaluation of the context expressions, binds optional vars
    handler  entry of an except clause (binds the name)
    join     structural no-op

Implicit exceptions are modelled only inside ``try`` bodies: every node built
inside a try body gets an 'exc' edge to every handler of the innermost
enclosing try (the edge carries the state *before* the node).
``finally`` bodies are duplicated per abrupt exit kind.
"""
import ast


class Node:
    __slots__ = ('id', 'kind', 'ast', 'succ', 'pred', 'stmt', 'extra')

    def __init__(self, id, kind, node=None, stmt=None):
        self.id = id
        self.kind = kind
        self.ast = node       # expression or statement this node evaluates
        self.stmt = stmt      # the enclosing ast.stmt (for reporting)
        self.succ = []        # (Node, label)
        self.pred = []        # (Node, label)
        self.extra = None

    def __repr__(self):
        return '<%d %s %s>' % (self.id, self.kind,
                               ast.unparse(self.ast)[:50] if self.ast is not None else '')


class CFG:
    def __init__(self, fn):
        self.fn = fn
        self.nodes = []
        self.entry = self._new('entry')
        self.exit = self._new('exit')
        self.raise_exit = self._new('raise')
        self._loops = []      # (continue_target_node, break_frontier_list)
        self._trys = []       # list of handler-node lists (innermost last)
        self._finals = []     # list of finalbody stmts lists (innermost last) with loop depth
        frontier = self._seq(fn.body, [(self.entry, None)])
        self._connect(frontier, self.exit)

    # ------------------------------------------------------------------
    def _new(self, kind, node=None, stmt=None):
        n = Node(len(self.nodes), kind, node, stmt)
        self.nodes.append(n)
        for hs in getattr(self, '_trys', ()):
            for h in hs:
                self._edge(n, h, 'exc')
        return n

    def _edge(self, a, b, label=None):
        a.succ.append((b, label))
        b.pred.append((a, label))

    def _connect(self, frontier, node):
        for a, label in frontier:
            self._edge(a, node, label)

    # ------------------------------------------------------------------
    def _seq(self, stmts, frontier):
        for st in stmts:
            frontier = self._stmt(st, frontier)
        return frontier

    def _cond(self, expr, frontier, stmt):
        """Build test nodes for ``expr``; return (true_frontier, false_frontier)."""
        if isinstance(expr, ast.BoolOp):
            if isinstance(expr.op, ast.And):
                falses = []
                for v in expr.values:
                    t, f = self._cond(v, frontier, stmt)
                    falses += f
                    frontier = t
                return frontier, falses
            else:
                trues = []
                for v in expr.values:
                    t, f = self._cond(v, frontier, stmt)
                    trues += t
                    frontier = f
                return trues, frontier
        if isinstance(expr, ast.UnaryOp) and isinstance(expr.op, ast.Not):
            t, f = self._cond(expr.operand, frontier, stmt)
            return f, t
        n = self._new('test', expr, stmt)
        self._connect(frontier, n)
        if isinstance(expr, ast.Constant):
            if expr.value:
                return [(n, 'T')], []
            return [], [(n, 'F')]
        return [(n, 'T')], [(n, 'F')]

    def _abrupt(self, node, kind):
        """Route an abrupt exit (return/raise/break/continue) through pending finally bodies
        (each gets its own copy of the finally body, built in the context outside its try)."""
        frontier = [(node, None)]
        depth = len(self._loops)
        saved_trys, saved_finals = self._trys, self._finals
        for idx in range(len(saved_finals) - 1, -1, -1):
            fb, loop_depth, trys_outside = saved_finals[idx]
            if kind in ('break', 'continue') and loop_depth < depth:
                break
            self._finals = saved_finals[:idx]
            self._trys = trys_outside
            frontier = self._seq(fb, frontier)
        self._trys, self._finals = saved_trys, saved_finals
        return frontier

    def _stmt(self, st, frontier):
        if isinstance(st, ast.If):
            t, f = self._cond(st.test, frontier, st)
            out = self._seq(st.body, t)
            out2 = self._seq(st.orelse, f)
            return out + out2
        if isinstance(st, ast.While):
            head = self._new('join', None, st)
            self._connect(frontier, head)
            t, f = self._cond(st.test, [(head, None)], st)
            brk = []
            self._loops.append((head, brk))
            body_out = self._seq(st.body, t)
            self._loops.pop()
            self._connect(body_out, head)
            out = self._seq(st.orelse, f)
            return out + brk
        if isinstance(st, (ast.For, ast.AsyncFor)):
            it = self._new('iter', st.iter, st)
            self._connect(frontier, it)
            n0 = self._new('next0', st.target, st)
            self._edge(it, n0)
            n1 = self._new('next', st.target, st)
            body_entry = self._new('join', None, st)
            self._edge(n0, body_entry, 'next')
            self._edge(n1, body_entry, 'next')
            brk = []
            self._loops.append((n1, brk))
            body_out = self._seq(st.body, [(body_entry, None)])
            self._loops.pop()
            self._connect(body_out, n1)
            out = self._seq(st.orelse, [(n0, 'done'), (n1, 'done')])
            return out + brk
        if isinstance(st, (ast.With, ast.AsyncWith)):
            w = self._new('with', st, st)
            self._connect(frontier, w)
            return self._seq(st.body, [(w, None)])
        if isinstance(st, ast.Try) or st.__class__.__name__ == 'TryStar':
            outer_trys = list(self._trys)
            handlers = []
            for h in st.handlers:
                # handler nodes are protected by the *outer* try only
                saved = self._trys
                self._trys = outer_trys
                hn = self._new('handler', h, st)
                self._trys = saved
                handlers.append(hn)
            if st.finalbody:
                self._finals.append((st.finalbody, len(self._loops), outer_trys))
            if handlers:
                self._trys = outer_trys + [handlers]
            pre = self._new('join', None, st)      # state at try entry reaches handlers
            self._connect(frontier, pre)
            body_out = self._seq(st.body, [(pre, None)])
            self._trys = outer_trys
            else_out = self._seq(st.orelse, body_out)
            outs = list(else_out)
            for h, hn in zip(st.handlers, handlers):
                outs += self._seq(h.body, [(hn, None)])
            if st.finalbody:
                self._finals.pop()
                outs = self._seq(st.finalbody, outs)
            return outs
        if isinstance(st, ast.Return):
            n = self._new('stmt', st, st)
            self._connect(frontier, n)
            self._connect(self._abrupt(n, 'return'), self.exit)
            return []
        if isinstance(st, ast.Raise):
            n = self._new('stmt', st, st)
            self._connect(frontier, n)
            # inside a try body the 'exc' edges already lead to the handlers
            self._connect(self._abrupt(n, 'raise'), self.raise_exit)
            return []
        if isinstance(st, ast.Break):
            n = self._new('stmt', st, st)
            self._connect(frontier, n)
            if not self._loops:
                return []
            self._loops[-1][1].extend(self._abrupt(n, 'break'))
            return []
        if isinstance(st, ast.Continue):
            n = self._new('stmt', st, st)
            self._connect(frontier, n)
            if not self._loops:
                return []
            self._connect(self._abrupt(n, 'continue'), self._loops[-1][0])
            return []
        if isinstance(st, ast.Assert):
            t, f = self._cond(st.test, frontier, st)
            if f:
                fail = self._new('stmt', st, st)
                fail.extra = 'assert-fail'
                self._connect(f, fail)
                self._edge(fail, self.raise_exit)
            return t
        if isinstance(st, ast.Match):
            m = self._new('stmt', st.subject, st)
            self._connect(frontier, m)
            outs = [(m, None)]
            for case in st.cases:
                c = self._new('case', case, st)          # binds the capture names of the pattern
                self._edge(m, c)
                front = [(c, None)]
                if case.guard is not None:
                    t, f = self._cond(case.guard, front, st)
                    outs += f
                    front = t
                outs += self._seq(case.body, front)
            return outs
        # simple statements, defs, classes
        n = self._new('stmt', st, st)
        self._connect(frontier, n)
        return [(n, None)]

    # ------------------------------------------------------------------
    def reachable(self, start=None, blocked=(), labels_blocked=()):
        """Nodes reachable from ``start`` (default entry) not passing *through* blocked nodes."""
        start = start or self.entry
        blocked = set(blocked)
        seen = {start}
        todo = [start]
        while todo:
            n = todo.pop()
            if n in blocked and n is not start:
                continue
            for s, lab in n.succ:
                if lab in labels_blocked:
                    continue
                if s not in seen:
                    seen.add(s)
                    todo.append(s)
        return seen

    def dominators(self, skip_exc=True):
        """Map node -> set of dominators (over normal edges; 'exc' edges optionally ignored)."""
        nodes = [n for n in self.nodes]
        full = set(nodes)
        dom = {n: set(full) for n in nodes}
        dom[self.entry] = {self.entry}
        changed = True
        while changed:
            changed = False
            for n in nodes:
                if n is self.entry:
                    continue
                preds = [p for p, lab in n.pred if not (skip_exc and lab == 'exc')]
                preds = [p for p in preds if p in dom]
                if not preds:
                    new = {n}
                else:
                    new = set.intersection(*(dom[p] for p in preds)) | {n}
                if new != dom[n]:
                    dom[n] = new
                    changed = True
        return dom

    def nodes_of(self, pred):
        return [n for n in self.nodes if pred(n)]


def contains_yield(node):
    """Does the expression/statement evaluated by this CFG node contain a yield
    (not counting nested defs / lambdas)?"""
    if node.ast is None:
        return False
    roots = [node.ast]
    if node.kind == 'with':
        roots = [i.context_expr for i in node.ast.items]
    elif node.kind == 'handler':
        return False
    stack = list(roots)
    while stack:
        n = stack.pop()
        if isinstance(n, (ast.Yield, ast.YieldFrom)):
            return True
        if isinstance(n, (ast.FunctionDef, ast.AsyncFunctionDef, ast.Lambda, ast.ClassDef)):
            continue
        stack.extend(ast.iter_child_nodes(n))
    return False


def node_exprs(node):
    """The expressions a CFG node evaluates (for use/call scanning)."""
    a = node.ast
    if a is None:
        return []
    if node.kind in ('test', 'iter'):
        return [a]
    if node.kind in ('next0', 'next'):
        return []           # target only binds
    if node.kind == 'with':
        return [i.context_expr for i in a.items]
    if node.kind == 'handler':
        return [a.type] if a.type is not None else []
    if node.kind == 'case':
        return []
    if node.kind == 'stmt':
        if isinstance(a, (ast.FunctionDef, ast.AsyncFunctionDef)):
            return list(a.decorator_list) + list(a.args.defaults) + [d for d in a.args.kw_defaults if d is not None]
        if isinstance(a, ast.ClassDef):
            return list(a.decorator_list) + list(a.bases) + [k.value for k in a.keywords]
        if isinstance(a, ast.Assert):     # assert-fail node: message only
            return [a.msg] if a.msg is not None else []
        if isinstance(a, ast.expr):
            return [a]
        return [a]
    return []
