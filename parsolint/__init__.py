"""parsolint - repository-specific static analyser for davidhalter/parso.

Every verdict is computed from the *source text* under the analysed root
(default /repo): Python modules are read with ``ast`` and the grammar files
with an own EBNF reader.  No module of parso is ever imported or executed.
"""
