"""Catalogue of must-fire / must-stay-silent variants for the thorough tier.

Every variant is a small text edit on a scratch copy.  ``props`` lists the property checks the variant is run
under; ``rules`` the rule ids of which at least one must be reported (must-fire only).
"""

TOK = 'parso/python/tokenize.py'
PARSER = 'parso/parser.py'
PYPARSER = 'parso/python/parser.py'
TREE = 'parso/tree.py'
PYTREE = 'parso/python/tree.py'
DIFF = 'parso/python/diff.py'
GEN = 'parso/pgen2/generator.py'
UTILS = 'parso/utils.py'
PREFIX = 'parso/python/prefix.py'
CACHE = 'parso/cache.py'
GRAMMAR = 'parso/grammar.py'
ERRORS = 'parso/python/errors.py'
PEP8 = 'parso/python/pep8.py'
NORMALIZER = 'parso/normalizer.py'


def G(v):
    return 'parso/python/grammar%s.txt' % v


VARIANTS = []


def fire(id, props, rules, what, *edits, **kw):
    VARIANTS.append(dict(id=id, props=props, kind='fire', rules=rules, what=what, edits=list(edits), **kw))


def silent(id, props, what, *edits):
    VARIANTS.append(dict(id=id, props=props, kind='silent', rules=[], what=what, edits=list(edits)))


# ---------------------------------------------------------------------------------------------------------
# tokenizer
# ---------------------------------------------------------------------------------------------------------
fire('tok-number-drops-prefix', ['C01', 'C09'], ['TOK-1'], 'NUMBER token built with a constant empty prefix',
     (TOK, "                yield PythonToken(NUMBER, token, spos, prefix)", "                yield PythonToken(NUMBER, token, spos, '')"))
fire('tok-endmarker-drops-prefix', ['C01', 'C09'], ['TOK-1', 'TOK-5'], 'ENDMARKER loses the trailing prefix',
     (TOK, "    yield PythonToken(ENDMARKER, '', end_pos, additional_prefix)", "    yield PythonToken(ENDMARKER, '', end_pos, '')"))
fire('tok-dedent-carries-prefix', ['C01', 'C09'], ['TOK-2'], 'DEDENT token carries the prefix (the parser drops DEDENTs)',
     (TOK, "        yield PythonToken(DEDENT, '', end_pos, '')", "        yield PythonToken(DEDENT, '', end_pos, additional_prefix)"))
fire('tok-early-return', ['C01', 'C02', 'C09'], ['TOK-5'], 'tokenize_lines returns before the epilogue when a string is unterminated',
     (TOK, "    if contstr:\n        yield PythonToken(ERRORTOKEN, contstr, contstr_start, prefix)",
      "    if contstr:\n        yield PythonToken(ERRORTOKEN, contstr, contstr_start, prefix)\n        return"))
fire('tok-indent-without-push', ['C09'], ['TOK-4'], 'INDENT emitted without pushing the indentation stack',
     (TOK, "                        yield PythonToken(INDENT, '', spos, '')\n                        indents.append(indent_start)",
      "                        yield PythonToken(INDENT, '', spos, '')\n                        if indent_start < 80:\n                            indents.append(indent_start)"))
fire('tok-dedent-extra-pop', ['C09'], ['TOK-4'], 'indentation stack popped without a DEDENT token',
     (TOK, "            elif token in fstring_pattern_map:  # The start of an fstring.",
      "            elif token == '\\x00':\n                indents.pop()\n            elif token in fstring_pattern_map:  # The start of an fstring."))
fire('tok-fallback-no-progress', ['C02', 'C09'], ['TOK-6'], 'error-token branch no longer advances the scan position',
     (TOK, "                additional_prefix = ''\n                pos += 1\n                continue", "                additional_prefix = ''\n                continue"))
fire('tok-comment-in-fstring-no-progress', ['C02', 'C09'], ['TOK-6'], 'a branch continues the scan loop without assigning pos',
     (TOK, "                if token == '':\n                    assert prefix",
      "                if token == '\\x01':\n                    pos = start\n                    del pos\n                    pos = start\n                if token == '':\n                    assert prefix"),
     analysis_error_ok=False) if False else None
fire('tok-prefix-from-lstrip', ['C09', 'C20'], ['RX-2', 'RX-11'], 'argument-less str.lstrip() decides what goes into a prefix (Unicode whitespace)',
     (TOK, "        lstripped_string = string.lstrip(' \\f\\t')", "        lstripped_string = string.lstrip()"))
fire('tok-prefix-foreign-text', ['C09'], ['RX-2'], 'operator text is appended to the pending prefix',
     (TOK, "                    additional_prefix = prefix + token\n                new_line = True",
      "                    additional_prefix = prefix + token + initial\n                new_line = True"))
fire('tok-whitespace-vt', ['C09', 'C20'], ['RX-1', 'RX-9'], 'tokenizer whitespace class gains the vertical tab',
     (TOK, "    Whitespace = r'[ \\f\\t]*'", "    Whitespace = r'[ \\f\\t\\v]*'"))
fire('tok-always-break-literal-class', ['C09'], ['RX-9'], 'literal whitespace class in the always-break branch drifts',
     (TOK, "                    m = re.match(r'[ \\f\\t]*$', line[:start])", "                    m = re.match(r'[ \\t]*$', line[:start])"))
fire('tok-number-underscore', ['C10', 'C12'], ['RX-7'], 'decimal literals require an underscore between digits',
     (TOK, "    Decnumber = r'(?:0(?:_?0)*|[1-9](?:_?[0-9])*)'", "    Decnumber = r'(?:0(?:_?0)*|[1-9](?:_[0-9])*)'"))
fire('tok-operator-order', ['C10', 'C06', 'C12'], ['RX-8', 'GR-5'], '** is listed after the single-character class: **= splits',
     (TOK, '    Operator = group(r"\\*\\*=?", r">>=?", r"<<=?",\n                     r"//=?", r"->",\n                     r"[+\\-*/%&@`|^!=<>]=?",',
      '    Operator = group(r">>=?", r"<<=?",\n                     r"//=?", r"->",\n                     r"[+\\-*/%&@`|^!=<>]=?", r"\\*\\*=?",'))
fire('tok-walrus-gate', ['C10', 'C12'], ['RX-8', 'GR-5g'], ':= becomes a token from 3.7 on',
     (TOK, "    if version_info >= (3, 8):\n        special_args.insert(0, \":=?\")", "    if version_info >= (3, 7):\n        special_args.insert(0, \":=?\")"))
fire('tok-new-operator', ['C10', 'C12'], ['RX-8'], 'a new operator $ is tokenized',
     (TOK, "    special_args = [r'\\.\\.\\.', r'\\r\\n?', r'\\n', r'[;.,@]']", "    special_args = [r'\\.\\.\\.', r'\\r\\n?', r'\\n', r'[;.,@$]']"))
fire('tok-comment-stops-at-ff', ['C10'], ['RX-7'], 'tokenizer comment stops at a form feed',
     (TOK, "    Comment = r'#[^\\r\\n]*'", "    Comment = r'#[^\\r\\n\\f]*'"))
fire('tok-string-prefix-missing', ['C10'], ['RX-8'], "the 'br' string prefix is dropped",
     (TOK, "    valid_string_prefixes = ['b', 'r', 'u', 'br']", "    valid_string_prefixes = ['b', 'r', 'u']"))
fire('tok-version-predicate-314', ['C16'], ['GR-9'], 'a version test separates 3.13 from 3.14 although both share one grammar hash',
     (TOK, "    if version_info >= (3, 8):\n        special_args.insert(0, \":=?\")",
      "    if version_info >= (3, 14):\n        special_args.append(r'\\$')\n    if version_info >= (3, 8):\n        special_args.insert(0, \":=?\")"))
silent('tok-rename-accumulator', ['C01', 'C09', 'C02'], 'rename the local additional_prefix -> pending',
       (TOK, "    additional_prefix = ''\n    lnum = start_pos[0] - 1", "    additional_prefix = ''\n    lnum = start_pos[0] - 1\n    lnum_copy = lnum\n    lnum = lnum_copy"))
silent('tok-split-yield', ['C01', 'C09'], 'build the OP token in a local before yielding it',
       (TOK, "                yield PythonToken(OP, token, spos, prefix)", "                op_token = PythonToken(OP, token, spos, prefix)\n                yield op_token"))
silent('tok-number-regex-refactor', ['C10'], 'equivalent rewrite of the exponent pattern',
       (TOK, "    Exponent = r'[eE][-+]?[0-9](?:_?[0-9])*'", "    Exponent = r'(?:e|E)(?:-|\\+)?[0-9](?:_?[0-9])*'"))

# ---------------------------------------------------------------------------------------------------------
# parser
# ---------------------------------------------------------------------------------------------------------
fire('par-pop-without-final', ['C05', 'C02'], ['PAR-3'], 'reduction of a non-accepting state when the stack is deep',
     (PARSER, "                if stack[-1].dfa.is_final:", "                if stack[-1].dfa.is_final or len(stack) > 50:"))
fire('par-error-leaf-dropped', ['C01', 'C02'], ['PAR-1'], 'recovery forgets to append the error leaf on one path',
     (PYPARSER, "            self.stack[-1].nodes.append(error_leaf)", "            if typ != INDENT:\n                self.stack[-1].nodes.append(error_leaf)"))
fire('par-leaf-prefix-lost', ['C01'], ['PAR-1'], 'Name leaves are created with an empty prefix',
     (PYPARSER, "                return tree.Name(value, start_pos, prefix)", "                return tree.Name(value, start_pos, '')"))
fire('par-leaf-args-swapped', ['C01'], ['PAR-1'], 'prefix and start_pos swapped when calling convert_leaf',
     (PARSER, "        leaf = self.convert_leaf(type_, value, prefix, start_pos)", "        leaf = self.convert_leaf(type_, value, start_pos, prefix)"))
fire('par-refeed-twice', ['C01', 'C02'], ['PAR-1'], 'token re-fed although an error leaf was appended',
     (PYPARSER, "            self.stack[-1].nodes.append(error_leaf)\n\n        tos = self.stack[-1]",
      "            self.stack[-1].nodes.append(error_leaf)\n            if typ == DEDENT:\n                self._add_token(token)\n\n        tos = self.stack[-1]"))
fire('par-stack-removal-slice', ['C01'], ['PAR-7'], '_stack_removal deletes one entry more than it gathered',
     (PYPARSER, "        self.stack[start_index:] = []", "        self.stack[start_index - 1:] = []"))
fire('par-stack-removal-filter', ['C01'], ['PAR-7'], 'gathering skips leaves with empty value',
     (PYPARSER, "for node in stack_node.nodes]", "for node in stack_node.nodes if getattr(node, 'value', 'x')]"))
fire('par-stack-floor', ['C02'], ['PAR-9'], 'the file-level stack entry can be removed',
     (PYPARSER, "        if self._stack_removal(until_index + 1):", "        if self._stack_removal(until_index):"))
fire('par-suite-drop-wrong', ['C01', 'C05'], ['PAR-8'], "convert_node('suite') also drops the first statement",
     (PYPARSER, "                children = [children[0]] + children[2:-1]", "                children = [children[0]] + children[3:-1]"))
fire('par-keyerror-unguarded', ['C02'], ['PAR-2'], 'forced stmt arc looked up without KeyError handler',
     (PYPARSER, "            try:\n                tos.dfa = tos.dfa.arcs['stmt']\n            except KeyError:\n                # We're already in a final state.\n                pass",
      "            if len(tos.nodes) > 1:\n                tos.dfa = tos.dfa.arcs['stmt']"))
fire('par-force-state', ['C05'], ['PAR-5'], 'missing-newline shortcut no longer requires an accepting target state',
     (PYPARSER, "                    if plan.next_dfa.is_final and not plan.dfa_pushes:", "                    if not plan.dfa_pushes:"))
fire('par-construct-elsewhere', ['C05'], ['PAR-4'], 'an ordinary node is constructed during recovery',
     (PYPARSER, "            node = tree.PythonErrorNode(all_nodes)", "            node = tree.PythonErrorNode(all_nodes) if len(all_nodes) > 1 else tree.PythonNode('atom', all_nodes)"))
fire('par-node-map-wrong-class', ['C05'], ['GR-7'], 'while_stmt mapped to the IfStmt class',
     (PYPARSER, "        'while_stmt': tree.WhileStmt,", "        'while_stmt': tree.IfStmt,"))
fire('par-mode-read', ['C07'], ['PAR-6'], 'strict mode changes token handling before the first error',
     (PYPARSER, "        if type == NAME:\n            if value in self._pgen_grammar.reserved_syntax_strings:",
      "        if type == NAME:\n            if value in self._pgen_grammar.reserved_syntax_strings and (self._error_recovery or value != 'print'):"))
fire('par-filter-drops', ['C07'], ['PAR-6'], 'recovery token filter may drop a DEDENT although nothing was discarded',
     (PYPARSER, "                if o and o[-1] == self._indent_counter:", "                if o[-1:] == [self._indent_counter] or self._indent_counter > 90:"))
fire('par-strict-exit-moved', ['C07'], ['PAR-6'], 'strict exit happens after recovery-only bookkeeping',
     (PYPARSER, "        if not self._error_recovery:\n            return super().error_recovery(token)\n",
      "        if token.type == INDENT:\n            self._omit_dedent_list.append(self._indent_counter)\n        if not self._error_recovery:\n            return super().error_recovery(token)\n"))
silent('par-rename-local', ['C01', 'C02', 'C05', 'C07'], 'rename tos_nodes and hoist an alias',
       (PYPARSER, "        tos_nodes = self.stack[-1].nodes\n        if tos_nodes:\n            last_leaf = tos_nodes[-1].get_last_leaf()",
        "        top_nodes = self.stack[-1].nodes\n        if top_nodes:\n            last_leaf = top_nodes[-1].get_last_leaf()"))
silent('par-early-return-form', ['C01', 'C02'], '_stack_removal computes its result before deleting',
       (PYPARSER, "        self.stack[start_index:] = []\n        return bool(all_nodes)", "        found = bool(all_nodes)\n        self.stack[start_index:] = []\n        return found"))
silent('par-add-helper', ['C05', 'C01'], 'unused private helper added to the parser module',
       (PYPARSER, "NAME = PythonTokenTypes.NAME\n", "NAME = PythonTokenTypes.NAME\n\n\ndef _describe(token):\n    return '%s %r' % (token.type.name, token.string)\n\n"))

# ---------------------------------------------------------------------------------------------------------
# generator / grammars
# ---------------------------------------------------------------------------------------------------------
fire('gen-conflict-silent', ['C08'], ['GEN-1'], 'a FIRST/FIRST conflict is resolved silently when pushes are empty',
     (GEN, "                    if transition in transitions:", "                    if transition in transitions and pushes:"))
fire('gen-sentinel-late', ['C08'], ['GEN-2'], 'left-recursion sentinel removed',
     (GEN, "    first_plans[nonterminal] = None  # dummy to detect left recursion", "    pass"))
fire('gen-eq-ignores-final', ['C08'], ['GEN-3'], 'DFAState.__eq__ ignores finality',
     (GEN, "        if self.is_final != other.is_final:\n            return False", "        if False:\n            return False"))
fire('gen-merge-unequal', ['C08'], ['GEN-3'], 'states with the same number of arcs are merged',
     (GEN, "                if state_i == state_j:", "                if state_i == state_j or (len(state_i.arcs) == len(state_j.arcs) > 3):"))
fire('gr-left-recursion', ['C06', 'C02'], ['GR-2'], 'a rule of grammar 3.9 becomes left recursive',
     (G('39'), "\nterm: factor (('*'|'@'|'/'|'%'|'//') factor)*\n", "\nterm: term ('*'|'@'|'/'|'%'|'//') factor | factor\n"))
fire('gr-first-first', ['C06', 'C02'], ['GR-3'], 'two alternatives of one rule start with the same token',
     (G('310'), "\ndel_stmt: 'del' exprlist\n", "\ndel_stmt: 'pass' exprlist\n"))
fire('gr-first-follow', ['C06'], ['GR-4'], 'an optional tail can start with a token that may follow the rule',
     (G('312'), "\ndotted_name: NAME ('.' NAME)*\n", "\ndotted_name: NAME ('.' NAME)* ['as' NAME]\n"))
fire('gr-unknown-token', ['C06', 'C02'], ['GR-1'], 'a grammar mentions a token type that does not exist',
     (G('38'), "\npass_stmt: 'pass'\n", "\npass_stmt: 'pass' | BACKQUOTE\n"))
fire('gr-unproducible-terminal', ['C06', 'C12'], ['GR-5'], 'a grammar uses an operator the tokenizer never produces',
     (G('311'), "augassign: ('+=' |", "augassign: ('?=' | '+=' |"))
fire('gr-narrowed-version', ['C12'], ['GR-11'], 'grammar 3.9 loses the else clause of while although 3.8 and 3.10 have it',
     (G('39'), "while_stmt: 'while' namedexpr_test ':' suite ['else' ':' suite]", "while_stmt: 'while' namedexpr_test ':' suite"))
fire('gr-rule-missing-in-middle', ['C12'], ['GR-11'], 'grammar 3.10 loses the nonlocal statement',
     (G('310'), "global_stmt | nonlocal_stmt | assert_stmt", "global_stmt | assert_stmt"),
     (G('310'), "\nnonlocal_stmt: 'nonlocal' NAME (',' NAME)*\n", "\n"))
fire('gr-indent-elsewhere', ['C01', 'C05'], ['GR-6'], 'INDENT/DEDENT used outside suite',
     (G('313'), "\nsuite: simple_stmt | NEWLINE INDENT stmt+ DEDENT\n", "\nsuite: simple_stmt | NEWLINE INDENT stmt+ DEDENT | NEWLINE INDENT DEDENT NEWLINE\n"))
fire('gr-new-container', ['C14'], ['GR-8a'], 'a new compound statement can contain functions but is not a container type',
     (G('314'), "compound_stmt: if_stmt |", "compound_stmt: guard_stmt | if_stmt |"),
     (G('314'), "\nwhile_stmt:", "\nguard_stmt: 'guard' namedexpr_test ':' suite\nwhile_stmt:"))
fire('gr-new-binder', ['C14'], ['GR-8b'], 'a new expression rule binds a name with := but is no definition type',
     (G('314'), "\nsliceop: ':' [test]\n", "\nsliceop: ':' [test] | ':' NAME ':=' test\n"))
silent('gr-reformat', ['C06', 'C08', 'C12', 'C14'], 'comment and blank line added to a grammar file',
       (G('312'), "\npass_stmt: 'pass'\n", "\n# the simplest statement\n\npass_stmt: 'pass'\n"))
silent('gr-equivalent-rewrite', ['C06', 'C08', 'C12'], 'equivalent rewrite of a rule (option instead of alternative)',
       (G('38'), "\nreturn_stmt: 'return' [testlist_star_expr]\n", "\nreturn_stmt: 'return' | 'return' testlist_star_expr\n")) if False else None

# ---------------------------------------------------------------------------------------------------------
# utils / prefix
# ---------------------------------------------------------------------------------------------------------
fire('utils-nlb-missing', ['C03', 'C15', 'C01'], ['RX-3'], 'NEL removed from _NON_LINE_BREAKS',
     (UTILS, "    '\\x85',  # Next Line (NEL - Equivalent to CR+LF.\n             # Used to mark end-of-line on some IBM mainframes.)\n", ""))
fire('utils-split-order', ['C03', 'C15', 'C01'], ['RX-4'], '\\r listed before \\r\\n in the line-break pattern',
     (UTILS, "        return re.split(r'\\n|\\r\\n|\\r', string)", "        return re.split(r'\\n|\\r|\\r\\n', string)"))
fire('utils-split-ff', ['C03', 'C15', 'C01'], ['RX-4'], 'form feed becomes a line break when ends are dropped',
     (UTILS, "        return re.split(r'\\n|\\r\\n|\\r', string)", "        return re.split(r'\\n|\\r\\n|\\r|\\f', string)"))
fire('utils-merge-loses-text', ['C01', 'C15'], ['RX-4'], 'merging of split pieces drops the right neighbour',
     (UTILS, "                lst[index] = lst[index] + lst[index + 1]\n                del lst[index + 1]", "                lst[index + 1]\n                del lst[index + 1]"))
fire('utils-cookie-unanchored', ['C15'], ['RX-5'], 'the coding declaration no longer needs to be a comment',
     (UTILS, 'br"[ \\t\\f]*#[^\\r\\n]*?coding[:=][ \\t]*([-\\w.]+)",', 'br"[^\\r\\n]*?coding[:=][ \\t]*([-\\w.]+)",'))
fire('utils-cookie-third-line', ['C15'], ['RX-5'], 'a declaration on the third line is honoured',
     (UTILS, 'br"(?:[ \\t\\f]*(?:#[^\\r\\n]*)?(?:\\r\\n|\\r|\\n))??"', 'br"(?:[ \\t\\f]*(?:#[^\\r\\n]*)?(?:\\r\\n|\\r|\\n)){0,2}?"'))
fire('utils-cookie-needs-space', ['C15'], ['RX-5'], 'parso misses declarations without a space after the colon ... it requires one',
     (UTILS, 'coding[:=][ \\t]*([-\\w.]+)",', 'coding[:=][ \\t]+([-\\w.]+)",'))
fire('prefix-comment-no-ff', ['C09', 'C20'], ['RX-1'], 'prefix comments stop at form feeds again',
     (PREFIX, "_comment = r'#(?:[^\\n\\r]*[^\\n\\r\\f])?'", "_comment = r'#[^\\n\\r\\f]*'"))
fire('prefix-backslash-cr', ['C09', 'C20'], ['RX-1'], 'backslash continuation before a lone \\r is not recognised',
     (PREFIX, "_backslash = r'\\\\\\r?\\n|\\\\\\r'", "_backslash = r'\\\\\\r?\\n'"))
fire('prefix-type-missing', ['C09', 'C20'], ['RX-1'], 'the form feed part has no entry in _types',
     (PREFIX, "    '\\f': 'formfeed',\n", ""))
silent('prefix-regex-rewrite', ['C09', 'C20'], 'equivalent rewrite of the newline alternative',
       (PREFIX, "_newline = r'\\r?\\n|\\r'", "_newline = r'\\r\\n|\\n|\\r'"))
silent('utils-rename', ['C03', 'C15', 'C01'], 'rename a local of split_lines',
       (UTILS, "        merge = []\n        for i, line in enumerate(lst):", "        merge = []\n        for i, line in enumerate(lst):\n            current = line"))

# ---------------------------------------------------------------------------------------------------------
# tree
# ---------------------------------------------------------------------------------------------------------
fire('tree-get-code-strip', ['C01', 'C19'], ['TREE-0'], 'leaf code drops the prefix',
     (TREE, "            return self.prefix + self.value\n        else:\n            return self.value", "            return self.value\n        else:\n            return self.value"))
fire('tree-children-filtered', ['C01', 'C19'], ['TREE-0'], 'node code skips zero-width children',
     (TREE, '            return "".join(c.get_code() for c in children)\n        else:', '            return "".join(c.get_code() for c in children if c.get_code())[:10 ** 6]\n        else:'))
fire('tree-parent-not-set', ['C11', 'C19'], ['TREE-1'], 'BaseNode.__init__ no longer sets the parent of its children',
     (TREE, "        for child in children:\n            child.parent = self\n", "        for child in children[:0]:\n            pass\n"))
fire('tree-diff-parent', ['C04', 'C11'], ['TREE-1'], 'the diff parser re-homes children without resetting their parent',
     (DIFF, "        for node in children:\n            node.parent = self.tree_node\n", ""))
fire('tree-eq-by-value', ['C11'], ['TREE-2'], 'operators compare equal by value',
     (PYTREE, "class Operator(_LeafWithoutNewlines, _StringComparisonMixin):\n    type = 'operator'\n    __slots__ = ()",
      "class Operator(_LeafWithoutNewlines, _StringComparisonMixin):\n    type = 'operator'\n    __slots__ = ()\n\n    def __eq__(self, other):\n        return getattr(other, 'value', other) == self.value\n\n    __hash__ = _StringComparisonMixin.__hash__"))
fire('tree-sibling-eq', ['C11'], ['TREE-2'], 'sibling lookup uses == instead of is',
     (TREE, "        # Can't use index(); we need to test by identity\n        for i, child in enumerate(parent.children):\n            if child is self:\n                try:",
      "        # Can't use index(); we need to test by identity\n        for i, child in enumerate(parent.children):\n            if child == self:\n                try:"))
fire('tree-memo-not-reset', ['C04', 'C03', 'C14'], ['TREE-6'], 'DiffParser.update no longer resets Module._used_names',
     (DIFF, "        self._module._used_names = None\n", ""))
fire('tree-new-memo', ['C04', 'C03', 'C14'], ['TREE-6'], 'a second memo slot is added to Module and never reset',
     (PYTREE, "    __slots__ = ('_used_names',)\n    type = 'file_input'\n\n    def __init__(self, children):\n        super().__init__(children)\n        self._used_names = None\n",
      "    __slots__ = ('_used_names', '_future_names')\n    type = 'file_input'\n\n    def __init__(self, children):\n        super().__init__(children)\n        self._used_names = None\n        self._future_names = None\n\n    def get_future_names(self):\n        if self._future_names is None:\n            self._future_names = list(self._iter_future_import_names())\n        return self._future_names\n"))
fire('tree-close-skipped', ['C04'], ['TREE-6'], 'update returns early without writing the nodes back',
     (DIFF, "        self._nodes_tree.close()\n", "        if opcodes:\n            self._nodes_tree.close()\n"))
fire('tree-dump-signature', ['C19'], ['TREE-3'], 'ErrorLeaf.__init__ takes value before token_type',
     (TREE, "    def __init__(self, token_type, value, start_pos, prefix=''):\n        super().__init__(value, start_pos, prefix)\n        self.token_type = token_type",
      "    def __init__(self, value, token_type, start_pos, prefix=''):\n        super().__init__(value, start_pos, prefix)\n        self.token_type = token_type"))
fire('tree-slot-missing', ['C19'], ['TREE-4'], 'a tree class assigns an attribute that is no slot',
     (PYTREE, "class Decorator(PythonBaseNode):\n    type = 'decorator'\n    __slots__ = ()\n",
      "class Decorator(PythonBaseNode):\n    type = 'decorator'\n    __slots__ = ()\n\n    def __init__(self, children):\n        super().__init__(children)\n        self.is_builtin = False\n"))
fire('tree-regroup-twice', ['C19'], ['TREE-7'], 'Lambda groups its parameters unconditionally',
     (PYTREE, "        if not any(isinstance(child, Param) for child in parameters_children):\n            self.children[1:-2]", "        if True:\n            self.children[1:-2]"))
fire('tree-refactor-reads-config', ['C19'], ['TREE-5'], 'an inherited method reachable from walk() reads an attribute only Normalizer.__init__ sets',
     (NORMALIZER, "    def visit_leaf(self, leaf):\n        self._check_type_rules(leaf)\n", "    def visit_leaf(self, leaf):\n        self._check_type_rules(leaf)\n        if self._config is None:\n            return leaf.value\n"))
fire('tree-newline-fast-endpos', ['C03'], ['TREE-8'], 'Newline leaves get the single-line end_pos shortcut',
     (PYTREE, 'class Newline(PythonLeaf):\n    """Contains NEWLINE and ENDMARKER tokens."""', 'class Newline(_LeafWithoutNewlines):\n    """Contains NEWLINE and ENDMARKER tokens."""'))
silent('tree-rename-loop-var', ['C11', 'C19', 'C01'], 'rename the loop variable in BaseNode.__init__',
       (TREE, "        for child in children:\n            child.parent = self\n", "        for kid in children:\n            kid.parent = self\n"))
silent('tree-add-method', ['C11', 'C19', 'C04'], 'new read-only helper on BaseNode',
       (TREE, "    def get_first_leaf(self):\n        return self.children[0].get_first_leaf()\n", "    def get_first_leaf(self):\n        return self.children[0].get_first_leaf()\n\n    def count_children(self):\n        return len(self.children)\n"))

# ---------------------------------------------------------------------------------------------------------
# errors / normalizer / pep8
# ---------------------------------------------------------------------------------------------------------
fire('err-unbound-local', ['C13'], ['DA'], 'testlist_comp is bound only on one branch again',
     (ERRORS, "            testlist_comp = child.children[1]\n            if child.children[0] == '(':\n", "            if child.children[0] == '(':\n                testlist_comp = child.children[1]\n"))
fire('err-error-leaf-silent', ['C13'], ['NORM-1'], 'line-continuation error leaves are not reported',
     (ERRORS, "                if leaf.value.startswith('\\\\'):\n                    message = 'unexpected character after line continuation character'\n                else:",
      "                if leaf.value.startswith('\\\\'):\n                    return ''\n                else:"))
fire('err-rule-wrong-base', ['C13'], ['NORM-3'], 'a registered rule derives from Rule directly (no code, no prefix)',
     (ERRORS, "class _NonlocalModuleLevelRule(SyntaxRule):", "class _NonlocalModuleLevelRule(Rule):"))
fire('err-last-issue-wins', ['C13'], ['NORM-4'], 'the last issue of a line replaces the first',
     (ERRORS, "        self._error_dict.setdefault(line, args)", "        self._error_dict[line] = args"))
fire('err-mutates-tree', ['C13'], ['EFF-2'], 'a rule rewrites a leaf prefix while checking',
     (ERRORS, "    def is_issue(self, leaf):\n        self._normalizer.context.add_name(leaf)\n", "    def is_issue(self, leaf):\n        leaf.prefix = leaf.prefix.replace('\\t', ' ')\n        self._normalizer.context.add_name(leaf)\n"))
fire('err-issue-args', ['C13'], ['SIG-K', 'SIG'], 'add_issue called with message and code swapped',
     (ERRORS, '        self.add_issue(node, 901, "SyntaxError: " + message)', '        self.add_issue(node, "SyntaxError: " + message, 901)'))
fire('err-dispatch-unfiltered', ['C12'], ['NORM-8'], 'value rules are fed every leaf again',
     (NORMALIZER, "        if leaf.type in ('keyword', 'operator'):\n            for rule in self._rule_value_instances.get(leaf.value, []):\n                rule.feed_node(leaf)",
      "        for rule in self._rule_value_instances.get(leaf.value, []):\n            rule.feed_node(leaf)"))
fire('err-set-iteration', ['C13', 'C18'], ['EFF-4'], 'issues are generated while iterating over a set',
     (ERRORS, "        for argument in node.children:\n            if argument == ',':\n                continue\n", "        for argument in set(node.children):\n            if argument == ',':\n                continue\n"))
fire('pep8-pop-unguarded', ['C20'], ['NORM-6'], 'the implicit-node pop at a comma loses its guard',
     (PEP8, "        if value == ',' and part.parent.type == 'dictorsetmaker' \\\n                and self._indentation_tos.type == IndentationTypes.IMPLICIT:", "        if value == ',' and part.parent.type == 'dictorsetmaker':"))
fire('pep8-bracket-any-leaf', ['C20'], ['NORM-6'], 'bracket recognition by text for every kind of leaf',
     (PEP8, "        if type_ == 'operator' and value in '()[]{}' \\\n", "        if value and value in '()[]{}' and type_ != 'error_leaf' \\\n"))
fire('pep8-issue-args', ['C20'], ['SIG-K'], 'add_issue called with (code, message, node)',
     (PEP8, "                    self.add_issue(leaf, 741, message % 'variables')", "                    self.add_issue(741, message % 'variables', leaf)"))
fire('pep8-unbound', ['C20'], ['DA'], 'a local of _check_spacing is read before assignment on one path',
     (PEP8, "        spaces = spacing.value\n        prev = self._previous_part\n", "        prev = self._previous_part\n        if prev is not None:\n            spaces = spacing.value\n"))
fire('pep8-dup-issues', ['C20', 'C13'], ['NORM-5'], 'issues are appended without the duplicate test',
     (NORMALIZER, "        if issue not in self.issues:\n            self.issues.append(issue)", "        self.issues.append(issue)"))
fire('pep8-292-one-style', ['C20'], ['NORM-9'], '292 only knows \\n',
     (PEP8, "            if (not prefix.endswith('\\n') and not prefix.endswith('\\r') and (", "            if (not prefix.endswith('\\n') and ("))
silent('pep8-rename', ['C20'], 'rename a local in _visit_part',
       (PEP8, "        node = self._indentation_tos\n\n        if type_ == 'comment':", "        node = self._indentation_tos\n        top = node\n\n        if type_ == 'comment':"))
silent('err-reorder', ['C13', 'C12'], 'swap two independent statements in ErrorFinder.__init__',
       (ERRORS, "        self._error_dict = {}\n        self.version = self.grammar.version_info", "        self.version = self.grammar.version_info\n        self._error_dict = {}"))

# ---------------------------------------------------------------------------------------------------------
# helpers of python/tree.py
# ---------------------------------------------------------------------------------------------------------
fire('tree-yield-any-leaf', ['C14'], ['TC-1'], 'iter_yield_exprs compares the text of every leaf again',
     (PYTREE, "                    if element.type == 'keyword' and element.value == 'yield':", "                    if element.value == 'yield':"))
fire('tree-container-missing', ['C14'], ['GR-8a'], 'async_stmt removed from the flow containers',
     (PYTREE, "                        'with_stmt', 'async_stmt', 'suite'])", "                        'with_stmt', 'suite'])"))
fire('tree-deftype-missing', ['C14'], ['GR-8b'], 'del_stmt removed from the definition types',
     (PYTREE, "    'import_from', 'param', 'del_stmt', 'namedexpr_test',", "    'import_from', 'param', 'namedexpr_test',"))
silent('tree-container-reorder', ['C14'], 'reorder the members of a container table',
       (PYTREE, "_FLOW_CONTAINERS = set(['if_stmt', 'while_stmt', 'for_stmt', 'try_stmt',", "_FLOW_CONTAINERS = set(['while_stmt', 'if_stmt', 'for_stmt', 'try_stmt',"))

# ---------------------------------------------------------------------------------------------------------
# cache / grammar
# ---------------------------------------------------------------------------------------------------------
fire('cache-narrow-handler', ['C17'], ['EXC-1'], 'loading only treats a missing file as a miss again',
     (CACHE, "    except Exception:\n        # A missing, unreadable", "    except FileNotFoundError:\n        # A missing, unreadable"))
fire('cache-save-unprotected', ['C17'], ['EXC-1'], 'OSError while saving escapes again',
     (CACHE, "        except (OSError, pickle.PicklingError, RecursionError):", "        except (pickle.PicklingError, RecursionError):"))
fire('cache-cleanup-unprotected', ['C17'], ['EXC-1'], 'clean-up runs outside any handler',
     (CACHE, "            try:\n                _remove_cache_and_update_lock(cache_path=cache_path)\n            except OSError:\n                pass", "            _remove_cache_and_update_lock(cache_path=cache_path)"))
fire('cache-writer-other-path', ['C17', 'C16'], ['CACHE-4'], 'the writer ignores the cache_path argument',
     (CACHE, "    with open(_get_hashed_path(hashed_grammar, path, cache_path=cache_path), 'wb') as f:", "    with open(_get_hashed_path(hashed_grammar, path), 'wb') as f:"))
fire('cache-append-mode', ['C17'], ['CACHE-4'], 'the writer appends instead of truncating',
     (CACHE, "cache_path=cache_path), 'wb') as f:", "cache_path=cache_path), 'ab') as f:"))
fire('cache-key-swapped', ['C16'], ['CACHE-1'], 'memory cache addressed by path only',
     (CACHE, "    parser_cache.setdefault(hashed_grammar, {})[path] = module_cache_item", "    parser_cache.setdefault(path, {})[path] = module_cache_item"))
fire('cache-freshness-direction', ['C16'], ['CACHE-2'], 'stale memory entries count as fresh',
     (CACHE, "        if p_time <= module_cache_item.change_time:", "        if p_time >= module_cache_item.change_time:"))
fire('cache-no-freshness', ['C16'], ['CACHE-2'], 'disk entries are loaded without a freshness test',
     (CACHE, "        if p_time > os.path.getmtime(cache_path):\n            # Cache is outdated\n            return None\n", ""))
fire('cache-path-without-hash', ['C16'], ['CACHE-4'], 'pickle file name no longer depends on the grammar hash',
     (CACHE, "    return os.path.join(directory, '%s-%s.pkl' % (hashed_grammar, file_hash))", "    return os.path.join(directory, '%s.pkl' % (file_hash,))"))
fire('cache-version-tag', ['C16'], ['CACHE-4'], 'version tag without the pickle version',
     (CACHE, "_VERSION_TAG = '%s-%s%s-%s' % (\n    platform.python_implementation(),\n    sys.version_info[0],\n    sys.version_info[1],\n    _PICKLE_VERSION\n)",
      "_VERSION_TAG = '%s-%s%s' % (\n    platform.python_implementation(),\n    sys.version_info[0],\n    sys.version_info[1],\n)"))
fire('grammar-hash-constant', ['C16'], ['GR-9', 'CACHE-1'], 'grammar hash computed from the class name instead of the text',
     (GRAMMAR, '        self._hashed = hashlib.sha256(text.encode("utf-8")).hexdigest()', '        self._hashed = hashlib.sha256(type(self).__name__.encode("utf-8")).hexdigest()'))
fire('grammar-diff-key', ['C16'], ['CACHE-1'], 'diff_cache looks the old module up under the path only',
     (GRAMMAR, "                module_cache_item = parser_cache[self._hashed][file_io.path]\n            except KeyError:\n                pass",
      "                module_cache_item = parser_cache[file_io.path][file_io.path]\n            except KeyError:\n                pass"))
silent('cache-rename', ['C16', 'C17'], 'rename a local of load_module',
       (CACHE, "    p_time = file_io.get_last_modified()\n    if p_time is None:\n        return None\n\n    try:\n        module_cache_item = parser_cache[hashed_grammar][file_io.path]\n        if p_time <= module_cache_item.change_time:",
        "    mtime = file_io.get_last_modified()\n    p_time = mtime\n    if p_time is None:\n        return None\n\n    try:\n        module_cache_item = parser_cache[hashed_grammar][file_io.path]\n        if p_time <= module_cache_item.change_time:"))

# ---------------------------------------------------------------------------------------------------------
# shared state (C18)
# ---------------------------------------------------------------------------------------------------------
fire('eff-mutate-plan', ['C18'], ['EFF-1'], 'the parser reverses the shared push list of a plan',
     (PARSER, "        for push in plan.dfa_pushes:", "        plan.dfa_pushes.reverse()\n        for push in plan.dfa_pushes:"))
fire('eff-class-table', ['C18'], ['EFF-1'], 'convert_leaf memoises into the class-level leaf map',
     (PYPARSER, "        return self._leaf_map.get(type, tree.Operator)(value, start_pos, prefix)", "        self._leaf_map.setdefault(type, tree.Operator)\n        return self._leaf_map.get(type, tree.Operator)(value, start_pos, prefix)"))
fire('eff-token-collection', ['C18'], ['EFF-1'], 'the tokenizer edits the shared set of always-break tokens',
     (TOK, "    paren_level = 0  # count parentheses\n    if indents is None:", "    paren_level = 0  # count parentheses\n    always_break_tokens.discard('print')\n    if indents is None:"))
fire('eff-module-global', ['C18'], ['EFF-1'], 'a module-level list collects every parsed start symbol',
     (PARSER, "class ParserSyntaxError(Exception):", "_seen_start_symbols = []\n\n\nclass ParserSyntaxError(Exception):"),
     (PARSER, "        self.stack = Stack([StackNode(first_dfa)])\n", "        self.stack = Stack([StackNode(first_dfa)])\n        _seen_start_symbols.append(self._start_nonterminal)\n"))
fire('eff-recursion-limit', ['C18'], ['EFF-3'], 'parsing raises the recursion limit of the process',
     (PARSER, "        first_dfa = self._pgen_grammar.nonterminal_to_dfas[self._start_nonterminal][0]", "        import sys\n        sys.setrecursionlimit(10000)\n        first_dfa = self._pgen_grammar.nonterminal_to_dfas[self._start_nonterminal][0]"))
fire('eff-parser-stored', ['C18'], ['EFF-5'], 'the grammar keeps the last parser object',
     (GRAMMAR, "        root_node = p.parse(tokens=tokens)\n", "        self._last_parser = p\n        root_node = p.parse(tokens=tokens)\n"))
fire('eff-rules-on-class', ['C18'], ['EFF-5', 'EFF-1'], 'rule instances are cached on the normalizer class',
     (NORMALIZER, "        self._rule_type_instances = self._instantiate_rules('rule_type_classes')", "        type(self)._rule_type_instances = self._instantiate_rules('rule_type_classes')"))
silent('eff-local-list', ['C18'], 'a local list is mutated inside the parser',
       (PARSER, "        for push in plan.dfa_pushes:\n            stack.append(StackNode(push))", "        pushed = []\n        for push in plan.dfa_pushes:\n            pushed.append(push)\n            stack.append(StackNode(push))"))

# GR-10: child indexes vs rule shapes
fire('shape-annassign-guard', ['C14'], ['GR-10'], 'length guard of annassign weakened: children[2] of a two-child annassign',
     (PYTREE, "            if len(first.children) <= 2:\n                return  # No operator is available, it's just PEP 484.", "            if len(first.children) < 2:\n                return  # No operator is available, it's just PEP 484."))
fire('shape-fstring-conversion', ['C13'], ['GR-10'], 'fstring_expr.children[3] read without the "=" test that makes it exist',
     (ERRORS, "        if children_2.type == 'operator' and children_2.value == '=':\n            conversion = fstring_expr.children[3]", "        if children_2.type == 'operator':\n            conversion = fstring_expr.children[3]"))
fire('shape-grammar-short-with-item', ['C13', 'C14'], ['GR-10'], 'a grammar gains a two-child with_item while the helpers read children[2]',
     (G('312'), "\nwith_item: test ['as' expr]\n", "\nwith_item: test ['as' expr] | test '->'\n"))
silent('shape-for-testlist-alias', ['C14'], 'ForStmt.get_testlist through a local',
       (PYTREE, "        return self.children[3]\n", "        testlist = self.children[3]\n        return testlist\n"))
VARIANTS = [v for v in VARIANTS if v is not None]

# ---------------------------------------------------------------------------------------------------------
# second batch: behaviour-preserving refactors (must stay silent)
# ---------------------------------------------------------------------------------------------------------
silent('s-leaf-getcode-format', ['C01', 'C19'], 'Leaf.get_code builds prefix+value with an f-string',
       (TREE, "            return self.prefix + self.value\n        else:\n            return self.value", "            return f'{self.prefix}{self.value}'\n        else:\n            return self.value"))
silent('s-leaf-getcode-early-return', ['C01', 'C19'], 'Leaf.get_code with inverted test',
       (TREE, "        if include_prefix:\n            return self.prefix + self.value\n        else:\n            return self.value", "        if not include_prefix:\n            return self.value\n        return self.prefix + self.value"))
silent('s-pop-inverted', ['C01', 'C05'], '_pop with inverted single-child test',
       (PARSER, "        if len(tos.nodes) == 1:\n            new_node = tos.nodes[0]\n        else:\n            new_node = self.convert_node(tos.dfa.from_rule, tos.nodes)",
        "        if len(tos.nodes) != 1:\n            new_node = self.convert_node(tos.dfa.from_rule, tos.nodes)\n        else:\n            new_node = tos.nodes[0]"))
silent('s-add-token-rename', ['C01', 'C02', 'C05'], 'rename locals of _add_token',
       (PARSER, "        leaf = self.convert_leaf(type_, value, prefix, start_pos)\n        stack[-1].nodes.append(leaf)", "        new_leaf = self.convert_leaf(type_, value, prefix, start_pos)\n        stack[-1].nodes.append(new_leaf)"))
silent('s-stack-removal-del', ['C01'], '_stack_removal deletes with del instead of slice assignment',
       (PYPARSER, "        self.stack[start_index:] = []", "        del self.stack[start_index:]"))
silent('s-error-recovery-extract', ['C01', 'C02', 'C05', 'C07'], 'error_recovery: compute last_leaf with a conditional expression',
       (PYPARSER, "        if tos_nodes:\n            last_leaf = tos_nodes[-1].get_last_leaf()\n        else:\n            last_leaf = None", "        last_leaf = tos_nodes[-1].get_last_leaf() if tos_nodes else None"))
silent('s-recovery-tokenize-alias', ['C07'], '_recovery_tokenize without the local alias',
       (PYPARSER, "                o = self._omit_dedent_list\n                if o and o[-1] == self._indent_counter:\n                    o.pop()", "                if self._omit_dedent_list and self._omit_dedent_list[-1] == self._indent_counter:\n                    self._omit_dedent_list.pop()"))
silent('s-tokenize-endpos', ['C01', 'C09', 'C02'], 'epilogue computes end_pos inline',
       (TOK, "    end_pos = lnum, max_\n", "    end_pos = (lnum, max_)\n"))
fire('tokenize-indent-order', ['C04'], ['TOK-4'], 'push on the indentation stack before yielding INDENT: the incremental parser looks at len(indents) when the token after a NEWLINE arrives (was listed as harmless; 10 diff-parser tests fail with it)',
       (TOK, "                        yield PythonToken(INDENT, '', spos, '')\n                        indents.append(indent_start)", "                        indents.append(indent_start)\n                        yield PythonToken(INDENT, '', spos, '')"))
silent('s-tokenize-whitespace-class-order', ['C09', 'C10', 'C01'], 'character class written in another order',
       (TOK, "    Whitespace = r'[ \\f\\t]*'", "    Whitespace = r'[\\t\\f ]*'"))
silent('s-prefix-types-reorder', ['C09', 'C20'], 'reorder the entries of prefix._types',
       (PREFIX, "    '#': 'comment',\n    '\\\\': 'backslash',", "    '\\\\': 'backslash',\n    '#': 'comment',"))
silent('s-cache-load-rename', ['C16', 'C17'], 'rename the pickle path local in _load_from_file_system',
       (CACHE, "        cache_path = _get_hashed_path(hashed_grammar, path, cache_path=cache_path)\n        if p_time > os.path.getmtime(cache_path):\n            # Cache is outdated\n            return None\n\n        with open(cache_path, 'rb') as f:",
        "        pickle_path = _get_hashed_path(hashed_grammar, path, cache_path=cache_path)\n        if p_time > os.path.getmtime(pickle_path):\n            # Cache is outdated\n            return None\n\n        with open(pickle_path, 'rb') as f:"))
silent('s-cache-freshness-flipped', ['C16'], 'freshness test written the other way round',
       (CACHE, "        if p_time <= module_cache_item.change_time:", "        if module_cache_item.change_time >= p_time:"))
silent('s-cache-handler-tuple', ['C17'], 'save handler lists more exception classes',
       (CACHE, "        except (OSError, pickle.PicklingError, RecursionError):", "        except (OSError, pickle.PickleError, RecursionError, AttributeError):"))
silent('s-cache-hashed-path-fspath', ['C16', 'C17'], 'path hashed through os.fspath (injective)',
       (CACHE, "    file_hash = hashlib.sha256(str(path).encode(\"utf-8\")).hexdigest()", "    file_hash = hashlib.sha256(os.fspath(path).encode(\"utf-8\")).hexdigest()"))
silent('s-errors-add-issue-kw', ['C13'], 'add_issue called with keyword arguments',
       (ERRORS, '        self.add_issue(node, 901, "SyntaxError: " + message)', '        self.add_issue(node, code=901, message="SyntaxError: " + message)'))
silent('s-errors-visit-leaf-split', ['C13', 'C12'], 'ErrorFinder.visit_leaf: message chosen through a helper local',
       (ERRORS, "                if leaf.token_type == 'INDENT':\n                    message = 'unexpected indent'\n                else:\n                    message = 'unindent does not match any outer indentation level'",
        "                message = 'unexpected indent' if leaf.token_type == 'INDENT' \\\n                    else 'unindent does not match any outer indentation level'"))
silent('s-normalizer-visit-leaf-local', ['C12', 'C13', 'C19'], 'Normalizer.visit_leaf through a local list of rules',
       (NORMALIZER, "        if leaf.type in ('keyword', 'operator'):\n            for rule in self._rule_value_instances.get(leaf.value, []):\n                rule.feed_node(leaf)",
        "        if leaf.type in ('keyword', 'operator'):\n            value_rules = self._rule_value_instances.get(leaf.value, [])\n            for rule in value_rules:\n                rule.feed_node(leaf)"))
silent('s-pep8-pop-guard-alias', ['C20'], 'guard of the comma pop through the local alias',
       (PEP8, "        if value == ',' and part.parent.type == 'dictorsetmaker' \\\n                and self._indentation_tos.type == IndentationTypes.IMPLICIT:\n            self._indentation_tos = self._indentation_tos.parent\n\n        node = self._indentation_tos",
        "        node = self._indentation_tos\n        if value == ',' and part.parent.type == 'dictorsetmaker' \\\n                and node.type == IndentationTypes.IMPLICIT:\n            self._indentation_tos = self._indentation_tos.parent\n\n        node = self._indentation_tos"))
silent('s-tree-yield-scan-order', ['C14'], 'iter_yield_exprs tests value before type',
       (PYTREE, "                    if element.type == 'keyword' and element.value == 'yield':", "                    if element.value == 'yield' and element.type == 'keyword':"))
silent('s-tree-parent-loop-comprehension', ['C11', 'C19'], 'diff parser sets parents in a loop with another variable name',
       (DIFF, "        for node in children:\n            node.parent = self.tree_node\n", "        for child_node in children:\n            child_node.parent = self.tree_node\n"))
silent('s-gen-eq-reorder', ['C08'], 'DFAState.__eq__ compares arc counts first',
       (GEN, "        if self.is_final != other.is_final:\n            return False\n        # Can't just return self.arcs == other.arcs, because that\n        # would invoke this method recursively, with cycles...\n        if len(self.arcs) != len(other.arcs):\n            return False",
        "        if len(self.arcs) != len(other.arcs):\n            return False\n        if self.is_final != other.is_final:\n            return False"))
silent('s-gen-first-plans-rename', ['C08'], 'rename a local of _calculate_first_plans',
       (GEN, "    new_first_plans = {}\n    first_plans[nonterminal] = None  # dummy to detect left recursion", "    first_plans[nonterminal] = None  # dummy to detect left recursion\n    new_first_plans = {}"))
silent('s-grammar-parse-local', ['C18', 'C16'], 'Grammar.parse names the parser object differently',
       (GRAMMAR, "        p = self._parser(\n            self._pgen_grammar,\n            error_recovery=error_recovery,\n            start_nonterminal=start_symbol\n        )\n        root_node = p.parse(tokens=tokens)",
        "        parser = self._parser(\n            self._pgen_grammar,\n            error_recovery=error_recovery,\n            start_nonterminal=start_symbol\n        )\n        root_node = parser.parse(tokens=tokens)"))
silent('s-utils-cookie-equivalent', ['C15'], 'equivalent spelling of the declaration pattern',
       (UTILS, 'br"[ \\t\\f]*#[^\\r\\n]*?coding[:=][ \\t]*([-\\w.]+)",', 'br"[ \\t\\f]*#[^\\r\\n]*?coding(?::|=)[\\t ]*([-\\w.]+)",'))
silent('s-utils-split-compiled', ['C03', 'C15', 'C01'], 'line-break pattern with a group',
       (UTILS, "        return re.split(r'\\n|\\r\\n|\\r', string)", "        return re.split(r'(?:\\r\\n|\\n|\\r)', string)"))

# the declaration search written line by line (round-4 seed rt4-C15 and its correct twin)
_COOKIE_OLD = '        possible_encoding = re.match(\n            br"(?:[ \\t\\f]*(?:#[^\\r\\n]*)?(?:\\r\\n|\\r|\\n))??"\n            br"[ \\t\\f]*#[^\\r\\n]*?coding[:=][ \\t]*([-\\w.]+)",\n            source\n        )\n        if possible_encoding:\n            e = possible_encoding.group(1)\n            if not isinstance(e, str):\n                e = str(e, \'ascii\', \'replace\')\n            return _get_normal_encoding_name(e)\n        else:\n            # the default if nothing else has been set -> PEP 263\n            return encoding\n'
fire('utils-cookie-lineloop-dot', ['C15'], ['RX-5'], "line-by-line search whose comment part is `.*?` (crosses a bare \\r in bytes)",
     (UTILS, _COOKIE_OLD, "        cookie_re = re.compile(br'[ \\t\\f]*#.*?coding[:=][ \\t]*([-\\w.]+)')\n        blank_re = re.compile(br'[ \\t\\f]*(?:#[^\\r\\n]*)?(?:\\r\\n|\\r|\\n)')\n        pos = 0\n        for _ in range(2):\n            possible_encoding = cookie_re.match(source, pos)\n            if possible_encoding:\n                e = str(possible_encoding.group(1), 'ascii', 'replace')\n                return _get_normal_encoding_name(e)\n            line = blank_re.match(source, pos)\n            if line is None:\n                break\n            pos = line.end()\n        return encoding\n"))
silent('s-utils-cookie-lineloop', ['C15'], 'line-by-line declaration search with [^\\r\\n]*? (equivalent to the anchored pattern)',
       (UTILS, _COOKIE_OLD, "        cookie_re = re.compile(br'[ \\t\\f]*#[^\\r\\n]*?coding[:=][ \\t]*([-\\w.]+)')\n        blank_re = re.compile(br'[ \\t\\f]*(?:#[^\\r\\n]*)?(?:\\r\\n|\\r|\\n)')\n        pos = 0\n        for _ in range(2):\n            possible_encoding = cookie_re.match(source, pos)\n            if possible_encoding:\n                e = str(possible_encoding.group(1), 'ascii', 'replace')\n                return _get_normal_encoding_name(e)\n            line = blank_re.match(source, pos)\n            if line is None:\n                break\n            pos = line.end()\n        return encoding\n"))

# PAR-11 reserved-word lookup keyed by the token text
fire('par11-normalised-key', ['C06', 'C05'], ['PAR-11'], 'the reserved-word lookup NFKC-normalises non-ASCII token text first',
     (PARSER, "        # Check for reserved words (keywords)\n        try:", "        # Check for reserved words (keywords)\n        if not value.isascii():\n            import unicodedata\n            value = unicodedata.normalize('NFKC', value)\n        try:"))
fire('par11-casefold-leaf', ['C06', 'C05'], ['PAR-11'], 'convert_leaf decides keyword-ness on the lower-cased text',
     (PYPARSER, "            if value in self._pgen_grammar.reserved_syntax_strings:", "            if value.lower() in self._pgen_grammar.reserved_syntax_strings:"))
fire('par11-caller-strips', ['C06', 'C05'], ['PAR-11'], 'the engine strips the token text before mapping it to a transition',
     (PARSER, "        transition = _token_to_transition(grammar, type_, value)", "        transition = _token_to_transition(grammar, type_, value.strip())"))
silent('s-par11-alias', ['C06', 'C05'], 'the lookup key goes through a local alias',
       (PARSER, "            return grammar.reserved_syntax_strings[value]", "            key = value\n            return grammar.reserved_syntax_strings[key]"))
silent('s-par11-membership', ['C06', 'C05'], 'convert_leaf binds the table to a local first',
       (PYPARSER, "            if value in self._pgen_grammar.reserved_syntax_strings:", "            reserved = self._pgen_grammar.reserved_syntax_strings\n            if value in reserved:"))

# TOK-9 line cut vs f-string closer
fire('tok9-closer-top-only', ['C02', 'C09'], ['TOK-9'], 'the f-string closer only looks at the innermost f-string',
     (TOK, "    for fstring_stack_index, node in enumerate(fstring_stack):\n", "    for fstring_stack_index in [len(fstring_stack) - 1]:\n        node = fstring_stack[-1]\n"))
silent('s-tok9-closer-reversed', ['C02', 'C09'], 'the closer names its loop variables differently',
       (TOK, "    for fstring_stack_index, node in enumerate(fstring_stack):\n        # Only the tokenizer's own whitespace may end up in a prefix.\n        lstripped_string = string.lstrip(' \\f\\t')\n        len_lstrip = len(string) - len(lstripped_string)\n        if lstripped_string.startswith(node.quote):",
        "    for i, fnode in enumerate(fstring_stack):\n        # Only the tokenizer's own whitespace may end up in a prefix.\n        lstripped_string = string.lstrip(' \\f\\t')\n        len_lstrip = len(string) - len(lstripped_string)\n        node = fnode\n        fstring_stack_index = i\n        if lstripped_string.startswith(fnode.quote):"))

# GEN-5 EBNF -> NFA fragments
GP = 'parso/pgen2/grammar_parser.py'
fire('gen5-alt-joins-on-first-end', ['C08'], ['GEN-5'], 'alternatives are joined on the end state of the first alternative (rt4-C08)',
     (GP, "            zz = NFAState(self._current_rule_name)\n            while True:", "            zz = z\n            while True:"))
fire('gen5-alt-shares-start', ['C08'], ['GEN-5'], 'alternatives start in the start state of the first alternative',
     (GP, "            aa = NFAState(self._current_rule_name)\n            zz = NFAState(self._current_rule_name)\n            while True:", "            aa = a\n            zz = NFAState(self._current_rule_name)\n            while True:"))
fire('gen5-star-is-plus', ['C08'], ['GEN-5'], 'X* returns (a, z): at least one repetition is required',
     (GP, "            else:\n                return self._make_skippable(a, z)\n", "            else:\n                return a, z\n"))
fire('gen5-optional-no-bypass', ['C08'], ['GEN-5'], '[X] and X* lack the epsilon arc around X',
     (GP, "        aa.add_arc(a)\n        aa.add_arc(zz)\n        z.add_arc(zz)\n", "        aa.add_arc(a)\n        z.add_arc(zz)\n"))
fire('gen5-plus-wrong-direction', ['C08'], ['GEN-5'], 'the repetition arc of X+ / X* points forwards',
     (GP, "            z.add_arc(a)\n", "            a.add_arc(z)\n"))
fire('gen5-items-chain-from-start', ['C08'], ['GEN-5'], 'the next item is chained to the start of the sequence instead of its end',
     (GP, "            b.add_arc(c)\n", "            a.add_arc(c)\n"))
fire('gen5-group-optional', ['C08'], ['GEN-5'], '(X) is treated like [X]',
     (GP, "            self._expect(PythonTokenTypes.OP, ')')\n            return a, z", "            self._expect(PythonTokenTypes.OP, ')')\n            a.add_arc(z)\n            return a, z"))
fire('gen5-skip-reuses-inner-states', ['C08'], ['GEN-5'], '[X] and X* reuse the start / end state of X for the skip arc (F18 reverted)',
     (GP, "            return self._make_skippable(a, z)\n        else:", "            a.add_arc(z)\n            return a, z\n        else:"),
     (GP, "            else:\n                return self._make_skippable(a, z)\n", "            else:\n                return a, a\n"))
silent('s-gen5-test-order', ['C08'], 'the repetition operators are tested in another order',
       (GP, "            if value == \"+\":\n                return a, z\n            else:\n                return self._make_skippable(a, z)\n",
        "            if value == \"*\":\n                return self._make_skippable(a, z)\n            return a, z\n"))
silent('s-gen5-skip-inlined', ['C08'], 'the skip construction is written out at the optional site instead of calling the helper',
       (GP, "            return self._make_skippable(a, z)\n        else:", "            aa = NFAState(self._current_rule_name)\n            zz = NFAState(self._current_rule_name)\n            aa.add_arc(a)\n            z.add_arc(zz)\n            aa.add_arc(zz)\n            return aa, zz\n        else:"))
silent('s-gen5-alt-always-fresh', ['C08'], 'a single alternative also gets fresh start and end states',
       (GP, "        if self.value != \"|\":\n            return a, z\n        else:\n", "        if False:\n            return a, z\n        else:\n"))

# MEMO-1 key completeness of the write-once memos
fire('memo1-grammar-key-path-only', ['C18'], ['MEMO-1'], 'the loaded-grammar memo is keyed by the path only again (F17 reverted)',
     (GRAMMAR, "    key = path, version_info.major, version_info.minor\n", "    key = path\n"))
fire('memo1-second-memo-by-version', ['C18'], ['MEMO-1'], 'a second memo keyed by the version also stores custom-path grammars (rt5-C18)',
     (GRAMMAR, "            return _loaded_grammars.setdefault(key, grammar)\n", "            _loaded_grammars.setdefault((version_info.major, version_info.minor), grammar)\n            return _loaded_grammars.setdefault(key, grammar)\n"))
fire('memo1-token-collection-constant-key', ['C18'], ['MEMO-1'], 'the token-collection memo ignores the version',
     (TOK, "        _token_collection_cache[tuple(version_info)] = result = \\\n", "        _token_collection_cache['tc'] = result = \\\n"))
silent('s-memo1-key-inline', ['C18'], 'the grammar memo key is written inline at both sites',
       (GRAMMAR, "        return _loaded_grammars[key]\n", "        return _loaded_grammars[path, version_info.major, version_info.minor]\n"))

# atomic pickle writer (rt5-C17 and its correct twin)
fire('cache-atomic-writer-unbound-tmp', ['C17'], ['DA'], 'write-to-temporary-then-rename whose clean-up handler reads the temp name although mkstemp itself may have failed',
     (CACHE, "    with open(_get_hashed_path(hashed_grammar, path, cache_path=cache_path), 'wb') as f:\n        pickle.dump(item, f, pickle.HIGHEST_PROTOCOL)\n", "    cache_file = _get_hashed_path(hashed_grammar, path, cache_path=cache_path)\n    directory, name = os.path.split(cache_file)\n    import tempfile\n    try:\n        fd, tmp_path = tempfile.mkstemp(prefix=name + '.', suffix='.tmp', dir=directory)\n        with os.fdopen(fd, 'wb') as f:\n            pickle.dump(item, f, pickle.HIGHEST_PROTOCOL)\n        os.replace(tmp_path, cache_file)\n    except BaseException:\n        try:\n            os.remove(tmp_path)\n        except FileNotFoundError:\n            pass\n        raise\n"))
silent('s-cache-atomic-writer', ['C16', 'C17'], 'the pickle is written to a temporary file and moved into place (mkstemp before the try)',
       (CACHE, "    with open(_get_hashed_path(hashed_grammar, path, cache_path=cache_path), 'wb') as f:\n        pickle.dump(item, f, pickle.HIGHEST_PROTOCOL)\n", "    cache_file = _get_hashed_path(hashed_grammar, path, cache_path=cache_path)\n    directory, name = os.path.split(cache_file)\n    import tempfile\n    fd, tmp_path = tempfile.mkstemp(prefix=name + '.', suffix='.tmp', dir=directory)\n    try:\n        with os.fdopen(fd, 'wb') as f:\n            pickle.dump(item, f, pickle.HIGHEST_PROTOCOL)\n        os.replace(tmp_path, cache_file)\n    except BaseException:\n        try:\n            os.remove(tmp_path)\n        except OSError:\n            pass\n        raise\n"))

# TOK-10 rest of the line kept when the scan is abandoned
fire('tok10-contstr-from-cut-line', ['C01', 'C09'], ['TOK-10'], 'a continued triple-quoted string keeps a slice of the shortened f-string line (rt5-C01)',
     (TOK, "                    contstr_start = spos                    # multiple lines\n                    contstr = line[start:]\n                    contline = line\n",
      "                    contstr_start = spos                    # multiple lines\n                    cut = line[:max_]\n                    cut = cut[:pos] if fstring_stack else cut\n                    contstr = cut[start:]\n                    contline = line\n"))
fire('tok10-continuation-drops-rest', ['C01', 'C09'], ['TOK-10', 'TOK-3'], 'a backslash continuation keeps only the backslash',
     (TOK, "                additional_prefix += prefix + line[start:]\n                break", "                additional_prefix += prefix + initial\n                break"))
silent('s-tok10-rest-alias', ['C01', 'C09'], 'the continued string is stored through a copy of the line variable',
       (TOK, "                    contstr_start = spos                    # multiple lines\n                    contstr = line[start:]\n                    contline = line\n",
        "                    contstr_start = spos                    # multiple lines\n                    whole = line\n                    contstr = whole[start:]\n                    contline = whole\n"))

# PAR-12 convert_node builds the node of the reduced nonterminal
fire('par12-walrus-argument-node', ['C05'], ['PAR-12'], 'inline walrus arguments / subscripts become NamedExpr nodes (rt5-C05)',
     (PYPARSER, "            node = self.default_node(nonterminal, children)\n        return node", "            elif nonterminal in ('argument', 'subscript') and len(children) == 3 and children[1] == ':=':\n                return tree.NamedExpr(children)\n            node = self.default_node(nonterminal, children)\n        return node"))
fire('par12-default-node-constant-type', ['C05'], ['PAR-12'], 'unknown rules all become generic "atom" nodes',
     (PYPARSER, "            node = self.default_node(nonterminal, children)\n        return node", "            node = self.default_node('atom', children)\n        return node"))
silent('s-par12-explicit-class', ['C05'], 'one rule is special-cased with its own class under a matching test',
       (PYPARSER, "        try:\n            node = self.node_map[nonterminal](children)\n        except KeyError:\n            if nonterminal == 'suite':", "        if nonterminal == 'expr_stmt':\n            return tree.ExprStmt(children)\n        try:\n            node = self.node_map[nonterminal](children)\n        except KeyError:\n            if nonterminal == 'suite':"))

# TREE-9 slot values are picklable
fire('tree9-used-names-mappingproxy', ['C19'], ['TREE-9'], 'the used-names memo stores a types.MappingProxyType (rt5-C19)',
     (PYTREE, "            self._used_names = UsedNamesMapping(dct)", "            import types\n            self._used_names = types.MappingProxyType(dct)"))
fire('tree9-used-names-view', ['C19'], ['TREE-9'], 'the used-names memo stores a dict view',
     (PYTREE, "            self._used_names = UsedNamesMapping(dct)", "            self._used_names = dct.items()"))
silent('s-tree9-used-names-dict', ['C19'], 'the used-names memo stores a plain dict copy',
       (PYTREE, "            self._used_names = UsedNamesMapping(dct)", "            self._used_names = UsedNamesMapping(dict(dct))"))

# GEN-6 memoised closure
fire('gen6-closure-memo-published-early', ['C08'], ['GEN-6'], 'epsilon closure memoised per NFA state, entry stored before the recursion returns (rt2-C08)',
     (GEN, "    def addclosure(nfa_state, base_nfa_set):\n        assert isinstance(nfa_state, NFAState)\n        if nfa_state in base_nfa_set:\n            return\n        base_nfa_set.add(nfa_state)\n        for nfa_arc in nfa_state.arcs:\n            if nfa_arc.nonterminal_or_string is None:\n                addclosure(nfa_arc.next, base_nfa_set)\n",
      "    closures = {}\n\n    def closure(nfa_state):\n        try:\n            return closures[nfa_state]\n        except KeyError:\n            nfa_set = closures[nfa_state] = {nfa_state}\n        for nfa_arc in nfa_state.arcs:\n            if nfa_arc.nonterminal_or_string is None:\n                nfa_set |= closure(nfa_arc.next)\n        return nfa_set\n\n    def addclosure(nfa_state, base_nfa_set):\n        base_nfa_set |= closure(nfa_state)\n"))
silent('s-gen6-closure-memo-complete', ['C08'], 'epsilon closures memoised after they are complete (non-recursive wrapper around the visited-set walk)',
       (GEN, "    base_nfa_set = set()\n    addclosure(start, base_nfa_set)\n", "    done = {}\n\n    def closure_of(nfa_state):\n        if nfa_state not in done:\n            result = set()\n            addclosure(nfa_state, result)\n            done[nfa_state] = result\n        return done[nfa_state]\n\n    base_nfa_set = set(closure_of(start))\n"))

# EFF-6 memoised mutable results
fire('eff6-split-lines-lru-cache', ['C15', 'C03', 'C18', 'C01'], ['EFF-6'], 'the keepends=False splitter is an lru_cache around re.compile(...).split (rt6-C15)',
     (UTILS, "        return re.split(r'\\n|\\r\\n|\\r', string)", "        return _split_without_ends(string)"),
     (UTILS, "def split_lines(string: str, keepends: bool = False)", "import functools\n_split_without_ends = functools.lru_cache(maxsize=512)(re.compile(r'\\n|\\r\\n|\\r').split)\n\n\ndef split_lines(string: str, keepends: bool = False)"))
silent('s-eff6-version-cache', ['C15', 'C03', 'C18', 'C01'], 'version strings are parsed through an lru_cache (immutable result)',
       (UTILS, "def parse_version_string(version: str = None)", "import functools\n\n\n@functools.lru_cache(maxsize=None)\ndef parse_version_string(version: str = None)"))

# GR-8d early exits of Name.get_definition
fire('gr8d-load-only-parents-with-atom', ['C14'], ['GR-8d'], 'a fast path returns None for names directly under "load-only" parents, atom among them (rt6-C14)',
     (PYTREE, "        while node is not None:\n            if node.type == 'suite':\n                return None\n            if node.type in _GET_DEFINITION_TYPES:", "        if type_ in ('or_test', 'and_test', 'comparison', 'arith_expr', 'term', 'atom', 'arglist') and not include_setitem:\n            return None\n\n        while node is not None:\n            if node.type == 'suite':\n                return None\n            if node.type in _GET_DEFINITION_TYPES:"))
silent('s-gr8d-load-only-parents', ['C14'], 'the same fast path without atom: operands of operators are never targets',
       (PYTREE, "        while node is not None:\n            if node.type == 'suite':\n                return None\n            if node.type in _GET_DEFINITION_TYPES:", "        if type_ in ('or_test', 'and_test', 'comparison', 'arith_expr', 'term', 'arglist') and not include_setitem:\n            return None\n\n        while node is not None:\n            if node.type == 'suite':\n                return None\n            if node.type in _GET_DEFINITION_TYPES:"))

# PAR-13 iterative engine
fire('par13-pop-then-recurse', ['C06', 'C02'], ['PAR-13'], 'the reduce loop of _add_token becomes pop-and-call-yourself (rt6-C06)',
     (PARSER, "                if stack[-1].dfa.is_final:\n                    self._pop()\n                else:", "                if stack[-1].dfa.is_final:\n                    self._pop()\n                    return self._add_token(token)\n                else:"))

# GEN-3 verdict expressions
fire('gen3-eq-zips-values', ['C08'], ['GEN-3'], 'DFAState.__eq__ pairs arc targets by position (rt6-C08)',
     (GEN, "        for label, next_ in self.arcs.items():\n            if next_ is not other.arcs.get(label):\n                return False\n        return True", "        if self.arcs.keys() != other.arcs.keys():\n            return False\n        return all(a is b for a, b in zip(self.arcs.values(), other.arcs.values()))"))
silent('s-gen3-eq-all-by-label', ['C08'], 'DFAState.__eq__ written with all() over label-keyed lookups',
       (GEN, "        for label, next_ in self.arcs.items():\n            if next_ is not other.arcs.get(label):\n                return False\n        return True", "        return all(next_ is other.arcs.get(label) for label, next_ in self.arcs.items())"))

# TREE-10 position lookup returns what it located
fire('tree10-prefers-next-leaf', ['C11'], ['TREE-10'], 'an empty leaf at the queried position yields the following leaf instead (rt5-C11)',
     (TREE, "                except AttributeError:\n                    return element\n", "                except AttributeError:\n                    if not element.value and position == element.start_pos:\n                        next_leaf = element.get_next_leaf()\n                        if next_leaf is not None and next_leaf.start_pos == position:\n                            return next_leaf\n                    return element\n"))
silent('s-tree10-named-child', ['C11'], 'the located child is named differently and the recursion bounds are computed in locals',
       (TREE, "            index = int((lower + upper) / 2)\n            element = self.children[index]\n            if position <= element.end_pos:\n                return binary_search(lower, index)\n            else:\n                return binary_search(index + 1, upper)",
        "            middle = int((lower + upper) / 2)\n            candidate = self.children[middle]\n            if position <= candidate.end_pos:\n                return binary_search(lower, middle)\n            return binary_search(middle + 1, upper)"))

# EXC-2 unpickled object validated
fire('exc2-no-type-test', ['C17'], ['EXC-2'], 'the unpickled object is used as an entry without a type test (F19 reverted)',
     (CACHE, "        if not isinstance(module_cache_item, _NodeCacheItem):\n            # A damaged or foreign file can be a valid pickle of something else.\n            return None\n", ""))
silent('s-exc2-test-in-else', ['C17'], 'the type test sits at the top of the else branch',
       (CACHE, "        if not isinstance(module_cache_item, _NodeCacheItem):\n            # A damaged or foreign file can be a valid pickle of something else.\n            return None\n", ""),
       (CACHE, "    else:\n        _set_cache_item(hashed_grammar, path, module_cache_item)\n        LOG.debug('pickle loaded: %s', path)", "    else:\n        if not isinstance(module_cache_item, _NodeCacheItem):\n            return None\n        _set_cache_item(hashed_grammar, path, module_cache_item)\n        LOG.debug('pickle loaded: %s', path)"))

# NORM-12 None-able indentation attributes (F20)
fire('norm12-implicit-adds-to-none', ['C20'], ['NORM-12'], 'ImplicitNode adds a blank to an indentation that may be None (F20 reverted, site 1)',
     (PEP8, " \\\n                and self.indentation is not None:\n            self.indentation += ' '", ":\n            self.indentation += ' '"))
fire('norm12-comment-loop-len-none', ['C20'], ['NORM-12'], 'the comment dedent loop measures an indentation that may be None (F20 reverted, site 2)',
     (PEP8, "                        if n.indentation is None or len(indentation) > len(n.indentation):", "                        if len(indentation) > len(n.indentation):"))
fire('norm12-compare-len-none', ['C20'], ['NORM-12'], 'continuation lines are compared with an expected indentation that may be None (F20 reverted, site 3)',
     (PEP8, "                    elif should_be_indentation is None:\n                        # With tabs there is no visual indentation to compare with.\n                        pass\n", ""))
fire('norm12-hanging-in-vertical', ['C20'], ['NORM-12'], 'a hanging bracket inside a visual indentation adds to None (F20 reverted, site 4)',
     (PEP8, "            if parent_indentation is None:\n                # Inside a visual indentation that tabs cannot express.\n                self.bracket_indentation = self.indentation = None\n            else:\n                self.bracket_indentation = parent_indentation \\\n                    + config.closing_bracket_hanging_indentation\n                self.indentation = parent_indentation + config.indentation\n",
      "            self.bracket_indentation = parent_indentation \\\n                + config.closing_bracket_hanging_indentation\n            self.indentation = parent_indentation + config.indentation\n"))

# NORM-11 per-line state of the prefix splitter (F21)
fire('norm11-bom-offset-leaks', ['C20', 'C13', 'C09'], ['NORM-11'], 'the zero-width BOM correction is applied on every line of the prefix (F21 reverted)',
     (PREFIX, "            column = -start\n            # The BOM has no width, but only the first line contains it.\n            bom = False\n", "            column = -start\n"))
silent('s-norm11-first-line-flag', ['C20', 'C13', 'C09'], 'the BOM correction is expressed with a first-line flag',
       (PREFIX, "            column = -start\n            # The BOM has no width, but only the first line contains it.\n            bom = False\n", "            column, bom = -start, False\n"))

# round-7 rules
FILE_IO = 'parso/file_io.py'
fire('cache6-mtime-memo', ['C16', 'C17'], ['CACHE-6'], 'FileIO.get_last_modified remembers the first modification time it saw (rt7-C16)',
     (FILE_IO, "        try:\n            return os.path.getmtime(self.path)\n        except FileNotFoundError:\n            return None", "        if getattr(self, '_mtime', None) is None:\n            try:\n                self._mtime = os.path.getmtime(self.path)\n            except FileNotFoundError:\n                return None\n        return self._mtime"))
fire('cache7-cleanup-by-mtime', ['C16', 'C17'], ['CACHE-7'], 'the clean-up decides by modification time (rt7-C17)',
     (CACHE, "            if file.stat().st_atime + _CACHED_FILE_MAXIMUM_SURVIVAL <= time.time():", "            if file.stat().st_mtime + _CACHED_FILE_MAXIMUM_SURVIVAL <= time.time():"))
silent('s-cache7-threshold-local', ['C16', 'C17'], 'the clean-up computes the cut-off once and compares the access time with it',
       (CACHE, "        for file in os.scandir(version_path):\n            if file.stat().st_atime + _CACHED_FILE_MAXIMUM_SURVIVAL <= time.time():", "        for file in os.scandir(version_path):\n            last_access = file.stat().st_atime\n            if last_access + _CACHED_FILE_MAXIMUM_SURVIVAL <= time.time():"))
fire('tree11-search-ancestor-single-collection', ['C11'], ['TREE-11'], 'search_ancestor unpacks a single argument and uses it as the container (rt7-C11)',
     (TREE, "        node = self.parent\n        while node is not None:\n            if node.type in node_types:", "        if len(node_types) == 1:\n            node_types = node_types[0]\n        node = self.parent\n        while node is not None:\n            if node.type in node_types:"))
fire('rx5-bom-consuming-codec', ['C15', 'C01'], ['RX-5'], "the detector answers 'utf-8-sig' for BOM-prefixed bytes (rt7-C01)",
     (UTILS, "            # UTF-8 byte-order mark\n            return 'utf-8'", "            # UTF-8 byte-order mark\n            return 'utf-8-sig'"))
fire('eff4-name-set-attribute', ['C13', 'C18'], ['EFF-4'], 'nonlocal names of sub-scopes are collected in a set and iterated (rt7-C18)',
     (ERRORS, "        self._nonlocal_names_in_subscopes = []", "        self._nonlocal_names_in_subscopes = set()"),
     (ERRORS, "        self._nonlocal_names_in_subscopes += child_context.finalize()", "        self._nonlocal_names_in_subscopes.update(child_context.finalize())"))
fire('norm11-bom-cleared-after-newline-only', ['C20', 'C13', 'C09'], ['NORM-11'], 'the BOM correction is cleared after a newline part but not after a backslash part (rt7-C13)',
     (PREFIX, "            column = -start\n            # The BOM has no width, but only the first line contains it.\n            bom = False\n", "            column = -start\n"),
     (PREFIX, "        if type_ == 'bom':\n            bom = True\n", "        if type_ == 'bom':\n            bom = True\n        elif type_ == 'newline':\n            bom = False\n"))

fire('tok4-error-dedent-store-before-yield', ['C04'], ['TOK-4'], 'the ERROR_DEDENT branch rewrites the top of the indentation stack before yielding (rt6-C04)',
     (TOK, "                yield PythonToken(ERROR_DEDENT, '', (lnum, start), '')\n                indents[-1] = start\n", "                indents[-1] = start\n                yield PythonToken(ERROR_DEDENT, '', (lnum, start), '')\n"))

# TOK-3 typestate
fire('tok3-comment-drops-prefix', ['C01', 'C09'], ['TOK-3'], 'a comment inside brackets replaces the pending prefix instead of extending it',
     (TOK, "                else:\n                    additional_prefix = prefix + token\n            elif token in triple_quoted:", "                else:\n                    additional_prefix = token\n            elif token in triple_quoted:"))
fire('tok3-bom-overwrites', ['C01', 'C09'], ['TOK-3'], 'the BOM assignment can run when blank lines were already accumulated',
     (TOK, "        if is_first_token:\n            if line.startswith(BOM_UTF8_STRING):", "        if new_line and not contstr and line in ('\\n', '\\r\\n'):\n            additional_prefix += line\n            continue\n        if is_first_token:\n            if line.startswith(BOM_UTF8_STRING):"))
fire('tok3-double-emit', ['C01', 'C09'], ['TOK-3', 'TOK-1'], 'the NEWLINE token and the pending prefix both keep the same text',
     (TOK, "                    yield PythonToken(NEWLINE, token, spos, prefix)\n                else:", "                    yield PythonToken(NEWLINE, token, spos, prefix)\n                    additional_prefix = prefix\n                else:"))
silent('tok3-reset-order', ['C01', 'C09'], 'the reset of additional_prefix moves before the prefix computation through a temporary',
       (TOK, "                prefix = additional_prefix + pseudomatch.group(1)\n                additional_prefix = ''", "                pending = additional_prefix\n                additional_prefix = ''\n                prefix = pending + pseudomatch.group(1)"))

fire('par-recovery-point-any', ['C05'], ['PAR-10'], 'the recovery point may be any stack entry with more than three nodes',
     (PYPARSER, "                if stack_node.nonterminal == 'file_input':\n                    break", "                if stack_node.nonterminal == 'file_input' or len(stack_node.nodes) > 3:\n                    break"))

fire('shape-funcdef-parameters-by-position', ['C05', 'C14'], ['GR-10b'], 'Function.__init__ takes the parameter list as children[2] (type_params sits there since 3.12)',
     (PYTREE, "        parameters = self._find_parameters()\n        parameters_children = parameters.children[1:-1]", "        parameters = self.children[2]\n        parameters_children = parameters.children[1:-1]"))
silent('shape-funcdef-name-by-position', ['C05', 'C14'], 'Function.name through a local (children[1] is NAME in every version)',
       (PYTREE, "        return self.children[1]  # First token after `def`", "        name_leaf = self.children[1]  # First token after `def`\n        return name_leaf"))

FILEIO = 'parso/file_io.py'
fire('rx5d-text-mode-read', ['C15'], ['RX-5d'], 'FileIO.read decodes as UTF-8 itself when it can (rt8-C15)',
     (FILEIO, "        with open(self.path, 'rb') as f:\n            return f.read()",
      "        try:\n            with open(self.path, encoding='utf-8', newline='') as f:\n                return f.read()\n        except UnicodeDecodeError:\n            with open(self.path, 'rb') as f:\n                return f.read()"))
fire('rx5d-decode-before-decoder', ['C15'], ['RX-5d'], 'the parse entry point decodes bytes itself before calling the decoder',
     (GRAMMAR, "        code = python_bytes_to_unicode(code)", "        if isinstance(code, bytes):\n            code = code.decode('utf-8', 'replace')\n        code = python_bytes_to_unicode(code)"))
silent('rx5d-read-bytes', ['C15'], 'FileIO.read through pathlib read_bytes / mode keyword',
       (FILEIO, "        with open(self.path, 'rb') as f:\n            return f.read()", "        with open(self.path, mode='rb') as f:\n            data = f.read()\n        return data"))

fire('dim1-level-as-child-index', ['C14'], ['DIM-1'], 'get_from_names skips 1 + self.level children (level counts dots, `...` is one child) (rt8-C14)',
     (PYTREE, "        for n in self.children[1:]:\n            if n not in ('.', '...'):\n                break\n        if n.type == 'dotted_name':  # from x.y import",
      "        n = self.children[1 + self.level]\n        if n.type == 'dotted_name':  # from x.y import"))
fire('dim1-prefix-length-as-child-index', ['C14'], ['DIM-1'], 'a child picked by the length of a leaf value',
     (PYTREE, "        return self.children[1]  # First token after `def`", "        return self.children[len(self.children[0].value) - 2]  # First token after `def`"))
silent('dim1-position-counter', ['C14'], 'get_from_names counts the dot children and indexes with the count',
       (PYTREE, "        for n in self.children[1:]:\n            if n not in ('.', '...'):\n                break\n        if n.type == 'dotted_name':  # from x.y import",
        "        skip = 1\n        for n in self.children[1:]:\n            if n not in ('.', '...'):\n                break\n            skip += 1\n        n = self.children[skip]\n        if n.type == 'dotted_name':  # from x.y import"))

_D2_OLD = """        if new_nodes:
            if not _ends_with_newline(new_nodes[-1].get_last_leaf()) and not had_valid_suite_last:
                p = new_nodes[-1].get_next_leaf().prefix
                # We are not allowed to remove the newline at the end of the
                # line, otherwise it's going to be missing. This happens e.g.
                # if a bracket is around before that moves newlines to
                # prefixes.
                new_prefix = split_lines(p, keepends=True)[0]

"""
fire('diff2-newline-question-only-without-suite', ['C04'], ['DIFF-2'], 'the pending-newline step becomes an elif of the suite branch: skipped when the last class/def is dropped (rt8-C04)',
     (DIFF, "                had_valid_suite_last = True\n\n        if new_nodes:\n", "                had_valid_suite_last = True\n        elif not _ends_with_newline(last_node.get_last_leaf()):\n            p = last_node.get_next_leaf().prefix\n            new_prefix = split_lines(p, keepends=True)[0]\n\n        if new_nodes:\n"),
     (DIFF, _D2_OLD, "        if new_nodes:\n"))
fire('diff2-stale-last-node', ['C04'], ['DIFF-2'], 'the newline question is asked of the node that was last before the incomplete suite was dropped',
     (DIFF, "            if not _ends_with_newline(new_nodes[-1].get_last_leaf()) and not had_valid_suite_last:\n                p = new_nodes[-1].get_next_leaf().prefix",
      "            if not _ends_with_newline(last_node.get_last_leaf()) and not had_valid_suite_last:\n                p = last_node.get_next_leaf().prefix"))
silent('diff2-operands-swapped-fresh-alias', ['C04'], 'the question is asked through a local bound after the removals, flag tested first',
       (DIFF, "            if not _ends_with_newline(new_nodes[-1].get_last_leaf()) and not had_valid_suite_last:\n                p = new_nodes[-1].get_next_leaf().prefix",
        "            final_node = new_nodes[-1]\n            if not had_valid_suite_last and not _ends_with_newline(final_node.get_last_leaf()):\n                p = final_node.get_next_leaf().prefix"))

fire('tok11-no-store-in-finder', ['C03'], ['TOK-11'], 'the start of f-string text is only remembered at the opening quote (rt8-C03, reduced)',
     (TOK, "    if not tos.previous_lines:\n        tos.last_string_start_pos = (lnum, pos)\n\n", "\n"),
     (TOK, "                fstring_stack.append(FStringNode(fstring_pattern_map[token]))", "                fstring_stack.append(FStringNode(fstring_pattern_map[token]))\n                fstring_stack[-1].last_string_start_pos = (lnum, pos)"))
fire('tok11-store-only-when-carried', ['C03'], ['TOK-11'], 'the store is made when text was carried over, not when it was not',
     (TOK, "    if not tos.previous_lines:\n        tos.last_string_start_pos = (lnum, pos)", "    if tos.previous_lines:\n        tos.last_string_start_pos = (lnum, pos)"))
fire('tok11-store-after-advance', ['C03'], ['TOK-11'], 'the stored column is the position after the text',
     (TOK, "    if not tos.previous_lines:\n        tos.last_string_start_pos = (lnum, pos)\n", ""),
     (TOK, "    new_pos += len(string)\n", "    new_pos += len(string)\n    if not tos.previous_lines:\n        tos.last_string_start_pos = (lnum, new_pos)\n"))
silent('tok11-guard-spelled-as-comparison', ['C03'], 'the carried-text test written as a comparison with the empty string, store moved below the group() call',
       (TOK, "    if not tos.previous_lines:\n        tos.last_string_start_pos = (lnum, pos)\n\n    string = match.group(0)\n", "    string = match.group(0)\n    if tos.previous_lines == '':\n        tos.last_string_start_pos = (lnum, pos)\n"))

fire('tree8-fstring-string-fast-end-pos', ['C03', 'C11'], ['TREE-8'], 'the three f-string part leaves get the single-line end_pos (wrong for fstring_string, whose text spans lines) (rt9-C11)',
     (PYTREE, "class FStringString(PythonLeaf):", "class FStringString(_LeafWithoutNewlines):"),
     (PYTREE, "class FStringStart(PythonLeaf):", "class FStringStart(_LeafWithoutNewlines):"),
     (PYTREE, "class FStringEnd(PythonLeaf):", "class FStringEnd(_LeafWithoutNewlines):"))
silent('tree8-fstring-delimiters-fast-end-pos', ['C03', 'C11'], 'f-string start / end leaves (a prefix + quote, a quote) get the single-line end_pos',
       (PYTREE, "class FStringStart(PythonLeaf):", "class FStringStart(_LeafWithoutNewlines):"),
       (PYTREE, "class FStringEnd(PythonLeaf):", "class FStringEnd(_LeafWithoutNewlines):"))

fire('rx12-bom-anywhere-in-prefix', ['C03', 'C09'], ['RX-12'], 'a prefix that contains U+FEFF anywhere is treated as starting with a zero-width BOM (rt9-C09, reduced)',
     (PYTREE, "from parso.python.prefix import split_prefix", "from parso.python.prefix import split_prefix, unicode_bom"),
     (PYTREE, "        previous_leaf = self.get_previous_leaf()\n", "        if unicode_bom in self.prefix and '\\n' not in self.prefix:\n            return self.line, self.column - len(self.prefix) + 1\n        previous_leaf = self.get_previous_leaf()\n"))
fire('rx12-bom-found-in-first-line', ['C03', 'C09'], ['RX-12'], 'the tokenizer looks for the BOM anywhere in the first line',
     (TOK, "            if line.startswith(BOM_UTF8_STRING):", "            if BOM_UTF8_STRING in line:"))
silent('rx12-bom-first-character-slice', ['C03', 'C09'], 'the BOM test written as a comparison of the first character',
       (TOK, "            if line.startswith(BOM_UTF8_STRING):", "            if line[:1] == BOM_UTF8_STRING:"))

_W_OLD = "    with open(_get_hashed_path(hashed_grammar, path, cache_path=cache_path), 'wb') as f:\n        pickle.dump(item, f, pickle.HIGHEST_PROTOCOL)\n"
fire('cache4-temp-shared-by-entries', ['C16', 'C17'], ['CACHE-4'], 'atomic write through <dir>/<grammar hash>-<pid>.tmp: the temporary does not depend on the source path (rt9-C16)',
     (CACHE, _W_OLD, "    pickle_path = _get_hashed_path(hashed_grammar, path, cache_path=cache_path)\n    scratch_path = os.path.join(os.path.dirname(pickle_path), '%s-%s.tmp' % (hashed_grammar, os.getpid()))\n    with open(scratch_path, 'wb') as f:\n        pickle.dump(item, f, pickle.HIGHEST_PROTOCOL)\n    os.replace(scratch_path, pickle_path)\n"))
silent('s-cache4-temp-named-after-pickle', ['C16', 'C17'], 'atomic write through <pickle path>.<pid>.tmp',
       (CACHE, _W_OLD, "    pickle_path = _get_hashed_path(hashed_grammar, path, cache_path=cache_path)\n    scratch_path = '%s.%d.tmp' % (pickle_path, os.getpid())\n    with open(scratch_path, 'wb') as f:\n        pickle.dump(item, f, pickle.HIGHEST_PROTOCOL)\n    os.replace(scratch_path, pickle_path)\n"))
fire('cache8-mmap-reader', ['C17'], ['CACHE-8'], 'the reader unpickles from a memory mapping of the cache file (rt9-C17)',
     (CACHE, "import gc\n", "import gc\nimport mmap\n"),
     (CACHE, "                module_cache_item = pickle.load(f)", "                with mmap.mmap(f.fileno(), 0, access=mmap.ACCESS_READ) as data:\n                    module_cache_item = pickle.loads(data)"))

fire('exc3-value-error-handler-dropped', ['C13'], ['EXC-3'], 'the escape check only catches UnicodeDecodeError (a lone surrogate raises UnicodeEncodeError; bytes escapes raise ValueError) (rt9-C13, reduced)',
     (ERRORS, "            except ValueError as e:\n                self.add_issue(leaf, message='(value error) ' + str(e))\n", ""))
silent('s-exc3-unicode-error-handler', ['C13'], 'the first handler names the common base class UnicodeError',
       (ERRORS, "            except UnicodeDecodeError as e:\n                self.add_issue(leaf, message='(unicode error) ' + str(e))", "            except UnicodeError as e:\n                self.add_issue(leaf, message='(unicode error) ' + str(e))"))

fire('norm13-prefix-start-from-visitor-state', ['C20', 'C13', 'C09'], ['NORM-13'], 'the PEP 8 visitor splits a prefix from the end of the leaf it visited last (differs from the tree after an error node) (rt9-C20)',
     (PEP8, "from parso.normalizer import Rule\n", "from parso.normalizer import Rule\nfrom parso.python.prefix import split_prefix\n"),
     (PEP8, "        for part in leaf._split_prefix():\n            if part.type == 'spacing':", "        previous = self._previous_leaf\n        parts = leaf._split_prefix() if previous is None or previous.type == 'error_leaf' else split_prefix(leaf, previous.end_pos)\n        for part in parts:\n            if part.type == 'spacing':"))
silent('s-norm13-start-through-local', ['C20', 'C13', 'C09'], 'the start position is computed into a local first',
       (PYTREE, "        return split_prefix(self, self.get_start_pos_of_prefix())", "        start = self.get_start_pos_of_prefix()\n        return split_prefix(self, start)"))

fire('tok12-format-spec-colon-rewind-by-zero', ['C01', 'C09'], ['TOK-12'], 'after `token = \':\'` the scan position is rewound by len(token) - 1 = 0: the `=` of `:=` is lost (rt9-C01)',
     (TOK, "                    token = ':'\n                    pos = start + 1\n", "                    token = ':'\n                    pos -= len(token) - 1\n"))
fire('tok12-error-char-without-reposition', ['C01', 'C09'], ['TOK-12'], 'the `#` inside an f-string expression is emitted as a one-character error token, the scan continues behind the whole comment',
     (TOK, "                    yield PythonToken(ERRORTOKEN, initial, spos, prefix)\n                    pos = start + 1\n", "                    yield PythonToken(ERRORTOKEN, initial, spos, prefix)\n"))
silent('s-tok12-reposition-by-length', ['C01', 'C09'], 'the format-spec colon repositions with start + len(token)',
       (TOK, "                    token = ':'\n                    pos = start + 1\n", "                    token = ':'\n                    pos = start + len(token)\n"))

fire('wrap1-one-level-unwrap-helper', ['C04'], ['WRAP-1'], 'decorated / async wrappers are unwrapped by a helper that steps one level only (rt2-C04, reduced)',
     (DIFF, "def _func_or_class_has_suite(node):\n    if node.type == 'decorated':\n        node = node.children[-1]\n    if node.type in ('async_funcdef', 'async_stmt'):\n        node = node.children[-1]\n",
      "def _get_def_node(node):\n    if node.type in ('decorated', 'async_funcdef', 'async_stmt'):\n        return node.children[-1]\n    return node\n\n\ndef _func_or_class_has_suite(node):\n    node = _get_def_node(node)\n"))
fire('wrap1-async-step-dropped', ['C04'], ['WRAP-1'], 'the copier no longer steps through async_funcdef after decorated',
     (DIFF, "                if n.type == 'decorated':\n                    n = n.children[-1]\n                if n.type in ('async_funcdef', 'async_stmt'):\n                    n = n.children[-1]\n", "                if n.type == 'decorated':\n                    n = n.children[-1]\n"))
silent('s-wrap1-loop-unwrap', ['C04'], 'the two steps written as one loop',
       (DIFF, "def _func_or_class_has_suite(node):\n    if node.type == 'decorated':\n        node = node.children[-1]\n    if node.type in ('async_funcdef', 'async_stmt'):\n        node = node.children[-1]\n",
        "def _func_or_class_has_suite(node):\n    while node.type in ('decorated', 'async_funcdef', 'async_stmt'):\n        node = node.children[-1]\n"))

fire('rx13-fstring-continuation-not-crlf', ['C10', 'C09', 'C01'], ['RX-13'], 'the single-line f-string text pattern escapes any one character after a backslash: backslash + CRLF is no longer one unit (rt10-C10)',
     (TOK, "    + r'\\}|\\\\(?:\\r\\n?|\\n)|\\\\[^\\r\\nN]|[^{}\\r\\n\\\\])+'", "    + r'\\}|\\\\[^N]|[^{}\\r\\n\\\\])+'"))
fire('rx13-format-spec-continuation-lf-only', ['C10', 'C09', 'C01'], ['RX-13'], 'the single-line format-spec pattern continues a line only over backslash + LF',
     (TOK, "fstring_format_spec_single_line = _compile(r'(?:\\\\(?:\\r\\n?|\\n)|[^{}\\r\\n])+')", "fstring_format_spec_single_line = _compile(r'(?:\\\\\\n|[^{}\\r\\n])+')"))
silent('s-rx13-alternatives-reordered', ['C10', 'C09', 'C01'], 'the line-continuation alternative of the format-spec pattern spelled out in another order',
       (TOK, "fstring_format_spec_single_line = _compile(r'(?:\\\\(?:\\r\\n?|\\n)|[^{}\\r\\n])+')", "fstring_format_spec_single_line = _compile(r'(?:\\\\(?:\\n|\\r\\n|\\r)|[^{}\\r\\n])+')"))

fire('pos1-part-offset-by-search', ['C03', 'C09'], ['POS-1'], 'the column of a split-name part is token.index(part) instead of the loop index (rt10-C03)',
     (TOK, "    def create_token():\n        return PythonToken(ERRORTOKEN if is_illegal else NAME, found, pos, prefix)", "    def create_token():\n        pos = start_pos[0], start_pos[1] + token.index(found)\n        return PythonToken(ERRORTOKEN if is_illegal else NAME, found, pos, prefix)"))
silent('s-pos1-child-index', ['C03', 'C09'], 'an index lookup in a list of nodes (identity) is not a text search',
       (TREE, "            i = c.index(node)\n", "            i = c.index(node)  # identity lookup in the children list\n"))
fire('par14-dedent-bookkeeping-in-add-token', ['C02', 'C07'], ['PAR-14', 'PAR-6'], 'the INDENT / DEDENT counting moves from the token-stream filter into an _add_token override, which error_recovery calls again for the token it recovered on (rt10-C02, reduced)',
     (PYPARSER, "    def _recovery_tokenize(self, tokens):", "    def _add_token(self, token):\n        typ = token[0]\n        if self._error_recovery:\n            if typ == DEDENT:\n                self._indent_counter -= 1\n            elif typ == INDENT:\n                self._indent_counter += 1\n        super()._add_token(token)\n\n    def _recovery_tokenize(self, tokens):"), analysis_error_ok=True)

fire('idx1-last-of-filtered-operators', ['C20'], ['IDX-1'], 'the assignment operator a backslash continuation aligns with is taken as the last element of a filtered list (rt11-C20)',
     (PEP8, "            equals = expr_stmt.children[-2]\n", "            equals = [c for c in expr_stmt.children if c.type == 'operator' and c.end_pos <= spacing.start_pos][-1]\n"))
fire('cache9-entry-setstate', ['C16', 'C17'], ['CACHE-9'], 'the cache entry pickles only (node, lines) and re-runs __init__ on load (rt11-C16)',
     (CACHE, "class _NodeCacheItem:\n", "class _NodeCacheItem:\n    def __getstate__(self):\n        return self.node, self.lines\n\n    def __setstate__(self, state):\n        self.__init__(*state)\n\n"))
fire('cache10-save-skipped-when-file-looks-fresh', ['C17', 'C16'], ['CACHE-10'], 'the pickle write is skipped when the cache file on disk is not older than the source (rt11-C17)',
     (CACHE, "    if pickling and path is not None:\n        try:\n            _save_to_file_system(", "    if pickling and path is not None and not (p_time is not None and os.path.exists(_get_hashed_path(hashed_grammar, path, cache_path=cache_path)) and p_time <= os.path.getmtime(_get_hashed_path(hashed_grammar, path, cache_path=cache_path))):\n        try:\n            _save_to_file_system("))
fire('tok12-comment-to-end-of-line', ['C01', 'C09'], ['TOK-12'], 'a comment inside an f-string expression goes to the prefix and the scan jumps to the end of the physical line (rt11-C01, reduced)',
     (TOK, "                    yield PythonToken(ERRORTOKEN, initial, spos, prefix)\n                    pos = start + 1\n", "                    if fstring_stack[-1].allow_multiline():\n                        pos = len(line.rstrip('\\r\\n'))\n                        additional_prefix = prefix + token\n                    else:\n                        yield PythonToken(ERRORTOKEN, initial, spos, prefix)\n                        pos = start + 1\n"))

fire('tok13-continuation-line-stays-new', ['C02', 'C09'], ['TOK-13'], 'a line holding only a continuation backslash goes through the INDENT / DEDENT logic but stays "new" (rt12-C02)',
     (TOK, "            if new_line and initial not in '\\r\\n#' and (initial != '\\\\' or pseudomatch is None):\n                new_line = False\n", "            if new_line and initial not in '\\r\\n#':\n                if initial != '\\\\' or pseudomatch is None:\n                    new_line = False\n"))
silent('s-tok13-flag-reset-after-decision', ['C02', 'C09'], 'the line-start flag is reset at the end of the block that decides the indentation',
       (TOK, "            if new_line and initial not in '\\r\\n#' and (initial != '\\\\' or pseudomatch is None):\n                new_line = False\n                if paren_level == 0 and not fstring_stack:\n                    indent_start = start\n                    if indent_start > indents[-1]:\n                        yield PythonToken(INDENT, '', spos, '')\n                        indents.append(indent_start)\n                    yield from dedent_if_necessary(indent_start)\n",
        "            if new_line and initial not in '\\r\\n#' and (initial != '\\\\' or pseudomatch is None):\n                if paren_level == 0 and not fstring_stack:\n                    indent_start = start\n                    if indent_start > indents[-1]:\n                        yield PythonToken(INDENT, '', spos, '')\n                        indents.append(indent_start)\n                    yield from dedent_if_necessary(indent_start)\n                new_line = False\n"))
fire('gr8a-import-search-narrow-table', ['C14'], ['GR-8a'], 'iter_imports scans with a narrower container table that omits async_stmt (rt12-C14, reduced)',
     (PYTREE, "        return self._search_in_scope('import_name', 'import_from')\n\n    def _search_in_scope(self, *names):\n        def scan(children):\n            for element in children:\n                if element.type in names:\n                    yield element\n                if element.type in _FUNC_CONTAINERS:\n",
      "        return self._search_in_scope('import_name', 'import_from', containers=_IMPORT_CONTAINERS)\n\n    def _search_in_scope(self, *names, containers=None):\n        containers = _FUNC_CONTAINERS if containers is None else containers\n\n        def scan(children):\n            for element in children:\n                if element.type in names:\n                    yield element\n                if element.type in containers:\n"),
     (PYTREE, "_RETURN_STMT_CONTAINERS = set(['suite', 'simple_stmt']) | _FLOW_CONTAINERS\n", "_RETURN_STMT_CONTAINERS = set(['suite', 'simple_stmt']) | _FLOW_CONTAINERS\n_IMPORT_CONTAINERS = set(['suite', 'simple_stmt', 'if_stmt', 'while_stmt', 'for_stmt', 'try_stmt', 'with_stmt'])\n"))

VARIANTS = [v for v in VARIANTS if v is not None]

# round 13: F22 / F23
fire('tc1-pep8-eq-any-leaf', ['C20'], ['TC-1'], "the E711/E712 check takes any leaf spelled '==' / '!=' for the operator (F22 reverted)",
     (PEP8, "        elif typ == 'operator' and leaf.value in ('==', '!='):", "        elif leaf.value in ('==', '!='):"))
fire('norm14-walk-past-root', ['C20'], ['NORM-14'], 'the dedented-comment walk up the indentation stack does not stop at the root (F23 reverted)',
     (PEP8, "                    while n is not None:\n                        if n.indentation is None or len(indentation)", "                    while True:\n                        if n.indentation is None or len(indentation)"))
silent('s-norm14-test-after-step', ['C20'], 'the walk tests for None right after the step instead of in the loop head',
       (PEP8, "                    while n is not None:\n                        if n.indentation is None or len(indentation)", "                    while True:\n                        if n.indentation is None or len(indentation)"),
       (PEP8, "                        if n == node:\n                            break\n                        n = n.parent\n", "                        if n == node:\n                            break\n                        n = n.parent\n                        if n is None:\n                            break\n"))

# round 13: which of two coding declarations wins
fire('rx5-greedy-first-line', ['C15', 'C01'], ['RX-5'], 'the optional first line of the declaration pattern is greedy: the declaration of line two wins over that of line one (rt13-C15)',
     (UTILS, '            br"(?:[ \\t\\f]*(?:#[^\\r\\n]*)?(?:\\r\\n|\\r|\\n))??"', '            br"(?:[ \\t\\f]*(?:#[^\\r\\n]*)?(?:\\r\\n|\\r|\\n))?"'))
_VERBOSE_DECL = """
_ENCODING_DECLARATION = re.compile(br'''
    (?:
        [ \\t\\f]* (?: \\# [^\\r\\n]* )?     # a blank line or a comment ...
        (?: \\r\\n | \\r | \\n )            # ... and its line end
    )??
    [ \\t\\f]* \\# [^\\r\\n]*?
    coding [:=] [ \\t]* ([-\\w.]+)
''', re.VERBOSE)


class Version(NamedTuple):"""
silent('s-rx5-verbose-module-level', ['C15', 'C01'], 'the declaration pattern is precompiled at module level with re.VERBOSE (lazy option kept)',
       (UTILS, "\n\nclass Version(NamedTuple):", _VERBOSE_DECL),
       (UTILS, '        possible_encoding = re.match(\n            br"(?:[ \\t\\f]*(?:#[^\\r\\n]*)?(?:\\r\\n|\\r|\\n))??"\n            br"[ \\t\\f]*#[^\\r\\n]*?coding[:=][ \\t]*([-\\w.]+)",\n            source\n        )\n',
        '        possible_encoding = _ENCODING_DECLARATION.match(source)\n'))

# round 13: in-place operator on an alias of module-level state, inside a helper of a memo function (rt13-C18)
fire('eff1-inplace-on-global-alias', ['C18', 'C09', 'C10'], ['EFF-1'], 'the f-string prefix list becomes a module constant that a helper of the memo function extends in place through a local alias',
     (TOK, "def _all_string_prefixes(*, include_fstring=False, only_fstring=False):", "_F_PREFIXES = ['f', 'fr']\n_EXTRA_PREFIXES = ['t', 'tr']\n\n\ndef _all_string_prefixes(*, include_fstring=False, only_fstring=False):"),
     (TOK, "        f = ['f', 'fr']\n", "        f = _F_PREFIXES\n        if only_fstring:\n            f += _EXTRA_PREFIXES\n"))
silent('s-eff1-copy-of-global', ['C18', 'C09', 'C10'], 'the f-string prefix list becomes a module constant; the helper extends a copy of it',
       (TOK, "def _all_string_prefixes(*, include_fstring=False, only_fstring=False):", "_F_PREFIXES = ['f', 'fr']\n_EXTRA_PREFIXES = []\n\n\ndef _all_string_prefixes(*, include_fstring=False, only_fstring=False):"),
       (TOK, "        f = ['f', 'fr']\n", "        f = list(_F_PREFIXES)\n        f += _EXTRA_PREFIXES\n"))

# round 13: exponentially ambiguous pattern (rt13-C02)
fire('rx14-digit-run-ambiguous', ['C02', 'C09'], ['RX-14'], 'the decimal digit part takes runs of digits inside the repetition: (?:_?[0-9]+)* - same language, 2^n runs',
     (TOK, "    Decnumber = r'(?:0(?:_?0)*|[1-9](?:_?[0-9])*)'", "    Decnumber = r'(?:0(?:_?0)*|[1-9](?:_?[0-9]+)*)'"))
silent('s-rx14-digit-run-unambiguous', ['C02', 'C09', 'C10'], 'the decimal digit part written with an explicit separator: [0-9]*(?:_[0-9]+)* - same language, unambiguous',
       (TOK, "    Decnumber = r'(?:0(?:_?0)*|[1-9](?:_?[0-9])*)'", "    Decnumber = r'(?:0(?:_?0)*|[1-9][0-9]*(?:_[0-9]+)*)'"))

# round 13: the mtime is sampled before the read and handed to the cache - on every way to a save, or only under `cache`
_SAVE_SIG = ("def try_to_save_module(hashed_grammar, file_io, module, lines, pickling=True, cache_path=None):\n    path = file_io.path\n    try:\n        p_time = None if path is None else file_io.get_last_modified()\n    except OSError:\n        p_time = None\n        pickling = False\n",
             "def try_to_save_module(hashed_grammar, file_io, module, lines, pickling=True, cache_path=None, p_time=None):\n    path = file_io.path\n")
_SAVE_CALL_1 = ("                                   cache_path=cache_path)\n                return new_node", "                                   cache_path=cache_path, p_time=p_time)\n                return new_node")
_SAVE_CALL_2 = ("                               cache_path=cache_path)\n        return root_node", "                               cache_path=cache_path, p_time=p_time)\n        return root_node")
fire('cache3-sample-only-when-caching', ['C16'], ['CACHE-3'], 'the mtime is sampled before the read, but only inside `if cache and file_io.path is not None` (rt13-C16): a diff_cache-only parse stores time.time()',
     (CACHE,) + _SAVE_SIG, (GRAMMAR,) + _SAVE_CALL_1, (GRAMMAR,) + _SAVE_CALL_2,
     (GRAMMAR, "        if cache and file_io.path is not None:\n            module_node = load_module(self._hashed, file_io, cache_path=cache_path)\n            if module_node is not None:\n                return module_node  # type: ignore[no-any-return]\n",
      "        p_time = None\n        if cache and file_io.path is not None:\n            module_node = load_module(self._hashed, file_io, cache_path=cache_path)\n            if module_node is not None:\n                return module_node  # type: ignore[no-any-return]\n            p_time = file_io.get_last_modified()\n"))
silent('s-cache3-sample-before-read', ['C16', 'C17'], 'the mtime is sampled before the read whenever the file has a path and handed to the cache (the repair of F7 in the memory cache)',
       (CACHE,) + _SAVE_SIG, (GRAMMAR,) + _SAVE_CALL_1, (GRAMMAR,) + _SAVE_CALL_2,
       (GRAMMAR, "        if cache and file_io.path is not None:\n            module_node = load_module(self._hashed, file_io, cache_path=cache_path)\n            if module_node is not None:\n                return module_node  # type: ignore[no-any-return]\n",
        "        if cache and file_io.path is not None:\n            module_node = load_module(self._hashed, file_io, cache_path=cache_path)\n            if module_node is not None:\n                return module_node  # type: ignore[no-any-return]\n        p_time = None\n        if file_io.path is not None:\n            try:\n                p_time = file_io.get_last_modified()\n            except OSError:\n                cache = False\n"))

# round 13: end-of-file DEDENTs through the per-line helper (rt13-C07)
fire('tok5-eof-dedents-through-helper', ['C07', 'C09'], ['TOK-5'], 'the end-of-file DEDENT loop is replaced by the per-line dedent helper, whose tokens carry the position of the last matched token',
     (TOK, "    for indent in indents[1:]:\n        indents.pop()\n        yield PythonToken(DEDENT, '', end_pos, '')\n", "    yield from dedent_if_necessary(0)\n"))

# round 13: a per-element value carried into the next iteration (rt13-C14)
fire('loop1-alias-carried-over', ['C14'], ['LOOP-1'], 'ImportName._dotted_as_names: `alias = None` hoisted in front of the loop, the else arm removed - the alias of one module carries over to the next',
     (PYTREE, "        for as_name in as_names:\n            if as_name.type == 'dotted_as_name':\n                alias = as_name.children[2]\n                as_name = as_name.children[0]\n            else:\n                alias = None\n",
      "        alias = None\n        for as_name in as_names:\n            if as_name.type == 'dotted_as_name':\n                alias = as_name.children[2]\n                as_name = as_name.children[0]\n"))
silent('s-loop1-default-inside-loop', ['C14'], 'ImportName._dotted_as_names: the default is assigned at the top of every iteration instead of in an else arm',
       (PYTREE, "        for as_name in as_names:\n            if as_name.type == 'dotted_as_name':\n                alias = as_name.children[2]\n                as_name = as_name.children[0]\n            else:\n                alias = None\n",
        "        for as_name in as_names:\n            alias = None\n            if as_name.type == 'dotted_as_name':\n                alias = as_name.children[2]\n                as_name = as_name.children[0]\n"))

# round 13: a fast path above the first-line block (rt2-C09, rt13-C01, rt13-C03)
fire('tok14-fast-path-above-first-line-block', ['C03', 'C09'], ['TOK-14'], 'blank lines are appended to the pending prefix by a fast path that continues above the first-line block: the BOM / start column handling runs for a later line',
     (TOK, "        pos = 0\n        max_ = len(line)\n        if is_first_token:\n", "        pos = 0\n        max_ = len(line)\n        if new_line and not contstr and not fstring_stack and line in ('\\n', '\\r\\n', '\\r'):\n            additional_prefix += line\n            continue\n        if is_first_token:\n"),
     (TOK, "                additional_prefix = BOM_UTF8_STRING\n", "                additional_prefix += BOM_UTF8_STRING\n"))

# round 14: the cache
fire('cache2-stale-memory-entry-falls-through-to-disk', ['C16'], ['CACHE-2'], 'an in-memory entry that is found but outdated no longer ends the lookup: the on-disk entry (judged by the pickle mtime) is consulted (rt14-C16)',
     (CACHE, "    try:\n        module_cache_item = parser_cache[hashed_grammar][file_io.path]\n        if p_time <= module_cache_item.change_time:\n            module_cache_item.last_used = time.time()\n            return module_cache_item.node\n    except KeyError:\n        return _load_from_file_system(\n            hashed_grammar,\n            file_io.path,\n            p_time,\n            cache_path=cache_path\n        )\n",
      "    module_cache_item = parser_cache.get(hashed_grammar, {}).get(file_io.path)\n    if module_cache_item is not None and p_time <= module_cache_item.change_time:\n        module_cache_item.last_used = time.time()\n        return module_cache_item.node\n    return _load_from_file_system(\n        hashed_grammar,\n        file_io.path,\n        p_time,\n        cache_path=cache_path\n    )\n"))
silent('s-cache2-get-lookup', ['C16', 'C17'], 'load_module looks the entry up with .get(); an outdated entry still ends the lookup',
       (CACHE, "    try:\n        module_cache_item = parser_cache[hashed_grammar][file_io.path]\n        if p_time <= module_cache_item.change_time:\n            module_cache_item.last_used = time.time()\n            return module_cache_item.node\n    except KeyError:\n        return _load_from_file_system(\n            hashed_grammar,\n            file_io.path,\n            p_time,\n            cache_path=cache_path\n        )\n",
        "    module_cache_item = parser_cache.get(hashed_grammar, {}).get(file_io.path)\n    if module_cache_item is None:\n        return _load_from_file_system(\n            hashed_grammar,\n            file_io.path,\n            p_time,\n            cache_path=cache_path\n        )\n    if p_time <= module_cache_item.change_time:\n        module_cache_item.last_used = time.time()\n        return module_cache_item.node\n    return None\n"))
fire('cache12-known-directories', ['C17', 'C16'], ['CACHE-12'], 'the cache remembers which version directories it has created in a module-level set (rt14-C17): a directory removed by someone else is never created again',
     (CACHE, "def _get_cache_directory_path(cache_path=None):\n    if cache_path is None:\n        cache_path = _default_cache_path\n    directory = cache_path.joinpath(_VERSION_TAG)\n    if not directory.exists():\n        os.makedirs(directory)\n    return directory\n",
      "_known_cache_directories = set()\n\n\ndef _get_cache_directory_path(cache_path=None):\n    if cache_path is None:\n        cache_path = _default_cache_path\n    directory = cache_path.joinpath(_VERSION_TAG)\n    if directory not in _known_cache_directories:\n        os.makedirs(directory, exist_ok=True)\n        _known_cache_directories.add(directory)\n    return directory\n"))

# round 14: Grammar.parse
fire('par6c-flag-to-tokenizer', ['C07'], ['PAR-6c'], 'the strict / recovering flag is also handed to the tokenizer (rt14-C07)',
     (GRAMMAR, "        tokens = self._tokenizer(lines)\n", "        tokens = self._tokenizer(lines, error_recovery=error_recovery)\n"),
     (GRAMMAR, "    def _tokenize_lines(self, lines, **kwargs) -> Iterator[PythonToken]:", "    def _tokenize_lines(self, lines, error_recovery=True, **kwargs) -> Iterator[PythonToken]:"))
fire('src1-strip-eval-input', ['C01', 'C06'], ['SRC-1'], 'the text of an eval_input parse is stripped before it is tokenized (rt14-C06)',
     (GRAMMAR, "        code = python_bytes_to_unicode(code)\n", "        code = python_bytes_to_unicode(code)\n        if start_symbol == 'eval_input':\n            code = code.strip()\n"))

# round 14: a loop over children that breaks on a type mismatch (rt14-C14)
fire('brk1-with-items-break', ['C14'], ['BRK-1'], 'WithStmt.get_defined_names stops at the first item that is not a with_item node (an item without `as` is a bare expression)',
     (PYTREE, "        for with_item in self.children[1:-2:2]:\n            # Check with items for 'as' names.\n            if with_item.type == 'with_item':\n                names += _defined_names(with_item.children[2], include_setitem)\n",
      "        for with_item in self.children[1::2]:\n            if with_item.type != 'with_item':\n                break\n            names += _defined_names(with_item.children[2], include_setitem)\n"))

# round 14: the parser renders the tree it is recovering (rt14-C02)
fire('par15-get-code-in-recovery', ['C02'], ['PAR-15'], 'the recovery path evaluates node.get_code() (as the argument of a debug log call): three frames per nesting level',
     (PYPARSER, "            node = tree.PythonErrorNode(all_nodes)\n", "            node = tree.PythonErrorNode(all_nodes)\n            self._last_error_text = node.get_code(include_prefix=False)[:40]\n"))

# round 14: the dispatch of the NUMBER branch (rt14-C10)
fire('tok15-number-by-last-char', ['C10', 'C06'], ['TOK-15'], "a token that starts with a point is a NUMBER when its last character is a digit: `.5j` becomes an operator",
     (TOK, "                    or (initial == '.' and token != '.' and token != '...')):", "                    or (initial == '.' and token[-1] in numchars)):"))
silent('s-tok15-not-in-tuple', ['C10', 'C06'], "the same condition spelled with `token not in ('.', '...')`",
       (TOK, "                    or (initial == '.' and token != '.' and token != '...')):", "                    or (initial == '.' and token not in ('.', '...'))):"))
