"""Command line: python -m parsolint.main <ID> [--tier T] [--root DIR] [--replay PATH]"""
import argparse
import json
import os
import sys
import traceback

from .ctx import Ctx
from .model import AnalysisError
from .report import Report


def run_property(prop, root='/repo', tier='quick', replay_key=None, seed=0):
    from .props import REGISTRY
    if prop not in REGISTRY:
        raise AnalysisError('no check registered for property %s' % prop)
    ctx = Ctx(root)
    rep = Report(prop, tier, root, seed)
    from . import rx
    rx.RECORD = tier == 'thorough'
    del rx.REGISTRY[:]
    # every rule runs on its own: one that cannot recognise its anchors (AnalysisError) does not keep the others from reporting
    _guard_rules(rep)
    try:
        REGISTRY[prop](ctx, rep)
    except AnalysisError as e:
        rep.analysis_errors.append(str(e))
    except Exception:
        if not rep.analysis_errors:
            raise
        rep.analysis_errors.append('a later rule failed on the missing result of the rule above: %s'
                                   % traceback.format_exc().strip().splitlines()[-1])
    finally:
        _unguard_rules()
    if rep.analysis_errors:
        # what the working rules found is reported; the run as a whole is analysis-broken unless they found a violation
        status = None
        try:
            status = rep.finish(replay_key)
        except AnalysisError as e:
            rep.analysis_errors.append(str(e))
        for msg in rep.analysis_errors:
            print('ANALYSIS-ERROR property=%s %s' % (prop, msg))
        return 1 if status == 1 else 2
    if tier == 'thorough' and replay_key is None:
        rx.RECORD = False
        if ctx._grammars is not None:
            from . import gram
            gc_ = gram.crosscheck_dfas(ctx.grammars, seed)
            rep.stat('grammar_engine_crosscheck', gc_)
            print('%s grammar engine cross-check: %d rule DFAs agree with a direct EBNF interpreter on %d words'
                  % (prop, gc_['rules'], gc_['words']))
        if rx.REGISTRY:
            cc = rx.crosscheck_all(seed)
            rep.stat('regex_engine_crosscheck', cc)
            print('%s regex engine cross-check: %d patterns, %d strings agree with re.fullmatch' % (prop, cc['patterns'], cc['strings']))
        # test the checker both ways before believing its verdict
        from .selftest import run_selftest
        counts = {}
        for o in rep.obs:
            counts[o.rule] = counts.get(o.rule, 0) + 1
        summary = run_selftest(prop, root, reference_counts=counts)
        rep.stat('selftest', summary)
        print('%s self-test: %d/%d must-fire variants reported, %d/%d must-stay-silent variants silent%s'
              % (prop, summary.get('fired', 0), summary.get('must_fire', 0), summary.get('silent', 0),
                 summary.get('must_stay_silent', 0),
                 (', not applicable: %d' % len(summary['not_applicable'])) if summary.get('not_applicable') else ''))
    return rep.finish(replay_key)


_GUARDED = []


def _guard_rules(rep):
    """Wrap every rule function (module-level callables of parsolint.rules.* taking ctx, rep) so that an AnalysisError
    raised inside one is recorded and the remaining rules of the property still run."""
    import functools
    import importlib
    import inspect
    import pkgutil
    from . import rules as _rules
    for info in pkgutil.iter_modules(_rules.__path__):
        mod = importlib.import_module('%s.%s' % (_rules.__name__, info.name))
        for name, fn in list(vars(mod).items()):
            if not inspect.isfunction(fn) or fn.__module__ != mod.__name__ or name.startswith('_'):
                continue
            params = list(inspect.signature(fn).parameters)
            if params[:2] != ['ctx', 'rep']:
                continue

            def make(fn):
                @functools.wraps(fn)
                def guarded(ctx, rep_, *a, **kw):
                    try:
                        return fn(ctx, rep_, *a, **kw)
                    except AnalysisError as e:
                        if rep_ is not rep:
                            raise                   # a scratch report inside another rule: the caller decides
                        rep_.analysis_errors.append(str(e))
                        return None
                return guarded
            _GUARDED.append((mod, name, fn))
            setattr(mod, name, make(fn))


def _unguard_rules():
    while _GUARDED:
        mod, name, fn = _GUARDED.pop()
        setattr(mod, name, fn)


def main(argv=None):
    ap = argparse.ArgumentParser()
    ap.add_argument('prop')
    ap.add_argument('--tier', default=os.environ.get('VERIF_TIER', 'quick'), choices=['quick', 'thorough'])
    ap.add_argument('--root', default=os.environ.get('PARSOLINT_ROOT', '/repo'))
    ap.add_argument('--replay')
    args = ap.parse_args(argv)
    try:
        seed = int(os.environ.get('VERIF_SEED', '0') or 0)
    except ValueError:
        seed = 0
    replay_key = None
    try:
        if args.replay:
            with open(args.replay) as f:
                r = json.load(f)
            replay_key = [r['rule'], r['file'], r['function'], r['construct']]
        return run_property(args.prop, args.root, args.tier, replay_key, seed)
    except AnalysisError as e:
        print('ANALYSIS-ERROR property=%s %s' % (args.prop, e))
        return 2
    except Exception:
        traceback.print_exc()
        print('ANALYSIS-ERROR property=%s checker raised' % args.prop)
        return 2


if __name__ == '__main__':
    sys.exit(main())
