"""Shared, lazily built analysis context for one run."""
import os

from . import fold, gram
from .callgraph import CallGraph
from .cfg import CFG
from .model import Program, AnalysisError

PYENV = '/root/.pyenv/versions'


class Ctx:
    def __init__(self, root='/repo'):
        self.root = root
        self._prog = None
        self._cg = None
        self._grammars = None
        self._folders = {}
        self._cfgs = {}
        self._tc = {}

    @property
    def prog(self):
        if self._prog is None:
            self._prog = Program(self.root)
        return self._prog

    @property
    def cg(self):
        if self._cg is None:
            self._cg = CallGraph(self.prog)
        return self._cg

    @property
    def grammars(self):
        if self._grammars is None:
            self._grammars = gram.load_all(self.root)
            for g in self._grammars:
                g.result = g.analyse()
        return self._grammars

    def cfg(self, func):
        if func.key not in self._cfgs:
            self._cfgs[func.key] = CFG(func.node)
        return self._cfgs[func.key]

    # -- constant folding of parso modules ---------------------------------
    def folder(self, rel):
        if rel not in self._folders:
            path = os.path.join(self.root, rel)
            if not os.path.exists(path):
                raise AnalysisError('anchor vanished: module %s' % rel)
            self._folders[rel] = fold.fold_file(path, self._resolve)
        return self._folders[rel]

    def _resolve(self, dotted):
        if not dotted or not dotted.startswith('parso'):
            return None
        rel = dotted.replace('.', '/') + '.py'
        if not os.path.exists(os.path.join(self.root, rel)):
            rel = dotted.replace('.', '/') + '/__init__.py'
            if not os.path.exists(os.path.join(self.root, rel)):
                return None
        return self.folder(rel)

    def token_collection(self, version):
        """Folded locals of tokenize._create_token_collection(version)."""
        version = tuple(version)
        if version not in self._tc:
            f = self.folder('parso/python/tokenize.py')
            self._tc[version] = f.function_locals('_create_token_collection', version)
        return self._tc[version]

    # -- CPython reference sources -------------------------------------------
    def reference_versions(self):
        out = []
        if not os.path.isdir(PYENV):
            return out
        for d in sorted(os.listdir(PYENV)):
            parts = d.split('.')
            if len(parts) == 3 and parts[0] == '3':
                lib = os.path.join(PYENV, d, 'lib', 'python3.%s' % parts[1])
                if os.path.exists(os.path.join(lib, 'tokenize.py')):
                    out.append(((3, int(parts[1])), lib))
        return sorted(out)

    def reference_folder(self, lib, name):
        key = (lib, name)
        if key not in self._folders:
            def res(dotted, lib=lib):
                p = os.path.join(lib, (dotted or '').replace('.', '/') + '.py')
                if dotted in ('token',) and os.path.exists(p):
                    return self.reference_folder(lib, dotted + '.py')
                return None
            self._folders[key] = fold.fold_file(os.path.join(lib, name), res)
        return self._folders[key]
