"""Shared, lazily built analysis context for one run."""
import os

from . import fold, gram
from .callgraph import CallGraph
from .cfg import CFG
from .model import Program, AnalysisError

PYENV = '/root/.pyenv/versions'


class Ctx:
    def __init__(self, root='/repo'):
        self.root = root
        self._prog = None
        self._cg = None
        self._grammars = None
        self._folders = {}
        self._cfgs = {}
        self._tc = {}

    @property
    def prog(self):
        if self._prog is None:
            self._prog = Program(self.root)
        return self._prog

    @property
    def cg(self):
        if self._cg is None:
            self._cg = CallGraph(self.prog)
        return self._cg

    @property
    def grammars(self):
        if self._grammars is None:
            self._grammars = gram.load_all(self.root)
            for g in self._grammars:
                g.result = g.analyse()
        return self._grammars

    def parts_of(self, anchors):
        """Keys of the private helpers that are called by nothing but the given functions (or other such helpers of the
        same module): what a maintainer gets when he splits one of those functions up.  A who-may-do-X rule that names
        the function extends to them."""
        anchors = set(anchors)
        callers = {}
        for k, tgts in self.cg.edges.items():
            for t in tgts:
                callers.setdefault(t, set()).add(k)
        parts = set()
        changed = True
        while changed:
            changed = False
            for key, f in self.prog.funcs.items():
                if key in parts or key in anchors:
                    continue
                name = f.name
                if not name.startswith('_') or name.startswith('__'):
                    continue
                cs = callers.get(key, set()) - {key}
                if cs and all(c in anchors or c in parts for c in cs) and all(
                        self.prog.funcs[c].mod is f.mod for c in cs):
                    parts.add(key)
                    changed = True
        return parts

    def owner(self, key):
        """The function a private helper belongs to: follow the chain of sole callers (same module) upwards while the
        function is private.  Findings in such a helper are keyed by the owner, so that moving a statement into a helper
        of its function does not turn a listed finding into a new one."""
        if not hasattr(self, '_callers'):
            self._callers = {}
            for k, tgts in self.cg.edges.items():
                for t in tgts:
                    self._callers.setdefault(t, set()).add(k)
        seen = set()
        while key not in seen:
            seen.add(key)
            f = self.prog.funcs.get(key)
            if f is None or not f.name.startswith('_') or f.name.startswith('__'):
                break
            cs = self._callers.get(key, set()) - {key}
            if len(cs) != 1:
                break
            (c,) = cs
            if self.prog.funcs[c].mod is not f.mod:
                break
            key = c
        return key

    def view(self, func, keep=()):
        """The function with the statement-level calls of private helpers of its module / class replaced by their bodies
        (see inline.py): for rules that follow the paths of one function and must not care whether a part of it was moved
        into a helper.  Returns ``func`` itself when nothing was inlined."""
        if not hasattr(self, '_views'):
            self._views = {}
        vkey = (func.key, tuple(sorted(keep)))
        if vkey in self._views:
            return self._views[vkey]
        from .inline import inline_view
        from .model import Func

        def lookup(name, is_method):
            if not name.startswith('_') or name.startswith('__') or name in keep:
                return None
            if is_method:
                if func.cls is None:
                    return None
                m = func.cls.lookup(name)
                return m.node if m is not None and m.mod is func.mod else None
            g = func.mod.funcs.get(name)
            return g.node if g is not None and g.cls is None and g.outer is None else None
        node, inlined = inline_view(func.node, lookup)
        if not inlined:
            self._views[vkey] = func
            return func
        v = Func(func.mod, func.qual, node, cls=func.cls, outer=func.outer)
        v.inlined = inlined
        v.view_of = func
        v.nested = func.nested
        v.view_id = '%s#view%d' % (func.qual, len(self._views))
        self._views[vkey] = v
        return v

    def cfg(self, func):
        if getattr(func, 'view_of', None) is not None:
            k = (func.mod.rel, func.view_id)
            if k not in self._cfgs:
                self._cfgs[k] = CFG(func.node)
            return self._cfgs[k]
        if func.key not in self._cfgs:
            self._cfgs[func.key] = CFG(func.node)
        return self._cfgs[func.key]

    # -- constant folding of parso modules ---------------------------------
    def folder(self, rel):
        if rel not in self._folders:
            path = os.path.join(self.root, rel)
            if not os.path.exists(path):
                raise AnalysisError('anchor vanished: module %s' % rel)
            self._folders[rel] = fold.fold_file(path, self._resolve)
        return self._folders[rel]

    def _resolve(self, dotted):
        if not dotted or not dotted.startswith('parso'):
            return None
        rel = dotted.replace('.', '/') + '.py'
        if not os.path.exists(os.path.join(self.root, rel)):
            rel = dotted.replace('.', '/') + '/__init__.py'
            if not os.path.exists(os.path.join(self.root, rel)):
                return None
        return self.folder(rel)

    def token_collection(self, version):
        """Folded locals of tokenize._create_token_collection(version)."""
        version = tuple(version)
        if version not in self._tc:
            f = self.folder('parso/python/tokenize.py')
            env = f.function_locals('_create_token_collection', version)
            self._tc[version] = self._canonical_lex(env)
        return self._tc[version]

    def _canonical_lex(self, env):
        """Add role-based entries (independent of the spelling of local variables) recovered from the
        TokenCollection the function returns: the pseudo-token pattern is taken apart by structure and each
        alternative is identified by what it matches."""
        import ast as _ast
        from . import rx
        from .fold import Obj, Rx
        res = env.get('$result')
        mod = self.prog.mod('parso/python/tokenize.py')
        cls = mod.classes.get('TokenCollection')
        if not isinstance(res, Obj) or cls is None:
            raise AnalysisError('_create_token_collection does not return a TokenCollection(...) the folder can follow')
        fields = [st.target.id for st in cls.node.body
                  if isinstance(st, _ast.AnnAssign) and isinstance(st.target, _ast.Name)]
        vals = dict(zip(fields, res.args))
        vals.update(res.kwargs)
        for k in ('pseudo_token', 'endpats', 'whitespace', 'fstring_pattern_map', 'always_break_tokens'):
            if k not in vals:
                raise AnalysisError('TokenCollection field %s not found' % k)
        out = dict(env)
        pseudo = vals['pseudo_token']
        ws = vals['whitespace']
        if not isinstance(pseudo, Rx) or not isinstance(ws, Rx):
            raise AnalysisError('pseudo_token / whitespace do not fold to compiled patterns')
        out['PseudoToken'] = pseudo.source
        out['whitespace'] = ws
        out['Whitespace'] = ws.source
        groups, fl = rx.top_groups(pseudo.source, pseudo.flags)
        if len(groups) != 2:
            raise AnalysisError('pseudo token is not (whitespace)(token)')
        alts = rx.alternatives(groups[1])
        probes = {'Number': '1.5e3j', 'Funny': '->', 'Name': 'abc', 'ContStr': "'a'", 'PseudoExtras': '#c'}
        for role, probe in probes.items():
            hit = [a for a in alts if rx.bt_match(rx.items_source(a) + r'\Z', probe) == len(probe)]
            if len(hit) != 1:
                raise AnalysisError('cannot identify the %s alternative of the pseudo token (%d candidates)'
                                    % (role, len(hit)))
            out[role] = rx.items_source(hit[0])
            if role == 'PseudoExtras':
                sub = [a for a in rx.alternatives(hit[0])
                       if rx.bt_match(rx.items_source(a) + r'\Z', probe) == len(probe)]
                if len(sub) != 1:
                    raise AnalysisError('cannot identify the comment alternative of the pseudo token')
                out['Comment'] = rx.items_source(sub[0])
        endpats = vals['endpats']
        if not isinstance(endpats, dict) or not endpats:
            raise AnalysisError('endpats does not fold to a dict')
        out['endpats'] = endpats
        single, double = "'", '"'
        out['possible_prefixes'] = {k[:-1] for k in endpats
                                    if k[-1:] in (single, double) and not k.endswith((single * 3, double * 3))}
        for q, role in ((single, 'Single'), (double, 'Double'), (single * 3, 'Single3'), (double * 3, 'Double3')):
            if q not in endpats or not isinstance(endpats[q], Rx):
                raise AnalysisError('endpats has no pattern for %r' % q)
            out[role] = endpats[q].source
        fmap = vals['fstring_pattern_map']
        if isinstance(fmap, dict) and not all(isinstance(k, str) and isinstance(v, str) for k, v in fmap.items()):
            raise AnalysisError('the f-string pattern map of the token collection does not map prefix+quote strings to quote '
                                'strings any more (values: %s): the lexical model of the tokenizer cannot be built'
                                % sorted({type(v).__name__ if not hasattr(v, 'cls') else str(getattr(v, 'cls', v)) for v in fmap.values()})[:3])
        out['fstring_prefixes'] = {k[:-len(v)] for k, v in fmap.items()} if isinstance(fmap, dict) else set()
        out['always_break_tokens'] = vals['always_break_tokens']
        return out

    # -- CPython reference sources -------------------------------------------
    def reference_versions(self):
        out = []
        if not os.path.isdir(PYENV):
            return out
        for d in sorted(os.listdir(PYENV)):
            parts = d.split('.')
            if len(parts) == 3 and parts[0] == '3':
                lib = os.path.join(PYENV, d, 'lib', 'python3.%s' % parts[1])
                if os.path.exists(os.path.join(lib, 'tokenize.py')):
                    out.append(((3, int(parts[1])), lib))
        return sorted(out)

    def reference_folder(self, lib, name):
        key = (lib, name)
        if key not in self._folders:
            def res(dotted, lib=lib):
                p = os.path.join(lib, (dotted or '').replace('.', '/') + '.py')
                if dotted in ('token',) and os.path.exists(p):
                    return self.reference_folder(lib, dotted + '.py')
                return None
            self._folders[key] = fold.fold_file(os.path.join(lib, name), res)
        return self._folders[key]
