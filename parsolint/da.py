"""E1 - definite assignment (possibly-unbound locals), path-sensitive on the
truthiness of plain local names.

Abstract state at a CFG node = set of *worlds*; a world is
(frozenset of definitely-assigned locals, frozenset of (name, truthy?) facts).
Worlds are kept apart so that correlations such as "``endprog`` is assigned
whenever ``contstr`` is truthy" survive joins.
"""
import ast

from .cfg import CFG, node_exprs, contains_yield
from .model import walk_own, norm, head

WORLD_CAP = 192


# ----------------------------------------------------------------------------
# scopes
# ----------------------------------------------------------------------------
def _targets(t, out):
    if isinstance(t, ast.Name):
        out.add(t.id)
    elif isinstance(t, (ast.Tuple, ast.List)):
        for e in t.elts:
            _targets(e, out)
    elif isinstance(t, ast.Starred):
        _targets(t.value, out)


def function_locals(fn):
    """Names that are local to ``fn`` (parameters included), following Python's rules."""
    names = set()
    declared = set()
    a = fn.args
    for x in a.posonlyargs + a.args + a.kwonlyargs:
        names.add(x.arg)
    if a.vararg:
        names.add(a.vararg.arg)
    if a.kwarg:
        names.add(a.kwarg.arg)
    params = set(names)

    def visit(n):
        for c in ast.iter_child_nodes(n):
            if isinstance(c, (ast.FunctionDef, ast.AsyncFunctionDef, ast.ClassDef)):
                names.add(c.name)
                for d in c.decorator_list:
                    visit(d)
                continue
            if isinstance(c, ast.Lambda):
                continue
            if isinstance(c, (ast.ListComp, ast.SetComp, ast.DictComp, ast.GeneratorExp)):
                # only walrus targets leak out of a comprehension
                for sub in ast.walk(c):
                    if isinstance(sub, ast.NamedExpr) and isinstance(sub.target, ast.Name):
                        names.add(sub.target.id)
                # the outermost iterable is evaluated in the enclosing scope: nothing binds there
                continue
            if isinstance(c, ast.Name) and isinstance(c.ctx, (ast.Store, ast.Del)):
                names.add(c.id)
            elif isinstance(c, (ast.Global, ast.Nonlocal)):
                declared.update(c.names)
            elif isinstance(c, (ast.Import, ast.ImportFrom)):
                for al in c.names:
                    if al.name != '*':
                        names.add((al.asname or al.name).split('.')[0])
            elif isinstance(c, ast.ExceptHandler) and c.name:
                names.add(c.name)
            elif isinstance(c, ast.AnnAssign) and c.value is None:
                # bare annotation makes the name local without binding it
                if isinstance(c.target, ast.Name):
                    names.add(c.target.id)
                continue
            elif isinstance(c, (ast.MatchAs, ast.MatchStar)) and c.name:
                names.add(c.name)
            visit(c)
    for st in fn.body:
        if isinstance(st, (ast.FunctionDef, ast.AsyncFunctionDef, ast.ClassDef)):
            names.add(st.name)
            for d in st.decorator_list:
                visit(d)
        else:
            # wrap so that top-level statements are handled as children
            visit(ast.Module(body=[st], type_ignores=[]))
    return (names - declared), params


def free_reads(fn):
    """Names read inside ``fn`` (including deeper nested functions) that are not local to it."""
    own, _ = function_locals(fn)
    out = {}

    def visit(n, bound):
        for c in ast.iter_child_nodes(n):
            if isinstance(c, (ast.FunctionDef, ast.AsyncFunctionDef)):
                inner, _ = function_locals(c)
                for d in c.decorator_list + c.args.defaults + [k for k in c.args.kw_defaults if k]:
                    visit(ast.Expr(value=d), bound)
                visit(c, bound | inner)
                continue
            if isinstance(c, ast.Lambda):
                la = c.args
                b = {x.arg for x in la.posonlyargs + la.args + la.kwonlyargs}
                if la.vararg:
                    b.add(la.vararg.arg)
                if la.kwarg:
                    b.add(la.kwarg.arg)
                visit(c, bound | b)
                continue
            if isinstance(c, (ast.ListComp, ast.SetComp, ast.DictComp, ast.GeneratorExp)):
                b = set()
                for g in c.generators:
                    _targets(g.target, b)
                visit(c, bound | b)
                continue
            if isinstance(c, ast.Name) and isinstance(c.ctx, ast.Load) and c.id not in bound:
                out.setdefault(c.id, c)
            visit(c, bound)
    visit(fn, own)
    return out


# ----------------------------------------------------------------------------
# expression helpers
# ----------------------------------------------------------------------------
def const_truth(v, mutable_ok=False):
    """Truthiness of an expression when it is evident from its syntax, else None.  A list / set / dict display says nothing
    about the variable later on (it is filled or emptied through its methods) unless the caller tracks those calls."""
    if isinstance(v, ast.Constant):
        return bool(v.value)
    if isinstance(v, (ast.List, ast.Set, ast.Dict)) and not mutable_ok:
        return None
    if isinstance(v, (ast.List, ast.Tuple, ast.Set)):
        if any(isinstance(e, ast.Starred) for e in v.elts):
            return None
        return bool(v.elts)
    if isinstance(v, ast.Dict):
        return bool(v.keys)
    if isinstance(v, ast.JoinedStr):
        return None
    return None


def loads_in(expr, skip_lambda=True):
    """(Name-load nodes, direct calls of plain names, walrus targets) evaluated by ``expr``
    in the current scope.  Comprehension-bound names are excluded."""
    loads, calls, walrus = [], [], []

    def visit(n, bound):
        if isinstance(n, ast.Lambda):
            return      # body runs later; not checked (counted by the caller)
        if isinstance(n, (ast.FunctionDef, ast.AsyncFunctionDef, ast.ClassDef)):
            return
        if isinstance(n, (ast.ListComp, ast.SetComp, ast.DictComp, ast.GeneratorExp)):
            b = set(bound)
            for g in n.generators:
                visit(g.iter, b)
                _targets(g.target, b)
                for i in g.ifs:
                    visit(i, b)
            if isinstance(n, ast.DictComp):
                visit(n.key, b)
                visit(n.value, b)
            else:
                visit(n.elt, b)
            return
        if isinstance(n, ast.NamedExpr):
            visit(n.value, bound)
            if isinstance(n.target, ast.Name):
                walrus.append(n.target.id)
            return
        if isinstance(n, ast.Name):
            if isinstance(n.ctx, ast.Load) and n.id not in bound:
                loads.append(n)
            return
        if isinstance(n, ast.Call) and isinstance(n.func, ast.Name) and n.func.id not in bound:
            calls.append(n)
        for c in ast.iter_child_nodes(n):
            visit(c, bound)
    visit(expr, frozenset())
    return loads, calls, walrus


# ----------------------------------------------------------------------------
class Finding:
    def __init__(self, var, node, kind, detail=''):
        self.var, self.node, self.kind, self.detail = var, node, kind, detail


class DefiniteAssignment:
    """Run on one function.  ``nonempty_iter(expr) -> bool`` tells whether a for-loop
    iterable is known to yield at least once; ``nested`` maps local function names to
    their ast nodes (free variables are checked at direct call sites)."""

    def __init__(self, fn_node, nonempty_iter=None, cfg=None):
        self.fn = fn_node
        self.cfg = cfg or CFG(fn_node)
        self.locals, self.params = function_locals(fn_node)
        _ne = nonempty_iter or (lambda e: False)
        _ne_memo = {}

        def _ne_cached(e):
            k = id(e)
            if k not in _ne_memo:
                _ne_memo[k] = _ne(e)
            return _ne_memo[k]
        self.nonempty_iter = _ne_cached
        self._loads_memo = {}
        self.nested = {}
        for n in walk_own(fn_node):
            if isinstance(n, (ast.FunctionDef, ast.AsyncFunctionDef)) and n is not fn_node:
                self.nested.setdefault(n.name, n)
        self.fact_vars = self._fact_vars()
        self.findings = {}
        self.stats = {'lambda_bodies_unchecked': 0, 'nested_escapes_unchecked': 0, 'collapsed_nodes': 0}
        self.state = {}
        self._free = {}

    def _fact_vars(self):
        out = set()
        for n in self.cfg.nodes:
            if n.kind == 'test':
                e = n.ast
                if isinstance(e, ast.Name):
                    out.add(e.id)
                elif isinstance(e, ast.Compare) and len(e.ops) == 1 and isinstance(e.left, ast.Name) \
                        and isinstance(e.ops[0], (ast.Is, ast.IsNot)) \
                        and isinstance(e.comparators[0], ast.Constant) and e.comparators[0].value is None:
                    out.add(e.left.id)
        return out & self.locals

    # -- transfer ------------------------------------------------------------
    def _bind(self, world, names, truth=None):
        assigned, facts = world
        names = set(names)
        facts = frozenset(f for f in facts if f[0].split('#')[0] not in names)
        if truth is not None and len(names) == 1:
            (nm,) = names
            if nm in self.fact_vars:
                facts = facts | {(nm, truth)}
        return (assigned | (names & self.locals), facts)

    def _check_expr(self, expr, world, node):
        k = id(expr)
        if k not in self._loads_memo:
            self._loads_memo[k] = loads_in(expr) + (any(isinstance(sub, ast.Lambda) for sub in ast.walk(expr)),)
        loads, calls, walrus, has_lambda = self._loads_memo[k]
        assigned = world[0]
        for n in loads:
            if n.id in self.locals and n.id not in assigned:
                self._report(n.id, node, 'read')
        for c in calls:
            name = c.func.id
            if name in self.nested and name in self.locals:
                self._check_nested_call(name, world, node)
        if has_lambda:
            self.stats['lambda_bodies_unchecked'] += 1
        if walrus:
            world = self._bind(world, walrus)
        return world

    def _check_nested_call(self, name, world, node):
        fn = self.nested[name]
        if name not in self._free:
            self._free[name] = free_reads(fn)
        for var in self._free[name]:
            if var in self.locals and var not in world[0] and var != name:
                self._report(var, node, 'closure', 'free variable of nested function %s()' % name)

    def _report(self, var, node, kind, detail=''):
        key = (var, node.id, kind)
        if key not in self.findings:
            self.findings[key] = Finding(var, node, kind, detail)

    def _refine(self, world, expr, polarity):
        """World after ``expr`` evaluated to ``polarity``; None when infeasible."""
        assigned, facts = world
        if isinstance(expr, ast.Name) and expr.id in self.fact_vars:
            if (expr.id, not polarity) in facts:
                return None
            if polarity and (expr.id + '#isnone', True) in facts:
                return None
            extra = {(expr.id, polarity)}
            if polarity:
                extra.add((expr.id + '#isnone', False))
            return (assigned, facts | extra)
        if isinstance(expr, ast.Compare) and len(expr.ops) == 1 and isinstance(expr.left, ast.Name) \
                and expr.left.id in self.fact_vars and isinstance(expr.ops[0], (ast.Is, ast.IsNot)) \
                and isinstance(expr.comparators[0], ast.Constant) and expr.comparators[0].value is None:
            is_none = isinstance(expr.ops[0], ast.Is) == polarity
            key = expr.left.id + '#isnone'
            if (key, not is_none) in facts:
                return None
            if is_none:
                if (expr.left.id, True) in facts:
                    return None
                return (assigned, facts | {(expr.left.id, False), (key, True)})
            return (assigned, facts | {(key, False)})
        return world

    def _transfer(self, node, world):
        """-> dict label -> world (or None), 'exc' handled by the caller."""
        k = node.kind
        if k in ('entry', 'exit', 'raise', 'join'):
            return {None: world}
        if k == 'test':
            w = self._check_expr(node.ast, world, node)
            return {'T': self._refine(w, node.ast, True), 'F': self._refine(w, node.ast, False)}
        if k == 'iter':
            return {None: self._check_expr(node.ast, world, node)}
        if k in ('next0', 'next'):
            names = set()
            _targets(node.ast, names)
            # non-name targets (attributes / subscripts) read their base
            w = world
            for sub in ast.walk(node.ast):
                if isinstance(sub, (ast.Attribute, ast.Subscript)):
                    w = self._check_expr(sub, w, node)
            out = {'next': self._bind(w, names)}
            done = world
            if k == 'next0' and self.nonempty_iter(node.stmt.iter):
                done = None
            out['done'] = done
            return out
        if k == 'with':
            w = world
            for item in node.ast.items:
                w = self._check_expr(item.context_expr, w, node)
                if item.optional_vars is not None:
                    names = set()
                    _targets(item.optional_vars, names)
                    w = self._bind(w, names)
            return {None: w}
        if k == 'case':
            names = set()
            for sub in ast.walk(node.ast.pattern):
                if isinstance(sub, (ast.MatchAs, ast.MatchStar)) and sub.name:
                    names.add(sub.name)
                elif isinstance(sub, ast.MatchMapping) and sub.rest:
                    names.add(sub.rest)
            return {None: self._bind(world, names)}
        if k == 'handler':
            w = world
            if node.ast.type is not None:
                w = self._check_expr(node.ast.type, w, node)
            if node.ast.name:
                w = self._bind(w, [node.ast.name])
            return {None: w}
        st = node.ast
        w = world
        if isinstance(st, ast.Assign):
            w = self._check_expr(st.value, w, node)
            names = set()
            for t in st.targets:
                _targets(t, names)
                for sub in ast.walk(t):
                    if isinstance(sub, (ast.Attribute, ast.Subscript)):
                        w = self._check_expr(sub, w, node)
            truth = const_truth(st.value) if (len(st.targets) == 1 and isinstance(st.targets[0], ast.Name)) else None
            return {None: self._bind(w, names, truth)}
        if isinstance(st, ast.AugAssign):
            w = self._check_expr(st.value, w, node)
            if isinstance(st.target, ast.Name):
                if st.target.id in self.locals and st.target.id not in w[0]:
                    self._report(st.target.id, node, 'read')
                return {None: self._bind(w, [st.target.id])}
            return {None: self._check_expr(st.target, w, node)}
        if isinstance(st, ast.AnnAssign):
            if st.value is None:
                return {None: w}
            w = self._check_expr(st.value, w, node)
            names = set()
            _targets(st.target, names)
            return {None: self._bind(w, names, const_truth(st.value))}
        if isinstance(st, (ast.FunctionDef, ast.AsyncFunctionDef, ast.ClassDef)):
            for e in node_exprs(node):
                w = self._check_expr(e, w, node)
            return {None: self._bind(w, [st.name])}
        if isinstance(st, (ast.Import, ast.ImportFrom)):
            return {None: self._bind(w, [(a.asname or a.name).split('.')[0] for a in st.names])}
        if isinstance(st, ast.Delete):
            assigned, facts = w
            for t in st.targets:
                if isinstance(t, ast.Name):
                    if t.id in self.locals and t.id not in assigned:
                        self._report(t.id, node, 'read')
                    assigned = assigned - {t.id}
                    facts = frozenset(f for f in facts if f[0].split('#')[0] != t.id)
                else:
                    self._check_expr(t, w, node)
            return {None: (assigned, facts)}
        if isinstance(st, ast.Assert):   # the assert-fail node
            if st.msg is not None:
                self._check_expr(st.msg, w, node)
            return {None: w}
        if isinstance(st, (ast.Global, ast.Nonlocal, ast.Pass, ast.Break, ast.Continue)):
            return {None: w}
        if isinstance(st, ast.Return):
            if st.value is not None:
                w = self._check_expr(st.value, w, node)
            return {None: w}
        if isinstance(st, ast.Raise):
            if st.exc is not None:
                w = self._check_expr(st.exc, w, node)
            if st.cause is not None:
                w = self._check_expr(st.cause, w, node)
            return {None: w}
        if isinstance(st, ast.Expr):
            return {None: self._check_expr(st.value, w, node)}
        if isinstance(st, ast.expr):     # match subject
            return {None: self._check_expr(st, w, node)}
        return {None: w}

    # -- fixpoint ------------------------------------------------------------
    def run(self):
        cfg = self.cfg
        init = (frozenset(self.params), frozenset())
        self.state = {n: set() for n in cfg.nodes}
        self.pending = {n: [] for n in cfg.nodes}       # worlds of state[n] that were not propagated yet
        self.done = {n: set() for n in cfg.nodes}       # worlds that were propagated (or merged into a weaker one) already
        # facts about a name that is not tested again before it is re-bound cannot prune any path: dropped on arrival
        from .paths import FactFlow
        flow = FactFlow(cfg)
        flow.fact_vars = set(self.fact_vars)
        self._live = flow.live()
        self.collapsed = set()
        self.state[cfg.entry].add(init)
        self.pending[cfg.entry].append(init)
        work = [cfg.entry]
        inwork = {cfg.entry}
        while work:
            n = work.pop()
            inwork.discard(n)
            new = self.pending[n]
            if not new:
                continue
            self.pending[n] = []
            live = self.state[n]
            for w in new:
                if w not in live:
                    continue            # merged away meanwhile; the merged world is pending itself
                self.done[n].add(w)
                outs = self._transfer(n, w)
                for s, lab in n.succ:
                    if lab == 'exc':
                        ow = w          # state before the node
                    else:
                        ow = outs.get(lab, outs.get(None))
                        if lab is not None and lab not in outs:
                            ow = outs.get(None)
                    if ow is None:
                        continue
                    if self._add(s, ow) and s not in inwork:
                        work.append(s)
                        inwork.add(s)
        return list(self.findings.values())

    def _add(self, node, world):
        live = self._live[node]
        if world[1] and any(f[0].split('#')[0] not in live for f in world[1]):
            world = (world[0], frozenset(f for f in world[1] if f[0].split('#')[0] in live))
        st = self.state[node]
        if node in self.collapsed:
            (cur,) = st
            new = (cur[0] & world[0], cur[1] & world[1])
            if new == cur:
                return False
            st.clear()
            st.add(new)
            self.pending[node] = [new]
            return True
        if world in st or world in self.done[node]:
            return False                # known, or merged into a weaker world earlier (which covers it)
        st.add(world)
        self.pending[node].append(world)
        if len(st) > WORLD_CAP:
            before = set(st)
            self.done[node] |= before
            # first: merge worlds with the same assigned-set (their facts are intersected);
            # this cannot produce a spurious unbound read by itself because the merged
            # worlds agree on what is assigned
            groups = {}
            for a, f in st:
                groups[a] = f if a not in groups else (groups[a] & f)
            st.clear()
            st.update(groups.items())
            self.stats['merged_nodes'] = self.stats.get('merged_nodes', 0) + 1
            if len(st) > WORLD_CAP // 2:
                # second: merge worlds with the same facts (their assigned-sets are intersected: a name counts as bound
                # only when it is bound in all of them); the correlation between a fact and what is bound under it -
                # the reason facts are tracked at all - survives
                groups = {}
                for a, f in st:
                    groups[f] = a if f not in groups else (groups[f] & a)
                st.clear()
                st.update((a, f) for f, a in groups.items())
            if len(st) > WORLD_CAP // 2:
                self.collapsed.add(node)
                self.stats['collapsed_nodes'] += 1
                a = frozenset.intersection(*(w[0] for w in st))
                f = frozenset.intersection(*(w[1] for w in st))
                st.clear()
                st.add((a, f))
            # worlds that exist only since the merge have to be propagated; so have the not yet propagated survivors
            keep = [w for w in self.pending[node] if w in st]
            self.pending[node] = keep + [w for w in st if w not in before]
        return True


def must_yield(fn_node, cfg=None):
    """A generator every normal path of which passes through at least one yield."""
    cfg = cfg or CFG(fn_node)
    ys = [n for n in cfg.nodes if contains_yield(n)]
    if not ys:
        return False
    reach = cfg.reachable(blocked=ys, labels_blocked=('exc',))
    # yield nodes are entered but not passed through
    return cfg.exit not in reach
