"""Regular-language rules RX-1 .. RX-11, TREE-8 (engine E3 + constant folder)."""
import ast

from .. import rx
from ..fold import Rx, UNKNOWN
from ..model import AnalysisError, norm, head, qual_of, walk_own, reaching_values

TOK = 'parso/python/tokenize.py'
PREFIX = 'parso/python/prefix.py'
UTILS = 'parso/utils.py'
DIFF = 'parso/python/diff.py'

NL = r'(?:\r\n|\r|\n)'


def _src(v, what):
    if isinstance(v, Rx):
        return v.source
    if isinstance(v, (str, bytes)):
        return v
    raise AnalysisError('cannot fold %s to a regex source (got %r)' % (what, v))


# ---------------------------------------------------------------------------
# RX-3 / RX-4 : split_lines
# ---------------------------------------------------------------------------
_SPLITLINES_SEPS = None


def splitlines_separators():
    """Single characters at which str.splitlines breaks (CPython's behaviour, not parso's)."""
    global _SPLITLINES_SEPS
    if _SPLITLINES_SEPS is None:
        _SPLITLINES_SEPS = {chr(c) for c in range(0x110000) if len(('a' + chr(c) + 'b').splitlines()) > 1}
    return _SPLITLINES_SEPS


def rx_3_4(ctx, rep):
    rep.rule('RX-3', '_NON_LINE_BREAKS + {\\n, \\r} is exactly the set of str.splitlines separators')
    rep.rule('RX-4', 'the keepends=False pattern denotes exactly {\\n, \\r\\n, \\r} with \\r\\n matched as one break; '
                     'the keepends=True branch mutates its list only by merging neighbours / appending ""')
    f = ctx.prog.func(UTILS, 'split_lines')
    nlb = ctx.folder(UTILS).get('_NON_LINE_BREAKS')
    if not isinstance(nlb, (tuple, list, set, str)):
        raise AnalysisError('_NON_LINE_BREAKS does not fold')
    have = set(nlb) | {'\n', '\r'}
    want = splitlines_separators()
    rep.ob('RX-3', UTILS, '<module>', '_NON_LINE_BREAKS', have == want,
           'missing %r, superfluous %r' % (sorted(want - have), sorted(have - want)),
           witness=(sorted(want - have) or sorted(have - want) or [None])[0])
    # the merge test must consult that table for the last character of each piece
    merge_ok = False
    uses_splitlines_true = False
    # split_lines and the module-level helpers it calls
    scope_nodes = [f.node]
    for n in ast.walk(f.node):
        if isinstance(n, ast.Call) and isinstance(n.func, ast.Name) and n.func.id in f.mod.funcs and n.func.id != f.name:
            scope_nodes.append(f.mod.funcs[n.func.id].node)
    for n in [x for sc in scope_nodes for x in ast.walk(sc)]:
        if isinstance(n, ast.Compare) and len(n.ops) == 1 and isinstance(n.ops[0], ast.In) \
                and norm(n.comparators[0]) == '_NON_LINE_BREAKS':
            merge_ok = True
        if isinstance(n, ast.Call) and isinstance(n.func, ast.Attribute) and n.func.attr == 'endswith' and n.args \
                and norm(n.args[0]) == '_NON_LINE_BREAKS':
            merge_ok = True          # str.endswith(tuple): the same test on the last character(s)
        if isinstance(n, ast.Call) and isinstance(n.func, ast.Attribute) and n.func.attr == 'splitlines':
            uses_splitlines_true = bool(n.args) and isinstance(n.args[0], ast.Constant) and n.args[0].value is True
    rep.ob('RX-3', UTILS, 'split_lines', 'last_chr in _NON_LINE_BREAKS', merge_ok or not uses_splitlines_true,
           'str.splitlines is used but its pieces are not re-merged by the _NON_LINE_BREAKS test')
    # keepends=False pattern(s)
    found = 0
    # the function itself and the module-level values it refers to (a precompiled / wrapped splitter)
    scopes = [f.node]
    for n in ast.walk(f.node):
        if isinstance(n, ast.Name) and isinstance(n.ctx, ast.Load):
            for v in f.mod.globals.get(n.id, []) or []:
                if v is not None and not isinstance(v, (ast.FunctionDef, ast.ClassDef)):
                    scopes.append(v)
    for n in [x for sc in scopes for x in ast.walk(sc)]:
        if isinstance(n, ast.Call) and norm(n.func) in ('re.split', 're.compile') and n.args:
            pat = n.args[0]
            if isinstance(pat, ast.Constant) and isinstance(pat.value, str):
                found += 1
                nfa = rx.compile_nfa(pat.value)
                try:
                    lang = set(rx.finite_language(nfa))
                except AnalysisError:
                    lang = None
                ok = lang == {'\n', '\r\n', '\r'}
                rep.ob('RX-4', UTILS, 'split_lines', 'pattern %r' % pat.value, ok,
                       'line-break language is %r, expected exactly \\n, \\r\\n, \\r' % (sorted(lang) if lang is not None else 'infinite'))
                rep.ob('RX-4', UTILS, 'split_lines', 'pattern %r ordered choice' % pat.value,
                       rx.bt_match(pat.value, '\r\n') == 2,
                       '\\r\\n is matched as two breaks (\\r before \\r\\n in the alternation)')
    if not found:
        # a different implementation of the keepends=False branch: anchor changed
        raise AnalysisError('split_lines: no literal line-break pattern found (anchor changed)')
    # conservation of the keepends=True list
    import copy as _copy

    def expand(e):
        """the expression with single-assignment locals that are pure index arithmetic (j = i + 1) substituted"""
        e = _copy.deepcopy(e)
        for _ in range(2):
            class T(ast.NodeTransformer):
                def visit_Name(self, n):
                    vals = [a.value for a in ast.walk(f.node) if isinstance(a, ast.Assign) and len(a.targets) == 1
                            and isinstance(a.targets[0], ast.Name) and a.targets[0].id == n.id]
                    if len(vals) == 1 and isinstance(vals[0], ast.BinOp) and all(
                            isinstance(x, (ast.Name, ast.Constant, ast.BinOp, ast.operator, ast.Load)) for x in ast.walk(vals[0])):
                        return _copy.deepcopy(vals[0])
                    return n
            e = T().visit(e)
        return e

    def xnorm(e):
        return norm(expand(e))
    lst_names = set()
    for n in ast.walk(f.node):
        if isinstance(n, ast.Assign) and isinstance(n.value, ast.Call) \
                and isinstance(n.value.func, ast.Attribute) and n.value.func.attr == 'splitlines':
            for t in n.targets:
                if isinstance(t, ast.Name):
                    lst_names.add(t.id)
    for name in sorted(lst_names):
        for n in ast.walk(f.node):
            if isinstance(n, ast.Assign):
                for t in n.targets:
                    if isinstance(t, ast.Subscript) and isinstance(t.value, ast.Name) and t.value.id == name:
                        i = xnorm(t.slice)
                        want1 = '%s[%s] + %s[%s + 1]' % (name, i, name, i)
                        ok = xnorm(n.value) == want1
                        # must be followed by `del lst[i + 1]`
                        parent = getattr(n, '_parent', None)
                        body = None
                        for field in ('body', 'orelse', 'finalbody'):
                            b = getattr(parent, field, None)
                            if isinstance(b, list) and n in b:
                                body = b
                        nxt = body[body.index(n) + 1] if body and body.index(n) + 1 < len(body) else None
                        if nxt is None and isinstance(parent, ast.Try) and body is parent.body and parent.orelse:
                            nxt = parent.orelse[0]      # try: A  except IndexError: pass  else: B   runs A; B
                        ok = ok and isinstance(nxt, ast.Delete) and xnorm(nxt) == 'del %s[%s + 1]' % (name, i)
                        rep.ob('RX-4', UTILS, 'split_lines', norm(n), ok,
                               'list element overwritten by something else than the concatenation of itself and '
                               'its right neighbour followed by deleting that neighbour')
            elif isinstance(n, ast.Delete):
                for t in n.targets:
                    if isinstance(t, ast.Subscript) and isinstance(t.value, ast.Name) and t.value.id == name:
                        parent = getattr(n, '_parent', None)
                        body = None
                        for field in ('body', 'orelse', 'finalbody'):
                            b = getattr(parent, field, None)
                            if isinstance(b, list) and n in b:
                                body = b
                        prev = body[body.index(n) - 1] if body and body.index(n) > 0 else None
                        if prev is None and isinstance(parent, ast.Try) and body is parent.orelse and parent.body:
                            prev = parent.body[-1]
                        ok = isinstance(prev, ast.Assign) and len(prev.targets) == 1 \
                            and isinstance(prev.targets[0], ast.Subscript) and norm(prev.targets[0].value) == name \
                            and xnorm(t.slice) == '%s + 1' % xnorm(prev.targets[0].slice) \
                            and xnorm(prev.value) == '%s[%s] + %s' % (name, xnorm(prev.targets[0].slice), xnorm(t))
                        rep.ob('RX-4', UTILS, 'split_lines', norm(n), ok,
                               'a piece of the text is deleted from the line list without having been merged into its left neighbour')
            elif isinstance(n, ast.Call) and isinstance(n.func, ast.Attribute) \
                    and isinstance(n.func.value, ast.Name) and n.func.value.id == name:
                if n.func.attr == 'append':
                    ok = len(n.args) == 1 and isinstance(n.args[0], ast.Constant) and n.args[0].value == ''
                    rep.ob('RX-4', UTILS, 'split_lines', norm(n), ok, 'appends non-empty text to the line list')
                    # its guard must treat \n and \r alike
                    p = n
                    while p is not None and not isinstance(p, ast.If):
                        p = getattr(p, '_parent', None)
                    if p is not None:
                        t = norm(p.test)
                        rep.ob('RX-4', UTILS, 'split_lines', 'if %s' % t,
                               ("endswith('\\n')" in t) == ("endswith('\\r')" in t),
                               'final empty line is added for one newline style only')
                elif n.func.attr in ('insert', 'pop', 'remove', 'extend', 'clear', 'sort', 'reverse'):
                    rep.ob('RX-4', UTILS, 'split_lines', norm(n), False, 'non-conservative mutation of the line list')
    rep.minimum('RX-4', 3)


# ---------------------------------------------------------------------------
# RX-5 / RX-6 : encoding declaration
# ---------------------------------------------------------------------------
def detect_encoding_func(ctx):
    """The function that decides the source encoding: the helper nested in python_bytes_to_unicode, or - when it was
    moved out - the function python_bytes_to_unicode calls that looks for a coding declaration."""
    mod = ctx.prog.mod(UTILS)
    outer = mod.funcs.get('python_bytes_to_unicode')
    if outer is None:
        raise AnalysisError('anchor vanished: parso/utils.py:python_bytes_to_unicode')
    folder = ctx.folder(UTILS)

    def mentions_coding(f):
        for n in walk_own(f.node):
            if isinstance(n, ast.Constant) and isinstance(n.value, (bytes, str)):
                v = n.value if isinstance(n.value, bytes) else n.value.encode('latin-1', 'replace')
                if b'coding' in v and b'[' in v:
                    return True
            if isinstance(n, ast.Name) and isinstance(n.ctx, ast.Load):
                try:
                    g = folder.get(n.id)
                except AnalysisError:
                    continue
                if isinstance(g, Rx):
                    src = g.source if isinstance(g.source, bytes) else g.source.encode('latin-1', 'replace')
                    if b'coding' in src:
                        return True
        return False
    cands = list(outer.nested.values())
    for n in walk_own(outer.node):
        if isinstance(n, ast.Call) and isinstance(n.func, ast.Name) and n.func.id in mod.funcs:
            cands.append(mod.funcs[n.func.id])
    hits = [c for c in cands if mentions_coding(c)]
    if len(hits) != 1:
        raise AnalysisError('anchor vanished: the encoding-detection helper of python_bytes_to_unicode (%d candidates)' % len(hits))
    return hits[0]


def _with_flags(source, flags):
    """The pattern text with its compile flags spelled as a scoped inline group, so that it can be embedded in a larger
    pattern: re.VERBOSE changes what the blanks and `#` of the source mean, re.DOTALL what `.` means."""
    import re as _re
    letters = ''
    for fl, ch in ((_re.VERBOSE, 'x'), (_re.DOTALL, 's'), (_re.MULTILINE, 'm'), (_re.IGNORECASE, 'i')):
        if flags & fl:
            letters += ch
    if not letters:
        return source
    if isinstance(source, bytes):
        return b'(?' + letters.encode() + b':' + source + b'\n)'
    return '(?' + letters + ':' + source + '\n)'


def _detect_encoding_patterns(ctx):
    """-> (func, window, decl, loop).  decl / window are (method, pattern, call node); ``loop`` is None or
    (n_lines, advance_pattern) when the declaration pattern is applied at a moving offset inside
    ``for _ in range(N)`` and the offset advances over ``advance_pattern`` (line-by-line search)."""
    f = detect_encoding_func(ctx)
    folder = ctx.folder(UTILS)
    window = decl = None
    order = []
    for n in walk_own(f.node):
        if not (isinstance(n, ast.Call) and isinstance(n.func, ast.Attribute)
                and n.func.attr in ('match', 'search', 'fullmatch', 'findall', 'finditer')):
            continue
        if norm(n.func.value) == 're' and n.args and isinstance(n.args[0], ast.Constant) \
                and isinstance(n.args[0].value, (bytes, str)):
            order.append((n.func.attr, n.args[0].value, n, False))
        elif isinstance(n.func.value, ast.Name):
            name = n.func.value.id
            # a local assigned once from re.compile(<literal>) (here or in the enclosing function) ...
            local = []
            g = f
            while g is not None:
                for x in walk_own(g.node):
                    if isinstance(x, ast.Assign) and any(isinstance(t, ast.Name) and t.id == name for t in x.targets):
                        local.append(x.value)
                g = g.outer
            if local:
                v = local[0]
                if len(local) == 1 and isinstance(v, ast.Call) and norm(v.func) == 're.compile' and len(v.args) == 1 \
                        and not v.keywords and isinstance(v.args[0], ast.Constant) and isinstance(v.args[0].value, (bytes, str)):
                    order.append((n.func.attr, v.args[0].value, n, True))
                continue
            # ... or a module-level compiled pattern
            try:
                v = folder.get(name)
            except AnalysisError:
                continue
            if isinstance(v, Rx):
                order.append((n.func.attr, _with_flags(v.source, v.flags), n, True))
    for attr, pat, n, compiled in order:
        text = pat if isinstance(pat, bytes) else pat.encode('latin-1')
        if b'coding' in text:
            if decl is not None:
                raise AnalysisError('detect_encoding: more than one declaration pattern (shape not modelled)')
            decl = (attr, pat, n)
        else:
            if window is not None:
                raise AnalysisError('detect_encoding: more than one auxiliary pattern (shape not modelled)')
            window = (attr, pat, n)
    if decl is None:
        raise AnalysisError('detect_encoding: declaration pattern not found (anchor changed)')
    loop = None
    dcall = decl[2]
    # X.match(source, pos): a second positional argument is a moving offset
    pos_arg = dcall.args[1] if norm(dcall.func.value) != 're' and len(dcall.args) >= 2 else None
    if pos_arg is not None:
        if window is None or decl[0] != 'match' or window[0] != 'match':
            raise AnalysisError('detect_encoding: offset-based search in a shape that is not modelled')
        loop_node = dcall
        while loop_node is not None and not isinstance(loop_node, ast.For):
            loop_node = getattr(loop_node, '_parent', None)
        it = loop_node.iter if loop_node is not None else None
        if not (isinstance(it, ast.Call) and norm(it.func) == 'range' and len(it.args) == 1
                and isinstance(it.args[0], ast.Constant) and isinstance(it.args[0].value, int)):
            raise AnalysisError('detect_encoding: offset-based search outside `for _ in range(N)` (shape not modelled)')
        wcall = window[2]
        same_pos = len(wcall.args) >= 2 and norm(wcall.args[1]) == norm(pos_arg) and isinstance(pos_arg, ast.Name)
        # the offset only advances to the end of the auxiliary match
        advances = []
        for x in walk_own(f.node):
            if isinstance(x, (ast.Assign, ast.AugAssign)):
                tg = x.targets if isinstance(x, ast.Assign) else [x.target]
                if any(isinstance(t, ast.Name) and isinstance(pos_arg, ast.Name) and t.id == pos_arg.id for t in tg):
                    advances.append(x)
        wvar = None
        st = getattr(wcall, '_parent', None)
        if isinstance(st, ast.Assign) and len(st.targets) == 1 and isinstance(st.targets[0], ast.Name):
            wvar = st.targets[0].id
        ok_adv = same_pos and wvar is not None and all(
            isinstance(x, ast.Assign) and (norm(x.value) == '%s.end()' % wvar or norm(x.value) == '0') for x in advances) \
            and any(norm(x.value) == '%s.end()' % wvar for x in advances)
        if not ok_adv:
            raise AnalysisError('detect_encoding: offset arithmetic of the line-by-line search is not modelled')
        loop = (it.args[0].value, window[1])
        window = None
    return f, window, decl, loop


def rx_5_6(ctx, rep):
    rep.rule('RX-5', "every window of two lines in which parso's search finds a coding declaration is one in which "
                     "CPython's cookie_re/blank_re find one (language inclusion, bytes)")
    rep.rule('RX-6', 'the two-line window accepts an unterminated last line')
    f, window, decl, loop = _detect_encoding_patterns(ctx)
    refs = ctx.reference_versions()
    if not refs:
        raise AnalysisError('no CPython reference sources under /root/.pyenv/versions')
    lib = refs[-1][1]
    cookie = ctx.reference_folder(lib, 'tokenize.py').get('cookie_re')
    if not isinstance(cookie, Rx):
        raise AnalysisError('reference cookie_re does not fold')
    csrc = cookie.source
    if isinstance(csrc, str):
        csrc = csrc.encode('latin-1')
    # CPython: the cookie must match from the start of a line (match() + ^), the line being the 1st, or the 2nd
    # when the 1st is blank / comment only.  '.' may not cross a line end here.
    line_rest = rb'[^\r\n]*'
    csrc_line = csrc.replace(b'.*?', b'[^\\r\\n]*?')
    if b'.' in csrc_line.replace(b'\\w.', b'').replace(b'[^\\r\\n]', b''):
        raise AnalysisError('reference cookie_re has an unexpected wildcard: %r' % csrc)
    nl = NL.encode()
    blank = rb'[ \t\f]*(?:#[^\r\n]*)?'
    cookie_line = csrc_line.lstrip(b'^') + line_rest
    B = rb'(?:' + cookie_line + rb'(?:' + nl + rb'[\x00-\xff]*)?' + rb'|' + blank + nl + cookie_line + rb'(?:' + nl + rb'[\x00-\xff]*)?' + rb')'
    nB = rx.compile_nfa(B, cookie.flags)
    attr, pat, node = decl
    psrc = pat if isinstance(pat, bytes) else pat.encode('latin-1')
    anyb = rb'[\x00-\xff]*'
    if loop is not None:
        # line-by-line search: the declaration pattern is tried at the offset, which advances over the auxiliary pattern
        n_lines, adv = loop
        adv = adv if isinstance(adv, bytes) else adv.encode('latin-1')
        A = rb'(?:' + adv + rb'){0,%d}(?:' % (n_lines - 1) + psrc + rb')' + anyb
    elif attr == 'search':
        A = anyb + rb'(?:' + psrc + rb')' + anyb
    elif attr == 'match':
        A = rb'(?:' + psrc + rb')' + anyb
    else:
        raise AnalysisError('detect_encoding: unsupported use re.%s of the declaration pattern' % attr)
    nA = rx.compile_nfa(A)
    # window the search is applied to: at most two lines (everything when the pattern is applied to the source itself)
    W = rb'[^\r\n]*(?:' + nl + rb'[^\r\n]*(?:' + nl + rb')?)?' if window is not None else anyb
    nW = rx.compile_nfa(W)
    w = rx._search([nA, nW, nB], lambda fl: fl[0] and fl[1] and not fl[2])
    rep.ob('RX-5', UTILS, 'python_bytes_to_unicode.detect_encoding', 'declaration pattern %r' % (pat,), w is None,
           'text in which parso finds an encoding declaration and CPython does not' if w is not None else '',
           witness=w)
    if loop is None and attr == 'match':
        # which declaration is taken when both lines carry one: CPython reads line by line, the first one wins.  A single
        # pattern `(?:<blank-or-comment line>)? <declaration line>` has two readings of such a text; the backtracking
        # matcher takes the reading without the optional line first only when the option is lazy (`??`).
        import re._parser as _sp
        import re._constants as _sc
        try:
            tree = _sp.parse(psrc)
        except Exception as e:
            raise AnalysisError('cannot parse the declaration pattern: %s' % e)
        items = list(tree)
        # a scoped-flag group around the whole pattern
        while len(items) == 1 and items[0][0] is _sc.SUBPATTERN and items[0][1][0] is None:
            tree = items[0][1][3]
            items = list(tree)
        if items and items[0][0] in (_sc.MAX_REPEAT, _sc.MIN_REPEAT) and items[0][1][0] == 0 and items[0][1][1] == 1:
            lazy = items[0][0] is _sc.MIN_REPEAT
            fl = tree.state.flags
            def _build(sub):
                nfa = rx.NFA(255)
                nfa.start, nfa.final = rx._Builder(nfa, fl).build(sub)
                return nfa
            with_opt = rx.concat(_build(items[0][1][2]), _build(tree[1:]), rx.compile_nfa(anyb))
            without = rx.concat(_build(tree[1:]), rx.compile_nfa(anyb))
            w5 = rx.intersect_witness(with_opt, without)
            rep.ob('RX-5', UTILS, 'python_bytes_to_unicode.detect_encoding',
                   'the first of two declarations wins (optional first line is %s)' % ('lazy' if lazy else 'greedy'),
                   w5 is None or lazy,
                   'a text with a declaration on line one and on line two matches with and without the optional first '
                   'line; the greedy option makes the matcher take the declaration of line two, CPython takes line one',
                   witness=w5)
    if window is None and attr == 'match':
        # anchored pattern(s): it must also find every declaration CPython honours
        w2 = rx.included(nB, nA)
        rep.ob('RX-5', UTILS, 'python_bytes_to_unicode.detect_encoding', 'declaration pattern finds every CPython declaration',
               w2 is None, 'text in which CPython honours a coding declaration that parso does not find', witness=w2)
    if window is not None:
        wattr, wpat, wnode = window
        wsrc = wpat if isinstance(wpat, bytes) else wpat.encode('latin-1')
        nWin = rx.compile_nfa(wsrc)
        # (a) the window never exceeds two lines
        three = rx.compile_nfa(rb'[\x00-\xff]*' + nl + rb'[\x00-\xff]*' + nl + rb'[\x00-\xff]*[^\r\n][\x00-\xff]*'
                               rb'|[\x00-\xff]*' + nl + rb'[\x00-\xff]*' + nl + rb'[\x00-\xff]*' + nl + rb'[\x00-\xff]*')
        w3 = rx.intersect_witness(nWin, three)
        # \r\n counts once: remove the false positive "\r\n\r\n"... handled since NL alternation lists \r\n first
        rep.ob('RX-6', UTILS, 'python_bytes_to_unicode.detect_encoding', 'window pattern %r <= 2 lines' % (wpat,),
               w3 is None or w3.count('\n') + w3.count('\r') - w3.count('\r\n') <= 2,
               'window can extend over more than two lines', witness=w3)
        # (b) an unterminated last line is inside the window
        unterminated = rx.compile_nfa(rb'[\x00-\xff]*[^\r\n]')
        w4 = rx.intersect_witness(nWin, unterminated)
        rep.ob('RX-6', UTILS, 'python_bytes_to_unicode.detect_encoding', 'window pattern %r' % (wpat,),
               w4 is not None,
               'the window only contains newline-terminated lines: a declaration on an unterminated first/second '
               'line (file without final newline) is not seen')
    else:
        rep.note('RX-6: no separate window pattern (the declaration search works line by line)')
    # order rule: the BOM test precedes the declaration search
    bom_first = None
    for st in f.node.body:
        if isinstance(st, ast.Expr) and isinstance(st.value, ast.Constant):
            continue        # docstring
        s = norm(st)
        if 'startswith' in s and bom_first is None:
            bom_first = True
        if 'coding' in s and bom_first is None:
            bom_first = False
    rep.ob('RX-5', UTILS, 'python_bytes_to_unicode.detect_encoding', 'BOM test before declaration search',
           bom_first is True, 'the BOM is no longer tested before the declaration search')
    # the codec names the detector can return on its own: none of them may swallow the BOM (the tokenizer keeps U+FEFF
    # as a prefix part; with a BOM-consuming codec the tree no longer reproduces the decoded source)
    swallowing = {'utf-8-sig', 'utf_8_sig', 'utf8-sig', 'utf-16', 'utf_16', 'utf-32', 'utf_32', 'u16', 'u32'}
    consts = [n.value.value for n in walk_own(f.node) if isinstance(n, ast.Return) and isinstance(n.value, ast.Constant)
              and isinstance(n.value.value, str)]
    bad_codecs = sorted(c for c in consts if c.lower() in swallowing)
    rep.ob('RX-5', UTILS, 'python_bytes_to_unicode.detect_encoding', 'codec names returned as constants: %s' % sorted(set(consts)),
           not bad_codecs, 'the codec %s removes the byte order mark while decoding: the text handed to the tokenizer is '
           'shorter than the decoded source' % bad_codecs)


# ---------------------------------------------------------------------------
# RX-7 / RX-8 : lexical tables vs CPython reference
# ---------------------------------------------------------------------------
PARSO_EXTRA_OPERATORS = {
    '`': 'Python 2 back-quote, kept so that it becomes one error token',
    '`=': 'artefact of the character class [...]=? ; no grammar mentions it',
    '!': 'needed for f-string conversions; a lone ! is rejected by the grammar',
    '\n': 'newline alternatives of Special are dispatched as NEWLINE before the operator branch',
    '\r': 'same', '\r\n': 'same',
    '<>': None,
}


def _ref_tables(ctx, version, lib):
    tk = ctx.reference_folder(lib, 'tokenize.py')
    out = {}
    for name in ('Number', 'Whitespace', 'Comment'):
        v = tk.get(name)
        if not isinstance(v, str):
            raise AnalysisError('reference %s of %s does not fold' % (name, lib))
        out[name] = v
    exact = None
    try:
        exact = tk.get('EXACT_TOKEN_TYPES')
    except AnalysisError:
        pass
    if not isinstance(exact, dict):
        exact = ctx.reference_folder(lib, 'token.py').get('EXACT_TOKEN_TYPES')
    if not isinstance(exact, dict) or not exact:
        raise AnalysisError('reference EXACT_TOKEN_TYPES of %s does not fold' % lib)
    out['operators'] = set(exact)
    funny = tk.globals.get('Funny')
    if isinstance(funny, str):
        out['operators'] |= {o for o in rx.finite_language(rx.compile_nfa(funny)) if o[0] not in '\r\n'}
    else:
        out['funny_unfolded'] = True
    try:
        pref = tk.call_function('_all_string_prefixes')
        out['string_prefixes'] = set(pref) if pref is not UNKNOWN else None
    except AnalysisError:
        out['string_prefixes'] = None
    return out


def rx_7_8(ctx, rep):
    rep.rule('RX-7', "parso's Number / Whitespace / Comment patterns denote the same language as Lib/tokenize.py of each reference version")
    rep.rule('RX-8', 'every operator of the reference EXACT_TOKEN_TYPES is one maximal token of parso\'s tokenizer for '
                     'that version; parso-only operators are the reasoned list; string prefixes coincide')
    refs = ctx.reference_versions()
    if len(refs) < 4:
        raise AnalysisError('fewer than four CPython reference versions found')
    for version, lib in refs:
        if version < (3, 6):
            continue
        env = ctx.token_collection(version)
        ref = _ref_tables(ctx, version, lib)
        label = '%d.%d' % version
        for name in ('Number', 'Whitespace', 'Comment'):
            mine = env.get(name)
            if not isinstance(mine, str):
                raise AnalysisError('cannot fold tokenizer %s' % name)
            d = rx.equivalent(rx.compile_nfa(mine), rx.compile_nfa(ref[name]))
            rep.ob('RX-7', TOK, '_create_token_collection', '%s vs CPython %s' % (name, label), d is None,
                   'string matched %s' % ('only by parso' if d and d[0] == 'only-left' else 'only by CPython') if d else '',
                   witness=d[1] if d else None)
        pseudo = env['PseudoToken']
        for op in sorted(ref['operators']):
            n = rx.bt_match(pseudo, op)
            rep.ob('RX-8', TOK, '_create_token_collection', 'operator %r of CPython %s' % (op, label), n == len(op),
                   'reference operator is not one token (pseudo-token match length %r)' % (n,))
        mine_ops = set(rx.finite_language(rx.compile_nfa(env['Funny'])))
        extra = {o for o in mine_ops - ref['operators'] if o not in PARSO_EXTRA_OPERATORS
                 # alternation artefacts that are not *maximal* tokens do not matter
                 and rx.bt_match(pseudo, o) == len(o)}
        rep.ob('RX-8', TOK, '_create_token_collection', 'parso-only operators for %s' % label, not extra,
               'operators tokenized by parso that CPython %s does not know: %s' % (label, sorted(extra)),
               witness=sorted(extra)[0] if extra else None)
        if ref['string_prefixes'] is not None:
            mine_p = set(env['possible_prefixes']) | set(env['fstring_prefixes'])
            rep.ob('RX-8', TOK, '_all_string_prefixes', 'string prefixes vs CPython %s' % label,
                   mine_p == ref['string_prefixes'],
                   'only parso: %s; only CPython: %s' % (sorted(mine_p - ref['string_prefixes']),
                                                       sorted(ref['string_prefixes'] - mine_p)))
        else:
            rep.skip('RX-8', TOK, '_all_string_prefixes', 'string prefixes vs CPython %s' % label,
                     'reference _all_string_prefixes does not fold')
    rep.minimum('RX-7', 18)
    rep.minimum('RX-8', 200)


# ---------------------------------------------------------------------------
# RX-9 : whitespace classes agree
# ---------------------------------------------------------------------------
def rx_9(ctx, rep):
    rep.rule('RX-9', "the tokenizer's Whitespace, its compiled whitespace pattern, the literal class in the "
                     "always-break branch and prefix._spacing + _form_feed denote the same class")
    env = ctx.token_collection((3, 8))
    ws = env['Whitespace']
    nws = rx.compile_nfa(ws)
    comp = env.get('whitespace')
    if not isinstance(comp, Rx):
        raise AnalysisError('whitespace pattern does not fold')
    d = rx.equivalent(nws, rx.compile_nfa(comp.source))
    rep.ob('RX-9', TOK, '_create_token_collection', 'whitespace = _compile(Whitespace)', d is None,
           'compiled whitespace pattern differs from Whitespace', witness=d[1] if d else None)
    # group 1 of the pseudo token is the whitespace class
    groups, fl = rx.top_groups(env['PseudoToken'])
    d = rx.equivalent(nws, rx.nfa_from_items(groups[0], fl))
    rep.ob('RX-9', TOK, '_create_token_collection', 'PseudoToken group 1', d is None,
           'group 1 of the pseudo token is not the Whitespace class', witness=d[1] if d else None)
    f = ctx.prog.func(TOK, 'tokenize_lines')
    tfolder = ctx.folder(TOK)
    lit_patterns = []
    for n in walk_own(f.node):
        if isinstance(n, ast.Call) and norm(n.func) in ('re.match', 're.compile', 're.fullmatch') and n.args \
                and isinstance(n.args[0], ast.Constant) and isinstance(n.args[0].value, str):
            lit_patterns.append(n.args[0].value)
        # a module-level precompiled pattern applied to a slice of the line
        if isinstance(n, ast.Call) and isinstance(n.func, ast.Attribute) and n.func.attr in ('match', 'fullmatch') \
                and isinstance(n.func.value, ast.Name) and n.func.value.id.startswith('_'):
            try:
                v = tfolder.get(n.func.value.id)
            except AnalysisError:
                v = None
            if isinstance(v, Rx) and isinstance(v.source, str):
                lit_patterns.append(v.source)
    for pat in lit_patterns:
        if True:
            d = rx.equivalent(rx.compile_nfa(ws + r'\Z'), rx.compile_nfa(pat))
            rep.ob('RX-9', TOK, 'tokenize_lines', 'literal pattern %r' % pat, d is None,
                   'literal whitespace class differs from Whitespace', witness=d[1] if d else None)
    # literal character sets used to strip blanks inside the tokenizer must be exactly the Whitespace class:
    # a blank the pseudo token skips but the stripper does not (or vice versa) hides the character that follows it
    import re as _re
    n_strip = 0
    for g in ctx.prog.mod(TOK).funcs.values():
        for n in walk_own(g.node):
            chars = None
            if isinstance(n, ast.Call) and isinstance(n.func, ast.Attribute) and n.func.attr in ('lstrip', 'rstrip', 'strip') \
                    and len(n.args) == 1:
                if isinstance(n.args[0], ast.Constant) and isinstance(n.args[0].value, str):
                    chars = n.args[0].value
                elif isinstance(n.args[0], ast.Name):
                    try:
                        v = tfolder.get(n.args[0].id)
                    except AnalysisError:
                        v = None
                    chars = v if isinstance(v, str) else None
            if chars is not None and chars.strip() != chars and not set(chars) <= {'\r', '\n'} and _strip_feeds_position(g, n):
                n_strip += 1
                d = rx.equivalent(nws, rx.compile_nfa('[%s]*' % ''.join(_re.escape(c) for c in sorted(set(chars)))))
                rep.ob('RX-9', TOK, g.qual, norm(n), d is None,
                       'blank characters stripped here differ from the Whitespace class of the pseudo token',
                       witness=d[1] if d else None)
    pf = ctx.folder(PREFIX)
    sp_ = _src(pf.get('_spacing'), '_spacing')
    ff = _src(pf.get('_form_feed'), '_form_feed')
    w = rx.included(nws, rx.compile_nfa('(?:%s|%s)*' % (sp_, ff)))
    rep.ob('RX-9', PREFIX, '<module>', '_spacing | _form_feed covers Whitespace', w is None,
           'tokenizer whitespace that the prefix splitter cannot classify', witness=w)


def _strip_feeds_position(g, call):
    """The stripped string decides a length / position / token boundary (len(), slicing, startswith), i.e. it is
    not a mere truthiness test such as `if not line.strip(...)`."""
    p = getattr(call, '_parent', None)
    names = set()
    if isinstance(p, ast.Assign):
        names = {t.id for t in p.targets if isinstance(t, ast.Name)}
    elif isinstance(p, ast.Call) and norm(p.func) == 'len':
        return True
    elif isinstance(p, ast.Attribute) and p.attr in ('startswith', 'endswith'):
        return True
    for n in walk_own(g.node):
        if isinstance(n, ast.Call) and norm(n.func) == 'len' and n.args and isinstance(n.args[0], ast.Name) and n.args[0].id in names:
            return True
        if isinstance(n, ast.Attribute) and n.attr in ('startswith', 'endswith') and isinstance(n.value, ast.Name) and n.value.id in names:
            return True
    return False


# ---------------------------------------------------------------------------
# RX-2 : prefix sources (dataflow into the 4th field of PythonToken)
# ---------------------------------------------------------------------------
def _plus_terms(e):
    if isinstance(e, ast.BinOp) and isinstance(e.op, ast.Add):
        return _plus_terms(e.left) + _plus_terms(e.right)
    return [e]


def token_constructions(ctx, rel):
    """[(func, call, {'type','string','start_pos','prefix'})] for every PythonToken(...) call in ``rel``."""
    out = []
    mod = ctx.prog.mod(rel)
    for f in mod.funcs.values():
        for n in walk_own(f.node):
            if isinstance(n, ast.Call) and isinstance(n.func, ast.Name) and n.func.id == 'PythonToken':
                names = ['type', 'string', 'start_pos', 'prefix']
                fields = {}
                for i, a in enumerate(n.args):
                    if i < 4:
                        fields[names[i]] = a
                for kw in n.keywords:
                    if kw.arg in names:
                        fields[kw.arg] = kw.value
                out.append((f, n, fields))
    return out


def _enclosing_tests(node, stop):
    """Texts of the if/elif tests whose *body* encloses ``node`` (innermost first)."""
    out = []
    child = node
    p = getattr(node, '_parent', None)
    while p is not None and p is not stop:
        if isinstance(p, ast.If) and child in p.body:
            out.append(norm(p.test, 400))
        child = p
        p = getattr(p, '_parent', None)
    return out


class PrefixFlow:
    """Classifies every expression that can flow into a token prefix in tokenize.py."""

    def __init__(self, ctx, rep):
        self.ctx, self.rep = ctx, rep
        self.mod = ctx.prog.mod(TOK)
        self.acc = {}            # func qual -> set of accumulator names
        self.classes = set()     # lexical classes found: ws nl comment bsnl bom
        self.violations = 0
        self.sites = 0

    def run(self):
        cons = token_constructions(self.ctx, TOK)
        if len(cons) < 15:
            raise AnalysisError('only %d PythonToken constructions found in tokenize.py' % len(cons))
        work = []
        for f, call, fields in cons:
            if 'prefix' not in fields:
                self.rep.ob('RX-2', TOK, f.qual, norm(call), False, 'token constructed without a prefix')
                continue
            for t in _plus_terms(fields['prefix']):
                self._term(f, t, call, work)
        seen = set()
        while work:
            f, name = work.pop()
            if (f.key, name) in seen:
                continue
            seen.add((f.key, name))
            self.acc.setdefault(f.qual, set()).add(name)
            self._assignments(f, name, work)
        return self

    # a term of a prefix expression
    def _term(self, f, t, site, work):
        self.sites += 1
        if isinstance(t, ast.Constant) and t.value == '':
            return
        cls = self._classify(f, t, site)
        if cls is None and isinstance(t, ast.Name):
            if t.id == 'BOM_UTF8_STRING':
                self.classes.add('bom')
                return
            owner = self._owner_of(f, t.id)
            if owner is not None:
                work.append((owner, t.id))
                return
        if cls is None and isinstance(t, ast.Attribute) and isinstance(t.value, ast.Name) and t.value.id in ('self', 'cls'):
            # the pending prefix lives on an object: its provenance is a whole-class dataflow this rule does not model
            raise AnalysisError('RX-2: the prefix text %s is object state (%s): the tokenizer was restructured beyond what the '
                                'prefix dataflow follows' % (norm(t), f.qual))
        if cls is None:
            self.violations += 1
            self.rep.ob('RX-2', TOK, f.qual, head(self._stmt_of(site)), False,
                        'text %s flows into a token prefix but is none of the tokenizer\'s own lexical classes '
                        '(pseudo-token whitespace group, whitespace pattern, comment / newline / continuation token, BOM)'
                        % norm(t))
        else:
            self.classes.add(cls)
            self.rep.ob('RX-2', TOK, f.qual, '%s : %s' % (norm(t), cls), True)

    def _stmt_of(self, node):
        n = node
        while n is not None and not isinstance(n, ast.stmt):
            n = getattr(n, '_parent', None)
        return n if n is not None else node

    def _owner_of(self, f, name):
        """The function whose local ``name`` is (f itself or an enclosing function)."""
        from ..da import function_locals
        g = f
        while g is not None:
            loc, params = function_locals(g.node)
            if name in loc:
                return g
            g = g.outer
        return None

    def _matches_from(self, f, varname):
        """Source patterns a match variable is assigned from: list of receiver names of ``X.match(...)``."""
        out = []
        for n in walk_own(f.node):
            if isinstance(n, ast.Assign) and any(isinstance(t, ast.Name) and t.id == varname for t in n.targets):
                v = n.value
                if isinstance(v, ast.Call) and isinstance(v.func, ast.Attribute) and v.func.attr == 'match' \
                        and isinstance(v.func.value, ast.Name):
                    out.append(v.func.value.id)
                else:
                    out.append(None)
        return out

    def _classify(self, f, t, site):
        # X.group(k)
        if isinstance(t, ast.Call) and isinstance(t.func, ast.Attribute) and t.func.attr == 'group' \
                and isinstance(t.func.value, ast.Name) and len(t.args) == 1 and isinstance(t.args[0], ast.Constant):
            srcs = self._matches_from(f, t.func.value.id)
            k = t.args[0].value
            if srcs and all(s == 'pseudo_token' for s in srcs) and k == 1:
                return 'ws'        # RX-9 shows group 1 of the pseudo token is the whitespace class
            if srcs and all(s == 'whitespace' for s in srcs) and k == 0:
                return 'ws'
            return None
        from ..facts import facts_at, holds
        facts = facts_at(site, f.node)
        if isinstance(t, ast.Name) and t.id == 'token':
            if holds(facts, "initial in '\\r\\n'"):
                return 'nl'
            if holds(facts, "initial == '#'"):
                return 'comment'
            return None
        # X[:n] with n = len(X) - len(X.lstrip(CHARS)): the leading run of characters from CHARS
        if isinstance(t, ast.Subscript) and isinstance(t.slice, ast.Slice) and t.slice.lower is None \
                and isinstance(t.slice.upper, ast.Name) and isinstance(t.value, ast.Name):
            chars = self._lstrip_chars(f, t.value.id, t.slice.upper.id)
            if chars is not None:
                ws = rx.compile_nfa(self.ctx.token_collection((3, 8))['Whitespace'])
                import re as _re
                run = rx.compile_nfa('[%s]*' % ''.join(_re.escape(c) for c in sorted(set(chars)))) if chars else None
                if run is not None and rx.included(run, ws) is None:
                    return 'ws'
            return None
        if isinstance(t, ast.Subscript) and norm(t) == 'line[start:]':
            if holds(facts, "initial == '\\\\' and line[start:] in ('\\\\\\n', '\\\\\\r\\n', '\\\\\\r')"):
                return 'bsnl'
            return None
        return None

    def _lstrip_chars(self, f, var, nvar):
        """CHARS when nvar == len(var) - len(var.lstrip(CHARS)) (possibly through one local), else None."""
        def single(name):
            vals = [n.value for n in walk_own(f.node) if isinstance(n, ast.Assign)
                    and any(isinstance(x, ast.Name) and x.id == name for x in n.targets)]
            return vals[0] if len(vals) == 1 else None
        v = single(nvar)
        if not (isinstance(v, ast.BinOp) and isinstance(v.op, ast.Sub) and norm(v.left) == 'len(%s)' % var
                and isinstance(v.right, ast.Call) and norm(v.right.func) == 'len' and len(v.right.args) == 1):
            return None
        inner = v.right.args[0]
        if isinstance(inner, ast.Name):
            inner = single(inner.id)
        if isinstance(inner, ast.Call) and isinstance(inner.func, ast.Attribute) and inner.func.attr == 'lstrip' \
                and norm(inner.func.value) == var:
            if len(inner.args) == 1 and isinstance(inner.args[0], ast.Constant) and isinstance(inner.args[0].value, str):
                return inner.args[0].value
            if len(inner.args) == 1 and isinstance(inner.args[0], ast.Name):
                # a module-level string constant
                try:
                    v = self.ctx.folder(TOK).get(inner.args[0].id)
                except AnalysisError:
                    v = None
                if isinstance(v, str):
                    return v
            if not inner.args:
                return None          # argument-less lstrip: Unicode whitespace, not a tokenizer class
        return None

    def _assignments(self, f, name, work):
        from ..da import function_locals
        params = function_locals(f.node)[1]
        if name in params:
            # accumulator received as a parameter: every call site must pass an accumulator expression
            idx = f.params().index(name) if name in f.params() else None
            for g in self.mod.funcs.values():
                for n in walk_own(g.node):
                    if isinstance(n, ast.Call) and isinstance(n.func, ast.Name) and n.func.id == f.name \
                            and self.ctx.cg.lookup_name(g, f.name) is f:
                        arg = None
                        if idx is not None and idx < len(n.args):
                            arg = n.args[idx]
                        for kw in n.keywords:
                            if kw.arg == name:
                                arg = kw.value
                        if arg is None:
                            d = dict(zip(reversed(f.params()), reversed(f.node.args.defaults)))
                            arg = d.get(name)
                        if arg is None:
                            continue
                        for t in _plus_terms(arg):
                            self._term(g, t, n, work)
        for n in walk_own(f.node):
            if isinstance(n, ast.Assign):
                for tg in n.targets:
                    if isinstance(tg, ast.Name) and tg.id == name:
                        for t in _plus_terms(n.value):
                            self._term(f, t, n, work)
                    elif isinstance(tg, ast.Tuple):
                        for i, e in enumerate(tg.elts):
                            if isinstance(e, ast.Name) and e.id == name:
                                self._tuple_source(f, n, i, work)
            elif isinstance(n, ast.AugAssign) and isinstance(n.target, ast.Name) and n.target.id == name:
                if not isinstance(n.op, ast.Add):
                    self.rep.ob('RX-2', TOK, f.qual, norm(n), False, 'prefix accumulator updated with a non-concatenating operator')
                for t in _plus_terms(n.value):
                    self._term(f, t, n, work)
            elif isinstance(n, (ast.For, ast.With)):
                for sub in ast.walk(getattr(n, 'target', None) or ast.Tuple(elts=[i.optional_vars for i in n.items if i.optional_vars is not None], ctx=ast.Store())):
                    if isinstance(sub, ast.Name) and sub.id == name:
                        self.rep.ob('RX-2', TOK, f.qual, head(n), False, 'prefix accumulator bound by a loop / with target')

    def _tuple_source(self, f, assign, i, work):
        v = assign.value
        if isinstance(v, ast.Tuple) and i < len(v.elts):
            for t in _plus_terms(v.elts[i]):
                self._term(f, t, assign, work)
            return
        if isinstance(v, ast.Call) and isinstance(v.func, ast.Name):
            callee = self.ctx.cg.lookup_name(f, v.func.id)
            from ..model import Func
            if isinstance(callee, Func):
                ok_any = False
                for r in walk_own(callee.node):
                    if isinstance(r, ast.Return) and isinstance(r.value, ast.Tuple) and i < len(r.value.elts):
                        ok_any = True
                        for t in _plus_terms(r.value.elts[i]):
                            self._term(callee, t, r, work)
                    elif isinstance(r, ast.Return):
                        self.rep.ob('RX-2', TOK, callee.qual, norm(r), False,
                                    'return value whose element %d becomes a prefix accumulator is not a tuple display' % i)
                if ok_any:
                    return
        self.rep.ob('RX-2', TOK, f.qual, norm(assign), False, 'prefix accumulator assigned from an unanalysable tuple source')


def rx_2(ctx, rep):
    rep.rule('RX-2', "only the tokenizer's own lexical classes (pseudo-token whitespace group, whitespace pattern, "
                     "comment / newline / backslash-continuation tokens, BOM) and accumulators flow into a token prefix")
    pf = PrefixFlow(ctx, rep).run()
    rep.stat('prefix_accumulators', {k: sorted(v) for k, v in pf.acc.items()})
    rep.stat('prefix_classes', sorted(pf.classes))
    rep.minimum('RX-2', 6)
    return pf


# ---------------------------------------------------------------------------
# RX-1 : prefix language within the splitter's language
# ---------------------------------------------------------------------------
def prefix_language(ctx, classes, extra=None):
    env = ctx.token_collection((3, 8))
    pieces = {
        'ws': env['Whitespace'],
        'comment': env['Comment'],
        'nl': r'(?:\r\n?|\n)',
        'bsnl': r'\\(?:\r\n|\r|\n)',
        'bom': '\ufeff',
    }
    alts = [pieces[c] for c in sorted(classes)]
    if extra:
        alts.append(extra)
    return '(?:' + '|'.join('(?:%s)' % a for a in alts) + ')*'


def splitter_language(ctx):
    """(NFA of the language the prefix splitter tiles, alternatives, type keys)."""
    pf = ctx.folder(PREFIX)
    reg = pf.get('_regex')
    if not isinstance(reg, Rx):
        raise AnalysisError('prefix._regex does not fold to a compiled pattern')
    groups, fl = rx.top_groups(reg.source, reg.flags)
    if len(groups) != 2:
        raise AnalysisError('prefix._regex is not (spacing)(part)')
    g1 = groups[0]
    alts = rx.alternatives(groups[1])
    parts = [a for a in alts if not rx.is_end_assertion(a)]
    chunk = rx.union(*[rx.concat(rx.nfa_from_items(g1, fl), rx.nfa_from_items(a, fl)) for a in parts])
    T = rx.concat(rx.star(chunk), rx.nfa_from_items(g1, fl))
    types = pf.get('_types')
    if not isinstance(types, dict):
        raise AnalysisError('prefix._types does not fold')
    return T, parts, fl, types, reg.source


def rx_1(ctx, rep, classes):
    rep.rule('RX-1', 'the language of all token prefixes the tokenizer can build is included in the language on which '
                     'prefix.split_prefix cannot fail; every part the splitter recognises has a type')
    T, parts, fl, types, src = splitter_language(ctx)
    P = prefix_language(ctx, classes)
    w = rx.included(rx.compile_nfa(P), T)
    rep.ob('RX-1', PREFIX, 'split_prefix', 'prefix language within splitter language', w is None,
           'a prefix the tokenizer can produce on which _regex.match returns None in split_prefix'
           if w is not None else '', witness=w)
    for a in parts:
        fc, _ = rx.first_chars(rx.nfa_from_items(a, fl))
        missing = [chr(lo) for lo, hi in fc.iv for _ in [0] if any(chr(c) not in types for c in range(lo, min(hi, lo + 64) + 1))]
        rep.ob('RX-1', PREFIX, '<module>', '_types covers first characters of alternative %d' % parts.index(a),
               not missing, 'first character %r of a recognised part has no entry in _types' % (missing[:1],))
    rep.minimum('RX-1', 5)


# ---------------------------------------------------------------------------
# RX-11 : Unicode-whitespace str API ban
# ---------------------------------------------------------------------------
RX11_ALLOWED = {
    (UTILS, 'split_lines', 'splitlines'): 'wrapped by the _NON_LINE_BREAKS merge step (RX-3)',
    ('parso/pgen2/grammar_parser.py', 'GrammarParser._raise_error', 'splitlines'): 'error message for grammar files only',
    ('parso/tree.py', 'BaseNode.__repr__', 'strip'): 'repr only',
    ('parso/python/pep8.py', 'PEP8Normalizer._check_line_length', 'split'): 'PEP 8 heuristic on comment text, not positions',
    ('parso/python/pep8.py', 'PEP8Normalizer._analyse_non_prefix', 'splitlines'): 'dead computation (result unused)',
}
_WS_METHODS = {'splitlines': None, 'isspace': 0, 'strip': 0, 'lstrip': 0, 'rstrip': 0, 'split': 0}


def rx_11(ctx, rep):
    rep.rule('RX-11', 'str.splitlines, argument-less strip/lstrip/rstrip/split and isspace (Unicode whitespace / '
                      'line-break semantics) are not applied to source text outside the reasoned sites')
    n_sites = 0
    for rel, mod in sorted(ctx.prog.mods.items()):
        for n in ast.walk(mod.tree):
            if isinstance(n, ast.Call) and isinstance(n.func, ast.Attribute) and n.func.attr in _WS_METHODS:
                need = _WS_METHODS[n.func.attr]
                if need == 0 and (n.args or n.keywords):
                    continue
                # receiver that is obviously not source text
                if isinstance(n.func.value, ast.Constant):
                    continue
                q = qual_of(mod, n)
                n_sites += 1
                key = (rel, q, n.func.attr)
                if key in RX11_ALLOWED:
                    rep.ob('RX-11', rel, q, norm(n), True, reason=RX11_ALLOWED[key])
                else:
                    rep.ob('RX-11', rel, q, norm(n), False,
                           'str.%s() uses Unicode whitespace / line-break rules, which differ from Python\'s '
                           'lexical whitespace [ \\f\\t] and line breaks' % n.func.attr)
    rep.minimum('RX-11', 4)


# ---------------------------------------------------------------------------
# TREE-8 : newline-capable token kinds map to line-counting leaf classes
# ---------------------------------------------------------------------------
def _fstring_delimiter_provenance(ctx):
    """{'FSTRING_START': bool, 'FSTRING_END': bool}: is the text of every such token a key (resp. value) of the f-string
    pattern map?  START: every construction is guarded by `<text> in <map>`.  END: the text is `<x>.<attr>` and every
    FStringNode is constructed with `<map>[...]` as the value of that attribute."""
    from ..facts import guards_of
    TOKP = 'parso/python/tokenize.py'
    out = {'FSTRING_START': True, 'FSTRING_END': True}
    seen = {'FSTRING_START': 0, 'FSTRING_END': 0}
    mod = ctx.prog.mod(TOKP)
    quote_attrs = set()
    for n in ast.walk(mod.tree):
        if not (isinstance(n, ast.Call) and isinstance(n.func, ast.Name) and n.func.id == 'PythonToken' and len(n.args) >= 2):
            continue
        kind = norm(n.args[0]).split('.')[-1]
        if kind == 'FSTRING_START':
            seen[kind] += 1
            text = norm(n.args[1])
            ok = any(pol and isinstance(t, ast.Compare) and len(t.ops) == 1 and isinstance(t.ops[0], ast.In)
                     and norm(t.left) == text and 'fstring_pattern_map' in norm(t.comparators[0])
                     for t, pol in guards_of(n))
            out[kind] = out[kind] and ok
        elif kind == 'FSTRING_END':
            seen[kind] += 1
            a = n.args[1]
            if isinstance(a, ast.Attribute) and isinstance(a.value, ast.Name):
                quote_attrs.add(a.attr)
            else:
                out[kind] = False
    if len(quote_attrs) != 1:
        out['FSTRING_END'] = False
    else:
        (qa,) = quote_attrs
        cls = mod.classes.get('FStringNode')
        init = cls.methods.get('__init__') if cls is not None else None
        param = None
        if init is not None:
            for st in walk_own(init.node):
                if isinstance(st, ast.Assign) and norm(st.targets[0]) == 'self.%s' % qa and isinstance(st.value, ast.Name):
                    param = st.value.id
        stores = [st for st in ast.walk(mod.tree) if isinstance(st, ast.Assign) and any(
            isinstance(t, ast.Attribute) and t.attr == qa for t in st.targets)]
        if param is None or len(stores) != 1:
            out['FSTRING_END'] = False
        else:
            idx = init.params().index(param) - 1
            n_ctor = 0
            for c in ast.walk(mod.tree):
                if isinstance(c, ast.Call) and isinstance(c.func, ast.Name) and c.func.id == 'FStringNode':
                    n_ctor += 1
                    arg = c.args[idx] if idx < len(c.args) else next((k.value for k in c.keywords if k.arg == param), None)
                    if not (isinstance(arg, ast.Subscript) and 'fstring_pattern_map' in norm(arg.value)):
                        out['FSTRING_END'] = False
            if not n_ctor:
                out['FSTRING_END'] = False
    for k in out:
        if not seen[k]:
            out[k] = False
    return out


def _dict_display(mod, v):
    """A dict display, or the display that `{K(a): V(b) for a, b in TABLE}` spells when TABLE is a module-level tuple /
    list of literal pairs (the comprehension unrolled; `Enum[<name>]` written as `Enum.<name>`)."""
    import copy as _copy
    if not (isinstance(v, ast.DictComp) and len(v.generators) == 1 and not v.generators[0].ifs):
        return v
    gen = v.generators[0]
    table = None
    if isinstance(gen.iter, ast.Name):
        vals = [st.value for st in mod.tree.body if isinstance(st, ast.Assign)
                and any(isinstance(t, ast.Name) and t.id == gen.iter.id for t in st.targets)]
        if len(vals) == 1:
            table = vals[0]
    elif isinstance(gen.iter, (ast.Tuple, ast.List)):
        table = gen.iter
    if not isinstance(table, (ast.Tuple, ast.List)):
        return v
    names = [e.id for e in gen.target.elts] if isinstance(gen.target, ast.Tuple) and all(isinstance(e, ast.Name) for e in gen.target.elts) \
        else [gen.target.id] if isinstance(gen.target, ast.Name) else None
    if names is None:
        return v
    keys, values = [], []
    for row in table.elts:
        cells = row.elts if isinstance(row, (ast.Tuple, ast.List)) else [row]
        if len(cells) != len(names):
            return v
        env = dict(zip(names, cells))

        class Sub(ast.NodeTransformer):
            def visit_Name(self, n):
                return _copy.deepcopy(env[n.id]) if n.id in env else n

            def visit_Subscript(self, n):
                self.generic_visit(n)
                if isinstance(n.slice, ast.Constant) and isinstance(n.slice.value, str) and n.slice.value.isidentifier() \
                        and isinstance(n.value, ast.Name) and n.value.id[:1].isupper():
                    return ast.Attribute(value=n.value, attr=n.slice.value, ctx=ast.Load())
                return n
        keys.append(ast.fix_missing_locations(Sub().visit(_copy.deepcopy(v.key))))
        values.append(ast.fix_missing_locations(Sub().visit(_copy.deepcopy(v.value))))
    return ast.copy_location(ast.Dict(keys=keys, values=values), v)


def tree_8(ctx, rep):
    rep.rule('TREE-8', 'leaf classes with the single-line end_pos shortcut only receive token kinds whose value '
                       'language contains no line break')
    from .gr import PYPARSER, PYTREE
    from ..model import Cls
    prog = ctx.prog
    fast = prog.cls(PYTREE, '_LeafWithoutNewlines')
    parser = prog.cls(PYPARSER, 'Parser')
    leaf_map = _dict_display(parser.mod, parser.attrs.get('_leaf_map'))
    if not isinstance(leaf_map, ast.Dict):
        raise AnalysisError('anchor vanished: Parser._leaf_map')
    env = ctx.token_collection((3, 8))
    has_nl = rx.compile_nfa(r'(?s).*[\r\n].*')
    # value languages per token type
    lang = {}
    lang['NAME'] = env['Name']
    # OP: Funny without the newline alternatives (dispatched as NEWLINE before the operator branch)
    ops = [o for o in rx.finite_language(rx.compile_nfa(env['Funny'])) if o[0] not in '\r\n']
    import re as _re
    lang['OP'] = '(?:' + '|'.join(_re.escape(o) for o in sorted(ops, key=len, reverse=True)) + ')'
    lang['ENDMARKER'] = ''
    lang['NUMBER'] = env['Number']
    newline_capable = {'STRING', 'NEWLINE', 'FSTRING_STRING', 'ERRORTOKEN', 'FSTRING_START', 'FSTRING_END'}
    # f-string delimiters: finite languages (keys / values of fstring_pattern_map) when the tokenizer shows that this is
    # where their text comes from; otherwise they stay in the conservative set above
    fmap = env.get('fstring_pattern_map')
    if isinstance(fmap, dict) and fmap and all(isinstance(k, str) and isinstance(v, str) for k, v in fmap.items()):
        prov = _fstring_delimiter_provenance(ctx)
        if prov.get('FSTRING_START'):
            lang['FSTRING_START'] = '(?:' + '|'.join(_re.escape(k) for k in sorted(fmap, key=len, reverse=True)) + ')'
            newline_capable.discard('FSTRING_START')
        if prov.get('FSTRING_END'):
            lang['FSTRING_END'] = '(?:' + '|'.join(_re.escape(k) for k in sorted(set(fmap.values()), key=len, reverse=True)) + ')'
            newline_capable.discard('FSTRING_END')
    mapping = {}
    for k, v in zip(leaf_map.keys, leaf_map.values):
        mapping[norm(k).split('.')[-1]] = prog.resolve_name_expr(parser.mod, v)
    # convert_leaf: NAME -> Keyword / Name, default -> Operator
    conv = parser.methods.get('convert_leaf')
    if conv is None:
        raise AnalysisError('anchor vanished: Parser.convert_leaf')
    for n in ast.walk(conv.node):
        if isinstance(n, ast.Call) and isinstance(n.func, ast.Attribute) and n.func.attr in ('Keyword', 'Name'):
            mapping.setdefault('NAME:' + n.func.attr, prog.resolve_name_expr(parser.mod, n.func))
        if isinstance(n, ast.Call) and isinstance(n.func, ast.Attribute) and n.func.attr == 'get' \
                and '_leaf_map' in norm(n.func.value) and len(n.args) == 2:
            mapping['OP'] = prog.resolve_name_expr(parser.mod, n.args[1])
    for tt, cls in sorted(mapping.items()):
        if not isinstance(cls, Cls):
            rep.ob('TREE-8', PYPARSER, 'Parser', 'leaf class for %s' % tt, False, 'does not resolve to a parso class')
            continue
        base = tt.split(':')[0]
        is_fast = fast in cls.mro
        if not is_fast:
            rep.ob('TREE-8', PYPARSER, 'Parser', '%s -> %s (general end_pos)' % (tt, cls.name), True)
            continue
        if base in newline_capable or base not in lang:
            rep.ob('TREE-8', PYPARSER, 'Parser', '%s -> %s' % (tt, cls.name), False,
                   'token kind %s can contain line breaks but its leaf class uses the single-line end_pos' % base)
            continue
        w = rx.intersect_witness(rx.compile_nfa(lang[base]), has_nl) if lang[base] else None
        rep.ob('TREE-8', PYPARSER, 'Parser', '%s -> %s' % (tt, cls.name), w is None,
               'value with a line break reaches a leaf class with the single-line end_pos', witness=w)
    # error leaves use the general end_pos
    for name in ('PythonErrorLeaf',):
        c = prog.cls(PYTREE, name)
        rep.ob('TREE-8', PYTREE, name, 'class %s' % name, fast not in c.mro,
               'error leaves can hold multi-line text but inherit the single-line end_pos')
    rep.minimum('TREE-8', 8)


# ---------------------------------------------------------------------------
# RX-10 : every test for '\n' has the same test for '\r'
# ---------------------------------------------------------------------------
RX10_MODULES = ['parso/python/tokenize.py', 'parso/python/prefix.py', 'parso/tree.py', 'parso/python/tree.py',
                'parso/python/diff.py', 'parso/python/errors.py', 'parso/python/pep8.py', 'parso/utils.py',
                'parso/normalizer.py', 'parso/python/parser.py', 'parso/parser.py', 'parso/grammar.py']
RX10_ALLOWED = {
    ('parso/python/diff.py', '_get_last_line'):
        "pre-existing one-sided test ('\\n' in n.prefix): examined at design time, no failing edit history could be "
        "constructed; kept as a named exception instead of an alarm",
    ('parso/tree.py', 'BaseNode.__repr__'): 'repr only (and it replaces both)',
}
_NL_METHODS = {'endswith', 'startswith', 'rfind', 'find', 'index', 'rindex', 'count', 'split', 'rsplit', 'partition',
               'rpartition', 'strip', 'rstrip', 'lstrip', 'replace'}


def _nl_kind(e, mod=None, depth=0):
    """'n' / 'r' / 'both' when the expression is a string constant (or display of constants, or a module-level constant
    holding one) naming line breaks."""
    vals = None
    if isinstance(e, ast.Name) and mod is not None and depth < 2:
        gv = [v for v in mod.globals.get(e.id, []) or [] if v is not None]
        if len(gv) == 1:
            v = gv[0]
            if isinstance(v, ast.Call) and norm(v.func) in ('frozenset', 'set', 'tuple') and len(v.args) == 1:
                v = v.args[0]
            return _nl_kind(v, mod, depth + 1)
        return None
    if isinstance(e, ast.Constant) and isinstance(e.value, str):
        vals = [e.value]
    elif isinstance(e, (ast.Tuple, ast.Set, ast.List)) and e.elts and all(
            isinstance(x, ast.Constant) and isinstance(x.value, str) for x in e.elts):
        vals = [x.value for x in e.elts]
    if not vals:
        return None
    joined = ''.join(vals)
    if not joined or any(c not in '\r\n\\' for c in joined):
        # a literal containing other characters (e.g. a character class like '\r\n#'): both must occur
        has_n, has_r = '\n' in joined, '\r' in joined
        if not (has_n or has_r):
            return None
        return 'both' if has_n and has_r else ('n' if has_n else 'r')
    has_n = any(v.replace('\r\n', '').count('\n') or v == '\n' or v.endswith('\\\n') for v in vals) or '\n' in joined.replace('\r\n', '')
    has_r = any('\r' in v.replace('\r\n', '') for v in vals)
    if '\r\n' in vals and not has_n and not has_r:
        return 'both'
    if has_n and has_r:
        return 'both'
    return 'n' if has_n else ('r' if has_r else None)


def newline_tests(fn_node, mod=None):
    """[(shape, kind, node)]: shape identifies the operation and its other operand."""
    out = []
    for n in walk_own(fn_node):
        if isinstance(n, ast.Compare) and len(n.ops) == 1:
            l, r = n.left, n.comparators[0]
            for a, b in ((l, r), (r, l)):
                k = _nl_kind(a, mod)
                if k and not isinstance(b, ast.Constant):
                    out.append(('%s %s' % (type(n.ops[0]).__name__, norm(b)), k, n))
        elif isinstance(n, ast.Call) and isinstance(n.func, ast.Attribute) and n.func.attr in _NL_METHODS and n.args:
            k = _nl_kind(n.args[0], mod)
            if k:
                out.append(('%s.%s' % (norm(n.func.value), n.func.attr), k, n))
    return out


def rx_10(ctx, rep, modules=None):
    rep.rule('RX-10', "every test / search for '\\n' is paired, in the same function and on the same operand, with the "
                      "same test for '\\r' (one definition of line break wherever positions are computed)")
    n_sites = 0
    for rel in (modules or RX10_MODULES):
        mod = ctx.prog.mod(rel)
        for f in mod.funcs.values():
            tests = newline_tests(f.node, mod)
            if not tests:
                continue
            shapes = {}
            for shape, kind, node in tests:
                shapes.setdefault(shape, set()).add(kind)
            for shape, kind, node in tests:
                n_sites += 1
                kinds = shapes[shape]
                ok = kind == 'both' or 'both' in kinds or ({'n', 'r'} <= kinds)
                if not ok and (rel, f.qual) in RX10_ALLOWED:
                    rep.skip('RX-10', rel, f.qual, norm(node), RX10_ALLOWED[(rel, f.qual)])
                    continue
                rep.ob('RX-10', rel, f.qual, norm(node), ok,
                       "line breaks are recognised by %s only: text with the other newline style gets different "
                       "positions / parts" % ("'\\n'" if kind == 'n' else "'\\r'"))
    if modules is None:
        rep.minimum('RX-10', 10)
    elif not n_sites:
        # the newline tests of these modules may all live in a shared helper elsewhere: nothing to pair here
        rep.ob('RX-10', '/'.join(modules)[:80], '<modules>', 'no newline test in these modules', True,
               reason='nothing to pair (tests delegated to helpers are checked where the helpers live)')


# ---------------------------------------------------------------------------
# RX-5c : the declared codec name is normalised exactly like CPython's _get_normal_name
# ---------------------------------------------------------------------------
def _string_constants(fn_node):
    out = set()
    for n in ast.walk(fn_node):
        if isinstance(n, ast.Constant) and isinstance(n.value, str) and n.value and n is not getattr(fn_node.body[0], 'value', None):
            out.add(n.value)
    return out


def rx_5c(ctx, rep):
    rep.rule('RX-5c', 'the codec name taken from a coding declaration is normalised exactly like the reference '
                      '_get_normal_name of Lib/tokenize.py (agreement of the two pure functions on every probe name '
                      'built from the literals either of them mentions)')
    from ..fold import Closure
    f = detect_encoding_func(ctx)
    # which function is applied to the matched name on the declaration path?
    normaliser = None
    direct = False
    for n in walk_own(f.node):
        if isinstance(n, ast.Return) and n.value is not None:
            v = n.value
            if isinstance(v, ast.Call) and isinstance(v.func, ast.Name) and len(v.args) == 1 and not v.keywords:
                target = ctx.prog.resolve_global(f.mod, v.func.id)
                from ..model import Func as _F
                if isinstance(target, _F):
                    normaliser = target
            elif isinstance(v, ast.Name) and v.id not in ('encoding',):
                direct = True
    refs = ctx.reference_versions()
    lib = refs[-1][1]
    ref_folder = ctx.reference_folder(lib, 'tokenize.py')
    ref_fn = ref_folder.get('_get_normal_name')
    if not isinstance(ref_fn, Closure):
        raise AnalysisError('reference _get_normal_name does not fold')
    lits = _string_constants(ref_fn.node)
    mine = None
    if normaliser is not None:
        lits |= _string_constants(normaliser.node)
        mine = ctx.folder(UTILS)
    probes = set()
    for L in lits:
        for p in (L, L + 'x', L + '-x', L + '0', L + '5', L.rstrip('-'), L.rstrip('-') + '_x', L.upper(), L.replace('-', '_'),
                  'x' + L, L[:-1], L + '-abcdefghijklm', L.rstrip('-') + '-sig', L.title()):
            if p:
                probes.add(p)
    probes |= {'ascii', 'cp1252', 'utf-16', 'utf8', 'latin1', 'iso8859-15', 'latin-9', 'UTF-8', 'utf_8_sig'}
    bad = None
    n_eval = 0
    for p in sorted(probes):
        want = ref_folder.call_function('_get_normal_name', p)
        got = mine.call_function(normaliser.name, p) if mine is not None else p
        n_eval += 1
        if want != got:
            bad = (p, want, got)
            break
    rep.stat('rx5c_probe_names', n_eval)
    rep.ob('RX-5c', UTILS, f.qual, 'codec name normalisation (%s)' % (normaliser.qual if normaliser else 'none: the matched name is used verbatim'),
           bad is None,
           'for the declared name %r CPython decodes with %r, parso with %r' % bad if bad else '',
           witness=bad[0] if bad else None)


# ---------------------------------------------------------------------------------------------------------------
# RX-5d  the bytes of a file reach the decoder undecoded
def _open_mode(call):
    """('bin'|'text'|None, encoding-given) for an open()/io.open()/Path.open() call."""
    mode = None
    args = list(call.args)
    fn = call.func
    is_method = isinstance(fn, ast.Attribute) and fn.attr == 'open' and not (isinstance(fn.value, ast.Name) and fn.value.id in ('io', 'os', 'builtins', 'codecs'))
    pos = 0 if is_method else 1
    if len(args) > pos:
        mode = args[pos]
    enc = False
    for k in call.keywords:
        if k.arg == 'mode':
            mode = k.value
        if k.arg in ('encoding', 'errors', 'newline'):
            enc = True
    if mode is None:
        return 'text', enc
    if isinstance(mode, ast.Constant) and isinstance(mode.value, str):
        return ('bin' if 'b' in mode.value else 'text'), enc
    return None, enc


def rx_5d(ctx, rep):
    rep.rule('RX-5d', 'the content of a file is handed to the decoder as bytes: every file object opened by a FileIO '
                      'read method is binary, nothing on the way from file_io.read() to python_bytes_to_unicode decodes '
                      '(a text-mode read would decode with a codec chosen before the coding declaration was seen)')
    FIO = 'parso/file_io.py'
    GRAMMAR = 'parso/grammar.py'
    mod = ctx.prog.mod(FIO)
    n_sites = 0
    base = ctx.prog.cls(FIO, 'FileIO')
    if base is None:
        raise AnalysisError('anchor vanished: parso/file_io.py:FileIO')
    for f in [f for f in ctx.prog.funcs.values() if f.mod.rel == FIO]:
        if f.cls is None:
            continue
        for n in walk_own(f.node):
            if not isinstance(n, ast.Call):
                continue
            fn = n.func
            name = fn.id if isinstance(fn, ast.Name) else fn.attr if isinstance(fn, ast.Attribute) else None
            if name == 'open' and not (isinstance(fn, ast.Attribute) and isinstance(fn.value, ast.Name) and fn.value.id == 'os'):
                kind, enc = _open_mode(n)
                n_sites += 1
                rep.ob('RX-5d', FIO, f.qual, 'open() at the source-reading site', kind == 'bin' and not enc,
                       'the file is opened in text mode (or with encoding/newline arguments): its bytes are decoded here, with a '
                       'codec fixed in advance, and the coding declaration / BOM rules of python_bytes_to_unicode never see them'
                       if kind != 'bin' or enc else '', witness=ast.unparse(n))
            elif name in ('read_text', 'decode', 'fdopen') or (name == 'str' and len(n.args) > 1):
                n_sites += 1
                rep.ob('RX-5d', FIO, f.qual, '%s() in a FileIO method' % name, False,
                       'file content is decoded outside python_bytes_to_unicode', witness=ast.unparse(n))
            elif name == 'read_bytes':
                n_sites += 1
                rep.ob('RX-5d', FIO, f.qual, 'read_bytes() at the source-reading site', True)
    # the parse entry point hands what it read to the decoder unchanged
    gmod = ctx.prog.mod(GRAMMAR)
    n_dec = 0
    for f in [f for f in ctx.prog.funcs.values() if f.mod.rel == GRAMMAR]:
        for n in walk_own(f.node):
            if isinstance(n, ast.Call) and isinstance(n.func, ast.Name) and n.func.id == 'python_bytes_to_unicode' and n.args:
                n_dec += 1
                a = n.args[0]
                srcs = [a]
                if isinstance(a, ast.Name):
                    srcs = reaching_values(f.node, a) or []
                bad = None
                params = {p for p in f.all_params()}
                for s in srcs:
                    if isinstance(s, ast.Call) and isinstance(s.func, ast.Attribute) and s.func.attr == 'read' and not s.args:
                        continue
                    if isinstance(s, ast.Name) and s.id in params:
                        continue
                    bad = s
                # a parameter that is not re-assigned reaches as itself
                rep.ob('RX-5d', GRAMMAR, f.qual, 'argument of python_bytes_to_unicode', bad is None,
                       'what is decoded is not the caller\'s code / the result of file_io.read() but %s' % (ast.unparse(bad) if bad is not None else ''),
                       witness=ast.unparse(bad) if bad is not None else None)
            elif isinstance(n, ast.Call) and isinstance(n.func, ast.Attribute) and n.func.attr == 'decode':
                rep.ob('RX-5d', GRAMMAR, f.qual, '.decode() in the parse entry module', False,
                       'source is decoded outside python_bytes_to_unicode', witness=ast.unparse(n))
    if not n_sites:
        raise AnalysisError('RX-5d: no source-reading site found in parso/file_io.py')
    if not n_dec:
        raise AnalysisError('RX-5d: no call of python_bytes_to_unicode found in parso/grammar.py')
    rep.minimum('RX-5d', 2, 'file-reading sites and decoder calls')


# ---------------------------------------------------------------------------------------------------------------
# RX-12  a byte order mark is special only as the very first character
_BOM_OK_METHODS = {'startswith'}
_BOM_BAD_METHODS = {'find', 'rfind', 'index', 'rindex', 'count', 'replace', 'strip', 'lstrip', 'rstrip', 'split', 'rsplit',
                    'partition', 'rpartition', 'endswith', 'removeprefix', 'removesuffix', 'translate'}


def _bom_names(ctx):
    """module rel -> names that hold the BOM character (module-level constants and imported aliases of them)."""
    out = {}
    for rel, mod in ctx.prog.mods.items():
        names = set()
        for name, vals in mod.globals.items():
            for v in vals or []:
                if v is None:
                    continue
                t = norm(v)
                if t in ('BOM_UTF8.decode("utf-8")', "BOM_UTF8.decode('utf-8')", 'BOM_UTF8.decode()', "codecs.BOM_UTF8.decode('utf-8')") \
                        or (isinstance(v, ast.Constant) and v.value == '\ufeff'):
                    names.add(name)
        out[rel] = names
    # aliases: `x = other_bom_name` at module level, and from-imports
    changed = True
    while changed:
        changed = False
        for rel, mod in ctx.prog.mods.items():
            for name, vals in mod.globals.items():
                for v in vals or []:
                    if isinstance(v, ast.Name) and v.id in out[rel] and name not in out[rel]:
                        out[rel].add(name)
                        changed = True
            for st in mod.tree.body:
                if isinstance(st, ast.ImportFrom) and st.module:
                    src = st.module.replace('.', '/') + '.py'
                    if src in out:
                        for a in st.names:
                            if a.name in out[src] and (a.asname or a.name) not in out[rel]:
                                out[rel].add(a.asname or a.name)
                                changed = True
    return out


def _is_bom(e, names):
    return (isinstance(e, ast.Name) and e.id in names) or (isinstance(e, ast.Constant) and e.value == '\ufeff')


def rx_12_sites(tree, names):
    """[(node, ok, what)] for every place the BOM character is compared with / searched in text."""
    out = []
    for n in ast.walk(tree):
        if isinstance(n, ast.Compare):
            ops = list(zip(n.ops, [n.left] + n.comparators[:-1], n.comparators))
            for op, l, r in ops:
                if isinstance(op, (ast.In, ast.NotIn)) and _is_bom(l, names) and not isinstance(r, (ast.Tuple, ast.List, ast.Set, ast.Dict)):
                    container_is_text = not (isinstance(r, ast.Name) and r.id.isupper())
                    out.append((n, not container_is_text, 'membership test `%s`' % norm(n)))
                elif isinstance(op, (ast.Eq, ast.NotEq)) and (_is_bom(l, names) or _is_bom(r, names)):
                    out.append((n, True, 'whole-value comparison `%s`' % norm(n)))
        elif isinstance(n, ast.Call) and isinstance(n.func, ast.Attribute) and any(_is_bom(a, names) for a in n.args):
            if n.func.attr in _BOM_OK_METHODS:
                out.append((n, True, '`%s`' % norm(n)))
            elif n.func.attr in _BOM_BAD_METHODS:
                out.append((n, False, '`%s`' % norm(n)))
    return out


def rx_12(ctx, rep):
    rep.rule('RX-12', 'U+FEFF is a zero-width byte order mark only as the first character of the text: the BOM constant is '
                      'compared with a whole value or tested with startswith(), never searched for inside text (`in`, find, '
                      'count, replace, strip ...) - anywhere else the character occupies a column like any other')
    names = _bom_names(ctx)
    # the matcher itself, on a snippet that must be reported (the expected count on the tree is zero)
    probe = ast.parse("def f(p):\n    if BOM in p:\n        return p.find(BOM)\n    return p.startswith(BOM)\n")
    got = [(ok, what) for _, ok, what in rx_12_sites(probe, {'BOM'})]
    if [ok for ok, _ in got].count(False) != 2 or [ok for ok, _ in got].count(True) != 1:
        raise AnalysisError('RX-12: the matcher does not report its built-in example (%s)' % got)
    n_sites = 0
    for rel, mod in sorted(ctx.prog.mods.items()):
        if not names.get(rel):
            continue
        for node, ok, what in rx_12_sites(mod.tree, names[rel]):
            n_sites += 1
            rep.ob('RX-12', rel, qual_of(mod, node), what, ok,
                   'the BOM character is looked for anywhere in the text: a U+FEFF that is not the first character of the file '
                   'has width one, treating it as zero-width shifts every column behind it')
    rep.stat('rx12_bom_constants', sum(len(v) for v in names.values()))
    rep.minimum('RX-12', 4)


# ---------------------------------------------------------------------------------------------------------------
# RX-13  the lexical patterns do not care how a line break is spelled
def respell_line_breaks(A, repl):
    """NFA of the image of  L(A) & (no CR)*  under the homomorphism  LF -> ``repl``."""
    B = rx.NFA(A.top)
    B.n = A.n
    for s, ts in A.eps.items():
        B.eps[s] |= set(ts)
    CR, LF = ord('\r'), ord('\n')
    no_breaks = rx.CS.of([CR, LF]).complement(A.top)
    for s, lst in A.tr.items():
        for cs, t in lst:
            if not isinstance(cs, rx.CS):
                B.tr[s].append((cs, t))
                continue
            rest = cs & no_breaks
            if rest:
                B.tr[s].append((rest, t))
            if LF in cs:
                cur = s
                for i, ch in enumerate(repl):
                    nxt = t if i == len(repl) - 1 else B.new()
                    B.tr[cur].append((rx.CS.of([ord(ch)]), nxt))
                    cur = nxt
    B.start, B.final = A.start, A.final
    return B


def rx_13(ctx, rep):
    rep.rule('RX-13', 'every compiled pattern of the tokenizer and of the prefix splitter is blind to the spelling of line breaks: '
                      'when a text with LF line ends matches, the same text with CRLF and with CR line ends matches too '
                      '(image of the LF-only part of the language under LF -> CRLF / CR is included in the language)')
    TOKP = 'parso/python/tokenize.py'
    PREFIXP = 'parso/python/prefix.py'
    pats = {}
    from ..fold import Obj
    for version in ((3, 6), (3, 12)):
        env = ctx.token_collection(version)
        res = env.get('$result')
        if not isinstance(res, Obj):
            raise AnalysisError('RX-13: the token collection does not fold')
        # by role: the fields of the TokenCollection the function returns (not its local variables)
        fields = list(res.args) + list(res.kwargs.values())
        for i, v in enumerate(fields):
            if isinstance(v, Rx):
                pats.setdefault((TOKP, 'token collection field %d' % i), v)
            elif isinstance(v, dict):
                for kk, vv in sorted(v.items(), key=lambda kv: str(kv[0])):
                    if isinstance(vv, Rx):
                        pats.setdefault((TOKP, 'token collection field %d[%r]' % (i, kk)), vv)
    for rel in (TOKP, PREFIXP):
        folder = ctx.folder(rel)
        mod = ctx.prog.mod(rel)
        for name in sorted(mod.globals):
            try:
                v = folder.get(name)
            except AnalysisError:
                continue
            if isinstance(v, Rx):
                pats.setdefault((rel, name), v)
    seen_sources = {}
    n = 0
    for (rel, name), v in sorted(pats.items()):
        key = (v.source, v.flags)
        if key in seen_sources:
            continue
        seen_sources[key] = name
        if not any(c in v.source for c in ('\\n', '\\r', '\n', '\r', '.', '[^', '\\s', '\\S', '\\W', '\\D')):
            continue            # cannot match a line break at all
        try:
            A = rx.compile_nfa(v.source, v.flags)
        except AnalysisError as e:
            rep.skip('RX-13', rel, '<module>', 'pattern %s' % name, 'outside the regular fragment of the engine (%s)' % e)
            continue
        for label, repl in (('CRLF', '\r\n'), ('CR', '\r')):
            n += 1
            w = rx.included(respell_line_breaks(A, repl), A)
            rep.ob('RX-13', rel, '<module>', 'pattern %s: LF -> %s' % (name, label), w is None,
                   'the pattern matches a text with LF line ends but not the same text with %s line ends (%r): the token or '
                   'prefix part ends at a different place in a file that differs only in its line-end convention'
                   % (label, w), witness=w)
    rep.stat('rx13_patterns', len(seen_sources))
    rep.minimum('RX-13', 12)


# ---------------------------------------------------------------------------------------------------------------
# RX-14  no exponentially ambiguous pattern: matching terminates in practice
def _lexical_patterns(ctx, versions=((3, 6), (3, 12)), extra_modules=('parso/utils.py',)):
    """{(file, role name): Rx} - the fields of the TokenCollection per version, and the module-level compiled patterns."""
    TOKP = 'parso/python/tokenize.py'
    PREFIXP = 'parso/python/prefix.py'
    from ..fold import Obj
    pats = {}
    for version in versions:
        env = ctx.token_collection(version)
        res = env.get('$result')
        if not isinstance(res, Obj):
            raise AnalysisError('the token collection does not fold')
        fields = list(res.args) + list(res.kwargs.values())
        for i, v in enumerate(fields):
            if isinstance(v, Rx):
                pats.setdefault((TOKP, 'token collection field %d' % i), v)
            elif isinstance(v, dict):
                for kk, vv in sorted(v.items(), key=lambda kv: str(kv[0])):
                    if isinstance(vv, Rx):
                        pats.setdefault((TOKP, 'token collection field %d[%r]' % (i, kk)), vv)
    for rel in (TOKP, PREFIXP) + tuple(extra_modules):
        folder = ctx.folder(rel)
        mod = ctx.prog.mod(rel)
        for name in sorted(mod.globals):
            try:
                v = folder.get(name)
            except AnalysisError:
                continue
            if isinstance(v, Rx):
                pats.setdefault((rel, name), v)
    return pats


def rx_14(ctx, rep):
    rep.rule('RX-14', 'no compiled pattern of the tokenizer / prefix splitter is exponentially ambiguous: there is no state of '
                      'its automaton with two different runs back to itself on one word (Weber-Seidl criterion on the product '
                      'automaton). With such a loop the backtracking matcher tries 2^n runs on a text of n repetitions '
                      'before it gives up on an alternative - parsing does not terminate in practice')
    pats = _lexical_patterns(ctx)
    seen = {}
    n = 0
    for (rel, name), v in sorted(pats.items()):
        key = (v.source, v.flags)
        if key in seen:
            continue
        seen[key] = name
        try:
            A = rx.compile_nfa(v.source, v.flags)
        except AnalysisError as e:
            rep.skip('RX-14', rel, '<module>', 'pattern %s' % name, 'outside the regular fragment of the engine (%s)' % e)
            continue
        try:
            w = rx.exponential_ambiguity(A)
        except AnalysisError as e:
            rep.skip('RX-14', rel, '<module>', 'pattern %s' % name, str(e))
            continue
        n += 1
        rep.ob('RX-14', rel, '<module>', 'pattern %s' % name, w is None,
               'the pattern can match the repeated piece %r in more than one way inside one loop: a text with n repetitions of it '
               'followed by something that makes the match fail costs 2^n steps' % (w,), witness=w)
    # the engine itself is exercised on every run: a known exponentially ambiguous pattern must be recognised
    if rx.exponential_ambiguity(rx.compile_nfa(r'(?:_?[0-9]+)*')) is None or rx.exponential_ambiguity(rx.compile_nfa(r'(?:_?[0-9])*')) is not None:
        raise AnalysisError('RX-14: the ambiguity engine fails its built-in examples')
    rep.stat('rx14_patterns', n)
    rep.minimum('RX-14', 6)


# ---------------------------------------------------------------------------------------------------------------
def src_1(ctx, rep):
    """What the tokenizer and the diff parser get is the decoded text, cut into lines - nothing else touches it (seed
    rt14-C06: `code.strip()` for eval_input drops the NEWLINE the grammar derives and breaks the round trip)."""
    rep.rule('SRC-1', 'in Grammar.parse the source text is only decoded (python_bytes_to_unicode) and cut into lines '
                      '(split_lines(..., keepends=True)); no other function or method is applied to it on its way to the tokenizer')
    GRAMMAR = 'parso/grammar.py'
    f = ctx.view(ctx.prog.func(GRAMMAR, 'Grammar.parse'))      # the steps parse was split into are read in place
    params = set(f.all_params())
    # the text variable: the argument of the decoder; the lines variable: assigned from split_lines
    text_vars, line_vars = set(), set()
    for n in walk_own(f.node):
        if isinstance(n, ast.Call) and norm(n.func).split('.')[-1] == 'python_bytes_to_unicode' and n.args and isinstance(n.args[0], ast.Name):
            text_vars.add(n.args[0].id)
        if isinstance(n, ast.Assign) and isinstance(n.value, ast.Call) and norm(n.value.func).split('.')[-1] == 'split_lines':
            line_vars |= {t.id for t in n.targets if isinstance(t, ast.Name)}
        if isinstance(n, ast.Assign) and isinstance(n.value, ast.Call) and norm(n.value.func).split('.')[-1] == 'python_bytes_to_unicode':
            text_vars |= {t.id for t in n.targets if isinstance(t, ast.Name)}      # the decoded text may get a name of its own
    if not text_vars or not line_vars:
        raise AnalysisError('SRC-1: decode / split_lines steps of Grammar.parse not found')
    n_sites = 0
    for n in walk_own(f.node):
        if not isinstance(n, (ast.Assign, ast.AugAssign, ast.AnnAssign)):
            continue
        tg = n.targets if isinstance(n, ast.Assign) else [n.target]
        names = {x.id for t in tg for x in ast.walk(t) if isinstance(x, ast.Name)}
        v = n.value
        if names & text_vars:
            n_sites += 1
            callee = norm(v.func).split('.')[-1] if isinstance(v, ast.Call) else None
            ok = (callee == 'python_bytes_to_unicode') or (isinstance(v, ast.Call) and isinstance(v.func, ast.Attribute) and v.func.attr == 'read'
                                                           and not v.args) or (isinstance(v, ast.Name) and (v.id in params or v.id in text_vars))
            rep.ob('SRC-1', GRAMMAR, f.qual, norm(n), ok and isinstance(n, ast.Assign),
                   'the source text is changed by something other than the decoder before it is tokenized: the tree no longer '
                   'spells the input')
        if names & line_vars:
            n_sites += 1
            ok = isinstance(v, ast.Call) and norm(v.func).split('.')[-1] == 'split_lines' and v.args and isinstance(v.args[0], ast.Name) \
                and v.args[0].id in text_vars and any(k.arg == 'keepends' and isinstance(k.value, ast.Constant) and k.value.value is True for k in v.keywords)
            rep.ob('SRC-1', GRAMMAR, f.qual, norm(n), ok and isinstance(n, ast.Assign),
                   'the line list handed to the tokenizer is not split_lines(<decoded text>, keepends=True)')
    # mutating calls on the line list
    for n in walk_own(f.node):
        if isinstance(n, ast.Call) and isinstance(n.func, ast.Attribute) and isinstance(n.func.value, ast.Name) \
                and n.func.value.id in line_vars and n.func.attr in ('pop', 'append', 'insert', 'remove', 'extend', 'clear', 'sort', 'reverse'):
            n_sites += 1
            rep.ob('SRC-1', GRAMMAR, f.qual, norm(n), False, 'the line list is changed before it is tokenized')
    rep.minimum('SRC-1', 3)
