"""TC - leaf-category (type-confusion) model and rule TC-1, built on E3 + E4.

parso compares leaf *text* with keyword / operator spellings.  That is only
sound for keyword / operator leaves: other leaf classes (above all
``fstring_string``) can carry the same text.
"""
import ast
import re

from .. import rx
from ..fold import Rx
from ..model import AnalysisError, norm, head, walk_own, Cls, Func, qual_of
from .gr import direct_children, shape_appearance

KW_OP = {'keyword', 'operator'}

# leaf type -> token kind(s) it is created from
LEAF_KINDS = {
    'keyword': 'NAME', 'name': 'NAME', 'operator': 'OP', 'number': 'NUMBER', 'string': 'STRING',
    'fstring_string': 'FSTRING_STRING', 'fstring_start': 'FSTRING_START', 'fstring_end': 'FSTRING_END',
    'newline': 'NEWLINE', 'endmarker': 'ENDMARKER', 'error_leaf': None,
}


class TokenValueModel:
    def __init__(self, ctx):
        self.ctx = ctx
        g = ctx.grammars[-1]
        self.grammar = g
        env = ctx.token_collection(g.version)
        tok = ctx.folder('parso/python/tokenize.py')
        self.keywords = set()
        for gr_ in ctx.grammars:
            self.keywords |= {t for t in gr_.literal_terminals() if re.fullmatch(r'[A-Za-z_]\w*', t)}
        self.operators = set()
        for gr_ in ctx.grammars:
            self.operators |= {t for t in gr_.literal_terminals() if not re.fullmatch(r'[A-Za-z_]\w*', t)}
        fs = []
        for name in ('fstring_string_single_line', 'fstring_string_multi_line',
                     'fstring_format_spec_single_line', 'fstring_format_spec_multi_line'):
            v = tok.get(name)
            if not isinstance(v, Rx):
                raise AnalysisError('tokenize.%s does not fold to a pattern' % name)
            fs.append(v.source)
        self.patterns = {
            'name': env['Name'],
            'number': env['Number'],
            'fstring_string': '(?:' + '|'.join('(?:%s)' % s for s in fs) + ')',
            'newline': r'(?:\r\n?|\n)',
            'string': r"""(?s)[A-Za-z]*['"].*""",
            'fstring_start': r"""[A-Za-z]+['"]{1,3}""",
            'fstring_end': r"""['"]{1,3}""",
            'endmarker': '',
        }
        self._nfa = {}
        self._parents = None

    def kinds_for(self, spelling):
        """Leaf types whose value can be exactly ``spelling`` (error leaves can hold anything)."""
        out = {'error_leaf'}
        if spelling in self.keywords:
            out.add('keyword')
        if spelling in self.operators or rx.bt_match(self.ctx.token_collection(self.grammar.version)['Funny'], spelling) == len(spelling) and spelling:
            out.add('operator')
        for k, pat in self.patterns.items():
            if k == 'name' and spelling in self.keywords:
                # reserved words become Keyword leaves in every version that reserves them; in versions that do
                # not (e.g. 'async' as a name) the grammar does not use the spelling either
                pass
            if pat == '':
                if spelling == '':
                    out.add(k)
                continue
            n = rx.bt_match(pat + r'\Z', spelling)
            if n is not None and n == len(spelling):
                if k == 'name' and spelling in self.keywords:
                    continue
                out.add(k)
        return out

    def contains(self, kind, needle):
        """Can a leaf of ``kind`` have a value that *contains* needle (for `'x' in leaf.value`)."""
        if kind in ('error_leaf', 'fstring_string', 'string'):
            return True
        return False

    def parents(self, kind):
        """Node types that can be the parent of a leaf of this type (error_node always possible)."""
        if self._parents is None:
            self._parents = {}
            for g in self.ctx.grammars:
                d = direct_children(g)
                for n, syms in d.items():
                    if n not in g._node_rules:
                        continue
                    for s in syms:
                        if s in g.nts:
                            continue
                        if s.startswith("'"):
                            lit = ast.literal_eval(s)
                            k = 'keyword' if re.fullmatch(r'[A-Za-z_]\w*', lit) else 'operator'
                        else:
                            k = {'NAME': 'name', 'NUMBER': 'number', 'STRING': 'string', 'NEWLINE': 'newline',
                                 'ENDMARKER': 'endmarker', 'FSTRING_STRING': 'fstring_string',
                                 'FSTRING_START': 'fstring_start', 'FSTRING_END': 'fstring_end'}.get(s)
                        if k:
                            self._parents.setdefault(k, set()).add(n)
            # conventions: Param groups parameter leaves
            for k in ('name', 'operator'):
                self._parents.setdefault(k, set()).add('param')
            self._parents.setdefault('keyword', set()).add('lambdef')
        return self._parents.get(kind, set()) | {'error_node'}


# ---------------------------------------------------------------------------
# narrowing by the tests that accompany a comparison
# ---------------------------------------------------------------------------
def _const_strs(ctx, mod, e):
    """Fold an expression to a set of strings (literal, tuple of literals, module constant) or None."""
    if isinstance(e, ast.Constant) and isinstance(e.value, str):
        return {e.value}
    if isinstance(e, (ast.Tuple, ast.List, ast.Set)) and all(isinstance(x, ast.Constant) and isinstance(x.value, str) for x in e.elts):
        return {x.value for x in e.elts}
    if isinstance(e, ast.Name) and e.id in mod.globals:
        try:
            v = ctx.folder(mod.rel).get(e.id)
        except AnalysisError:
            # not folded (the module does something the folder does not follow before it): a single literal definition
            vals = [x for x in mod.globals[e.id] or [] if x is not None]
            if len(vals) == 1 and not isinstance(vals[0], ast.Name):
                if isinstance(vals[0], ast.Call) and norm(vals[0].func) in ('frozenset', 'set', 'tuple') and len(vals[0].args) == 1:
                    return _const_strs(ctx, mod, vals[0].args[0])
                return _const_strs(ctx, mod, vals[0])
            return None
        if isinstance(v, (tuple, list, set, frozenset)) and all(isinstance(x, str) for x in v):
            return set(v)
    return None


class Narrow:
    """Collects what the conditions around a site say about receiver ``recv`` (normalised text)."""

    def __init__(self, ctx, f, recv, model):
        self.ctx, self.f, self.recv, self.model = ctx, f, recv, model
        self.mod = f.mod
        self.aliases_type = {recv + '.type'}
        self.aliases_parent = {recv + '.parent'}
        self.aliases_ptype = {recv + '.parent.type'}
        for n in walk_own(f.node):
            if isinstance(n, ast.Assign) and len(n.targets) == 1 and isinstance(n.targets[0], ast.Name):
                v = norm(n.value)
                if v in self.aliases_type:
                    self.aliases_type.add(n.targets[0].id)
                if v in self.aliases_parent:
                    self.aliases_parent.add(n.targets[0].id)
                    self.aliases_ptype.add(n.targets[0].id + '.type')
                if v in self.aliases_ptype:
                    self.aliases_ptype.add(n.targets[0].id)

    def apply(self, kinds, test, positive):
        """Narrow the set of leaf kinds by ``test`` known to be true (positive) or false."""
        if isinstance(test, ast.BoolOp):
            if isinstance(test.op, ast.And) and positive:
                for v in test.values:
                    kinds = self.apply(kinds, v, True)
                return kinds
            if isinstance(test.op, ast.Or) and not positive:
                for v in test.values:
                    kinds = self.apply(kinds, v, False)
                return kinds
            if isinstance(test.op, ast.Or) and positive:
                out = set()
                for v in test.values:
                    out |= self.apply(set(kinds), v, True)
                return out
            return kinds
        if isinstance(test, ast.UnaryOp) and isinstance(test.op, ast.Not):
            return self.apply(kinds, test.operand, not positive)
        if isinstance(test, ast.Compare) and len(test.ops) == 1:
            l, r, op = norm(test.left), test.comparators[0], test.ops[0]
            vals = _const_strs(self.ctx, self.mod, r)
            eq = isinstance(op, (ast.Eq, ast.In))
            ne = isinstance(op, (ast.NotEq, ast.NotIn))
            if vals is not None and (eq or ne):
                keep = (eq and positive) or (ne and not positive)
                if l in self.aliases_type:
                    return {k for k in kinds if (k in vals) == keep}
                if l in self.aliases_ptype:
                    if keep:
                        return {k for k in kinds if self.model.parents(k) & vals}
                    return kinds        # parent is *not* one of vals: no leaf kind is excluded for sure
                if l == self.recv and (eq and positive):
                    # comparing the leaf object with a string: only Keyword / Operator define that equality
                    return kinds & KW_OP
        if isinstance(test, ast.Call) and norm(test.func) == 'isinstance' and len(test.args) == 2 and positive:
            if norm(test.args[0]) in self.aliases_parent:
                names = [norm(x) for x in (test.args[1].elts if isinstance(test.args[1], ast.Tuple) else [test.args[1]])]
                types = set()
                for nm in names:
                    c = self.ctx.prog.resolve_global(self.mod, nm)
                    if isinstance(c, Cls):
                        for s in self.ctx.prog.subclasses(c):
                            from .gr import class_type
                            t = class_type(s)
                            if t and t[0] == 'const':
                                types.add(t[1])
                            elif t:
                                types |= {'%s_stmt' % k for k in self.model.keywords}
                return {k for k in kinds if self.model.parents(k) & types}
        return kinds

    def enclosing(self, node):
        """(test, positive) pairs that hold when ``node`` executes: enclosing if-bodies (True),
        else-branches (False) and preceding conjuncts of the same `and` chain."""
        out = []
        child = node
        p = getattr(node, '_parent', None)
        while p is not None and p is not self.f.node:
            if isinstance(p, ast.If):
                if child in p.body:
                    out.append((p.test, True))
                elif child in p.orelse:
                    out.append((p.test, False))
            elif isinstance(p, ast.IfExp):
                if child is p.body:
                    out.append((p.test, True))
                elif child is p.orelse:
                    out.append((p.test, False))
            elif isinstance(p, ast.BoolOp) and isinstance(p.op, ast.And):
                for v in p.values:
                    if v is child:
                        break
                    out.append((v, True))
                # conjuncts after the site also have to hold for the whole condition to be true
                after = False
                for v in p.values:
                    if v is child:
                        after = True
                    elif after:
                        out.append((v, True))
            elif isinstance(p, ast.BoolOp) and isinstance(p.op, ast.Or):
                for v in p.values:
                    if v is child:
                        break
                    out.append((v, False))
            elif isinstance(p, (ast.FunctionDef, ast.AsyncFunctionDef, ast.Lambda)):
                break
            self._earlier_guards(p, child, out)
            child = p
            p = getattr(p, '_parent', None)
        if p is self.f.node:
            self._earlier_guards(p, child, out)
        return out

    @staticmethod
    def _earlier_guards(p, child, out):
        # earlier guards of the same block: `if T: ...; return|raise|continue|break` (no else) means not T here
        from ..facts import _assigned_names, _names, _TERMINATORS
        for field in ('body', 'orelse', 'finalbody'):
            block = getattr(p, field, None)
            if isinstance(block, list) and any(b is child for b in block):
                i = [b is child for b in block].index(True)
                for j in range(i):
                    g = block[j]
                    if isinstance(g, ast.If) and not g.orelse and g.body and isinstance(g.body[-1], _TERMINATORS) \
                            and not _assigned_names(block[j + 1:i]) & _names(g.test):
                        out.append((g.test, False))


def value_sites(ctx, mod):
    """Comparisons of a leaf's text with string literals:  X.value ==/in LIT,  alias ==/in LIT,  LIT in X.value."""
    out = []
    for f in mod.funcs.values():
        value_alias = {}
        for n in walk_own(f.node):
            if isinstance(n, ast.Assign) and len(n.targets) == 1 and isinstance(n.targets[0], ast.Name) \
                    and isinstance(n.value, ast.Attribute) and n.value.attr == 'value':
                value_alias[n.targets[0].id] = norm(n.value.value)
        for n in walk_own(f.node):
            if not (isinstance(n, ast.Compare) and len(n.ops) == 1):
                continue
            l, r, op = n.left, n.comparators[0], n.ops[0]

            def recv_of(e):
                if isinstance(e, ast.Attribute) and e.attr == 'value':
                    return norm(e.value)
                if isinstance(e, ast.Name) and e.id in value_alias:
                    return value_alias[e.id]
                return None
            rl = recv_of(l)
            lits = _const_strs(ctx, mod, r)
            if rl is not None and lits is not None and isinstance(op, (ast.Eq, ast.In, ast.NotEq, ast.NotIn)):
                mode = 'eq'
                if isinstance(r, ast.Constant) and isinstance(op, (ast.In, ast.NotIn)):
                    # substring test  value in 'abc'  -> every substring, in practice the single characters
                    lits = set(r.value) | {r.value}
                    mode = 'substr-of-literal'
                out.append((f, n, rl, lits, mode))
                continue
            rr = recv_of(r)
            if rr is not None and isinstance(l, ast.Constant) and isinstance(l.value, str) and isinstance(op, (ast.In, ast.NotIn)):
                out.append((f, n, rr, {l.value}, 'literal-in-value'))
    return out


def _effects_of(site):
    """Statements whose execution depends on the comparison: the body of the if/while whose test contains
    it (else: the statement containing it)."""
    child = site
    p = getattr(site, '_parent', None)
    while p is not None and not isinstance(p, ast.stmt):
        child = p
        p = getattr(p, '_parent', None)
    if p is None:
        return []
    if isinstance(p, (ast.If, ast.While)) and child is p.test:
        out = []

        def collect(stmts):
            for st in stmts:
                if isinstance(st, ast.If):
                    collect(st.body)
                    collect(st.orelse)
                elif isinstance(st, (ast.For, ast.While, ast.With, ast.Try)):
                    out.append(st)
                elif isinstance(st, ast.Assign) and all(isinstance(t, ast.Name) for t in st.targets) \
                        and isinstance(st.value, (ast.Attribute, ast.Name, ast.Constant, ast.Subscript)):
                    continue        # alias / plain local
                elif isinstance(st, (ast.Pass, ast.Continue, ast.Break)):
                    continue
                else:
                    out.append(st)
        collect(p.body)
        return out
    return [p]


def tc_sites(ctx, rep, rel, rule, wanted=None, reason_scope=''):
    """Apply TC-1 to the value comparisons of one module.  ``wanted(f, effect_stmt) -> bool`` selects the
    effects that matter for the property at hand; sites without such an effect are listed as unchecked."""
    model = TokenValueModel(ctx)
    mod = ctx.prog.mod(rel)
    n_sites = 0
    for f, node, recv, lits, mode in value_sites(ctx, mod):
        syntax = {s for s in lits if s in model.keywords or s in model.operators}
        if not syntax:
            continue
        construct = norm(node)
        # `children = x.children` followed by children[i]: the same kind of receiver
        by_index = '.children[' in recv
        if not by_index and '[' in recv:
            base = recv.split('[', 1)[0]
            vals = [norm(a.value) for a in walk_own(f.node) if isinstance(a, ast.Assign)
                    and any(isinstance(t, ast.Name) and t.id == base for t in a.targets)]
            by_index = bool(vals) and all(v.endswith('.children') for v in vals)
        if by_index:
            rep.skip(rule, rel, f.qual, construct, 'receiver is a child selected by index: its kind follows from the '
                                                   'shape of the parent rule (GR-10), not from a type test')
            continue
        effects = _effects_of(node)
        if wanted is not None:
            effects = [e for e in effects if wanted(f, e)]
            if not effects:
                rep.skip(rule, rel, f.qual, construct, 'comparison does not drive %s' % reason_scope)
                continue
        if not effects:
            rep.skip(rule, rel, f.qual, construct, 'comparison guards no effect')
            continue
        n_sites += 1
        nar = Narrow(ctx, f, recv, model)
        start = set()
        for s in syntax:
            if mode == 'literal-in-value':
                start |= {k for k in LEAF_KINDS if model.contains(k, s)} | (model.kinds_for(s))
            else:
                start |= model.kinds_for(s)
        worst = set()
        for eff in effects:
            kinds = set(start)
            for test, pos in nar.enclosing(node) + nar.enclosing(eff):
                kinds = nar.apply(kinds, test, pos)
            kinds = _rule_context(ctx, f, recv, kinds)
            worst |= kinds - KW_OP - _excluded_by_visitor(ctx, f)
        rep.ob(rule, rel, f.qual, construct, not worst,
               'text comparison with %s can also be satisfied by a %s leaf (e.g. f-string text), not only by a '
               'keyword / operator leaf' % (sorted(syntax)[:4], '/'.join(sorted(worst))), witness=sorted(worst))
    return n_sites


def _rule_context(ctx, f, recv, kinds):
    """If f is is_issue/get_node of a rule class registered by *type*, and recv is its node argument."""
    cls = ctx.cg.owner_class(f)
    if cls is None:
        return kinds
    params = f.params()
    if len(params) < 2 or recv != params[1]:
        return kinds
    types, values = registrations(ctx, cls)
    if types and not values:
        return {k for k in kinds if k in types}
    if values and not types:
        # fed by the value dispatch of Normalizer.visit_leaf only: the leaf kinds that dispatch lets through
        return _through_value_dispatch(ctx, kinds)
    return kinds


_dispatch = {}


def _value_dispatch_tests(ctx):
    """(Narrow, [(test, polarity)]) guarding the loop over the value-registered rules in Normalizer.visit_leaf."""
    if id(ctx) in _dispatch:
        return _dispatch[id(ctx)]
    from .par import only_via
    model = TokenValueModel(ctx)
    vl = ctx.view(ctx.prog.func('parso/normalizer.py', 'Normalizer.visit_leaf'))     # the dispatch may sit in a private helper
    cfg = ctx.cfg(vl)
    srcs = {'_rule_value_instances'}
    for n in walk_own(vl.node):
        if isinstance(n, ast.Assign) and '_rule_value_instances' in norm(n.value):
            srcs |= {t.id for t in n.targets if isinstance(t, ast.Name)}
    loop = [n for n in cfg.nodes if n.kind == 'iter' and any(
        isinstance(x, (ast.Name, ast.Attribute)) and (getattr(x, 'id', None) in srcs or getattr(x, 'attr', None) in srcs)
        for x in ast.walk(n.ast))]
    if not loop:
        raise AnalysisError('anchor vanished: value-rule dispatch in Normalizer.visit_leaf')
    leafp = vl.params()[1]
    nar = Narrow(ctx, vl, leafp, model)
    tests = []
    for n in cfg.nodes:
        if n.kind == 'test' and (leafp + '.type') in norm(n.ast):
            for lab in ('T', 'F'):
                if only_via(cfg, loop[0], lambda e, n=n: e is n.ast, lab):
                    tests.append((n.ast, lab == 'T'))
    _dispatch[id(ctx)] = (nar, tests)
    return _dispatch[id(ctx)]


def _through_value_dispatch(ctx, kinds):
    nar, tests = _value_dispatch_tests(ctx)
    for t, pos in tests:
        kinds = nar.apply(kinds, t, pos)
    return kinds


def _excluded_by_visitor(ctx, f):
    """Leaf kinds that cannot reach code of ErrorFinder-derived normalizers: visit_leaf returns early for error leaves."""
    if f.mod.rel in ('parso/python/errors.py', 'parso/python/pep8.py'):
        return {'error_leaf'} if _error_leaf_returns_early(ctx) else set()
    return set()


_early = {}


def _error_leaf_returns_early(ctx):
    key = id(ctx)
    if key in _early:
        return _early[key]
    from .par import only_via
    f = ctx.prog.func('parso/python/errors.py', 'ErrorFinder.visit_leaf')
    cfg = ctx.cfg(f)
    sup = [n for n in cfg.nodes if n.kind == 'stmt' and 'super().visit_leaf' in norm(n.ast)]
    ok = bool(sup) and all(only_via(cfg, n, lambda e: norm(e) == "leaf.type == 'error_leaf'", 'F') for n in sup)
    # pep8: _visit_part returns for error_leaf parts; _analyse_non_prefix still sees them -> keep conservative there
    _early[key] = ok
    return ok


def registrations(ctx, cls):
    """(types, values) a rule class is registered under through @X.register_rule decorators."""
    types, values = set(), set()
    for d in cls.node.decorator_list:
        if isinstance(d, ast.Call) and isinstance(d.func, ast.Attribute) and d.func.attr == 'register_rule':
            for kw in d.keywords:
                vals = _const_strs(ctx, cls.mod, kw.value)
                if vals is None:
                    raise AnalysisError('cannot fold register_rule argument of %s' % cls.name)
                if kw.arg in ('type', 'types'):
                    types |= vals
                elif kw.arg in ('value', 'values'):
                    values |= vals
    return types, values


def norm_8(ctx, rep):
    rep.rule('NORM-8', 'value-keyed rule dispatch is leaf-category safe: a spelling a rule is registered for can only be '
                       'the value of keyword / operator leaves that reach the dispatch, or the rule narrows the leaf / its '
                       'parent before it can report')
    from .par import only_via
    model = TokenValueModel(ctx)
    prog = ctx.prog
    # does the dispatch itself filter on the leaf type?
    nar, disp_tests = _value_dispatch_tests(ctx)
    n_rules = 0
    for cls in sorted(prog.classes.values(), key=lambda c: c.qual):
        types, values = registrations(ctx, cls)
        for s in sorted(values):
            n_rules += 1
            kinds = model.kinds_for(s)
            for t, pos in disp_tests:
                kinds = nar.apply(kinds, t, pos)
            if cls.mod.rel in ('parso/python/errors.py', 'parso/python/pep8.py') and _error_leaf_returns_early(ctx):
                kinds -= {'error_leaf'}
            extra = kinds - KW_OP
            guarded = False
            if extra:
                guarded = _rule_narrows(ctx, cls, extra, model)
            rep.ob('NORM-8', cls.mod.rel, cls.qual, 'register_rule(value=%r)' % s, not extra or guarded,
                   'the rule is fed every leaf whose text is %r, which includes %s leaves (valid program: the text inside '
                   'an f-string); it reports without testing the leaf type / parent first' % (s, '/'.join(sorted(extra))),
                   witness='x = f"%s"' % s if 'fstring_string' in extra else None)
    rep.minimum('NORM-8', 6)


def _rule_narrows(ctx, cls, extra, model):
    """Every way is_issue can report is behind a test that excludes the ``extra`` leaf kinds."""
    m = cls.lookup('is_issue')
    if m is None:
        return False
    leafp = m.params()[1]
    nar = Narrow(ctx, m, leafp, model)
    reports = []
    for n in walk_own(m.node):
        if isinstance(n, ast.Return) and n.value is not None and not (isinstance(n.value, ast.Constant) and not n.value.value):
            reports.append(n)
        if isinstance(n, ast.Call) and isinstance(n.func, ast.Attribute) and n.func.attr == 'add_issue':
            reports.append(n)
    if not reports:
        return True
    for r in reports:
        kinds = set(extra)
        conds = nar.enclosing(r)
        if isinstance(r, ast.Return):
            # the returned expression itself may be the narrowing conjunction
            conds = conds + [(r.value, True)]
        for t, pos in conds:
            kinds = nar.apply(kinds, t, pos)
        if kinds:
            return False
    return True
