"""Normalizer rules NORM-1 .. NORM-6 (engine E7)."""
import ast

from ..model import AnalysisError, norm, head, walk_own, Cls, Func, qual_of
from ..paths import find_path, path_text
from .par import only_via, calls_in, is_method_call, nodes_calling
from . import tc

ERRORS = 'parso/python/errors.py'
NORMALIZER = 'parso/normalizer.py'
PEP8 = 'parso/python/pep8.py'
TREE = 'parso/tree.py'


def norm_1_2(ctx, rep):
    rep.rule('NORM-1', 'in ErrorFinder.visit_leaf every path through the error_leaf branch adds a syntax or indentation '
                       'error before returning')
    rep.rule('NORM-2', 'error nodes are reported: both error_node rules are registered under ErrorNode.type, visit() runs '
                       'the node rules for an error node without descending, and the invalid-syntax rule reports unless '
                       'the next leaf is an error leaf')
    prog = ctx.prog
    f = ctx.view(prog.func(ERRORS, 'ErrorFinder.visit_leaf'), keep=('_add_syntax_error', '_add_indentation_error'))
    cfg = ctx.cfg(f)
    tests = [n for n in cfg.nodes if n.kind == 'test' and norm(n.ast) == "leaf.type == 'error_leaf'"]
    if len(tests) != 1:
        raise AnalysisError('ErrorFinder.visit_leaf: error_leaf test not found')
    adders = set(nodes_calling(cfg, lambda c: is_method_call(c, '_add_syntax_error') or is_method_call(c, '_add_indentation_error')
                               or is_method_call(c, 'add_issue')))
    start = [s for s, lab in tests[0].succ if lab == 'T']
    p = find_path(cfg, start, lambda n: n is cfg.exit, lambda n: n in adders)
    rep.ob('NORM-1', ERRORS, f.qual, "if leaf.type == 'error_leaf': ... add error", p is None,
           'an error leaf can pass without an issue: %s' % (' -> '.join(path_text(p)) if p else ''),
           witness=path_text(p) if p else None)
    for q, code, prefix in (('ErrorFinder._add_syntax_error', 901, 'SyntaxError: '),
                            ('ErrorFinder._add_indentation_error', 903, 'IndentationError: ')):
        g = prog.func(ERRORS, q)
        calls = [c for c in walk_own(g.node) if isinstance(c, ast.Call) and is_method_call(c, 'add_issue')]
        ok = len(calls) == 1
        if ok:
            b = dict(zip(['node', 'code', 'message'], calls[0].args))
            b.update({kw.arg: kw.value for kw in calls[0].keywords if kw.arg})
            ok = set(b) == {'node', 'code', 'message'} and isinstance(b['code'], ast.Constant) and b['code'].value == code \
                and norm(b['node']) == g.params()[1] and _starts_with(b['message'], prefix)
        rep.ob('NORM-1', ERRORS, q, 'self.add_issue(<node>, %d, %r + message)' % (code, prefix), ok,
               'helper does not add an issue with code %d and prefix %r for the given node' % (code, prefix))
    # NORM-2
    en = prog.cls(TREE, 'ErrorNode')
    t = en.attrs.get('type')
    etype = t.value if isinstance(t, ast.Constant) else None
    rep.ob('NORM-2', TREE, 'ErrorNode', 'type = %r' % etype, etype == 'error_node', 'ErrorNode.type changed')
    for name in ('_ExpectIndentedBlock', '_InvalidSyntaxRule'):
        c = prog.cls(ERRORS, name)
        types, values = tc.registrations(ctx, c)
        rep.ob('NORM-2', ERRORS, name, 'registered for %s' % sorted(types), etype in types,
               'rule is not registered for error nodes')
    # the traversal ErrorFinder uses (its own visit, or the one it inherits)
    v = prog.cls(ERRORS, 'ErrorFinder').lookup('visit')
    if v is None:
        raise AnalysisError('anchor vanished: the visit method of ErrorFinder')
    cfg = ctx.cfg(v)
    node_param = v.params()[1]
    withs = [n for n in cfg.nodes if n.kind == 'with' and 'self.visit_node(%s)' % node_param in norm(n.ast.items[0].context_expr)]
    descents = [n for n in cfg.nodes if n.ast is not None and n.kind in ('stmt', 'test')
                and any(isinstance(c, ast.Call) and norm(c.func) in ('super().visit', 'self.visit') for c in ast.walk(n.ast))]
    etests = [t for t in cfg.nodes if t.kind == 'test' and norm(t.ast) == "%s.type == 'error_node'" % node_param]
    starts = [s2 for t in etests for s2, lab in t.succ if lab == 'T']
    others = [s2 for t in etests for s2, lab in t.succ if lab == 'F']
    # on the error_node side: the node rules run (inside / through a `with self.visit_node(node)`), nothing descends
    p_descend = find_path(cfg, starts, lambda n: n in descents, lambda n: False) if starts else None
    p_skip = find_path(cfg, starts, lambda n: n is cfg.exit, lambda n: n in withs) if starts else None
    inside_with = bool(etests) and find_path(cfg, [cfg.entry], lambda n: n in etests, lambda n: n in withs) is None
    reaches = bool(others) and find_path(cfg, others, lambda n: n in descents, lambda n: False) is not None
    ok = bool(withs) and bool(starts) and p_descend is None and (p_skip is None or inside_with) and reaches
    rep.ob('NORM-2', v.mod.rel, v.qual, 'error node: visit_node(node) without descending', ok,
           'error nodes are descended into or skipped without running the node rules%s'
           % ((': ' + ' -> '.join(path_text(p_descend or p_skip))) if (p_descend or (p_skip and not inside_with)) else ''))
    vn = prog.func(ERRORS, 'ErrorFinder.visit_node')
    first = vn.node.body[0] if vn.node.body else None
    rep.ob('NORM-2', ERRORS, vn.qual, 'self._check_type_rules(node) first', first is not None and 'self._check_type_rules(node)' in norm(first),
           'type rules are not run for every node entered')
    isr = prog.cls(ERRORS, '_InvalidSyntaxRule')
    m = isr.methods.get('is_issue')
    ok = m is not None and "node.get_next_leaf().type != 'error_leaf'" in norm(m.node, 3000)
    gn = isr.methods.get('get_node')
    ok = ok and gn is not None and 'return node.get_next_leaf()' in norm(gn.node)
    rep.ob('NORM-2', ERRORS, '_InvalidSyntaxRule', 'reports at the leaf following the error node unless it is an error leaf', ok,
           'the invalid-syntax rule no longer reports at the following leaf')
    rep.minimum('NORM-2', 5)


def _starts_with(e, prefix):
    if isinstance(e, ast.BinOp) and isinstance(e.op, ast.Add):
        return _starts_with(e.left, prefix)
    if isinstance(e, ast.Constant) and isinstance(e.value, str):
        return e.value.startswith(prefix)
    if isinstance(e, ast.JoinedStr) and e.values and isinstance(e.values[0], ast.Constant):
        return e.values[0].value.startswith(prefix)
    return False


def norm_3(ctx, rep):
    rep.rule('NORM-3', 'every rule registered on ErrorFinder derives from SyntaxRule (901, "SyntaxError: ") or '
                       'IndentationRule (903, "IndentationError: "); no rule overrides code or drops the prefix')
    prog = ctx.prog
    syn = prog.cls(ERRORS, 'SyntaxRule')
    ind = prog.cls(ERRORS, 'IndentationRule')
    for c, code, prefix in ((syn, 901, 'SyntaxError: '), (ind, 903, 'IndentationError: ')):
        v = c.attrs.get('code')
        ok = isinstance(v, ast.Constant) and v.value == code
        gm = c.methods.get('_get_message')
        rets = [r for r in walk_own(gm.node) if isinstance(r, ast.Return)] if gm else []
        ok = ok and bool(rets) and all(_starts_with(r.value, prefix) for r in rets)
        rep.ob('NORM-3', ERRORS, c.qual, 'code = %d, messages prefixed %r' % (code, prefix), ok,
               'base rule class no longer pairs code %d with prefix %r' % (code, prefix))
    n = 0
    for c in sorted(prog.classes.values(), key=lambda c: c.qual):
        types, values = tc.registrations(ctx, c)
        if not (types or values):
            continue
        # registered on which normalizer?
        on = {norm(d.func.value) for d in c.node.decorator_list
              if isinstance(d, ast.Call) and isinstance(d.func, ast.Attribute) and d.func.attr == 'register_rule'}
        if not on & {'ErrorFinder'}:
            continue
        n += 1
        derives = syn in c.mro or ind in c.mro
        overrides = [k.name for k in c.mro if isinstance(k, Cls) and k not in (syn, ind)
                     and ('code' in k.attrs or '_get_message' in k.methods) and k.name not in ('Rule',)]
        rep.ob('NORM-3', ERRORS, c.qual, 'class %s' % c.name, derives and not overrides,
               'rule does not derive from SyntaxRule / IndentationRule' if not derives else
               'rule overrides code / _get_message (%s)' % overrides)
    # Rule.add_issue hands code and the prefixed message to the normalizer
    ra = prog.func(NORMALIZER, 'Rule.add_issue')
    calls = [c for c in walk_own(ra.node) if isinstance(c, ast.Call) and is_method_call(c, 'add_issue')]
    ok = len(calls) == 1 and [norm(a) for a in calls[0].args] == ['node', 'code', 'message'] and \
        any(isinstance(s, ast.Assign) and norm(s.targets[0]) == 'message' and 'self._get_message(' in norm(s.value) for s in walk_own(ra.node))
    rep.ob('NORM-3', NORMALIZER, ra.qual, 'self._normalizer.add_issue(node, code, self._get_message(...))', ok,
           'rule issues bypass the code / message-prefix pairing')
    rep.minimum('NORM-3', 30)


def norm_4_5(ctx, rep):
    rep.rule('NORM-4', 'ErrorFinder.add_issue keeps the first issue per line (setdefault keyed by the line of the node); '
                       'finalize turns every kept entry into exactly one Issue')
    rep.rule('NORM-5', '.issues is appended to only in Normalizer.add_issue (guarded by `not in`, Issue equality on code '
                       'and start) and ErrorFinder.finalize')
    prog = ctx.prog
    a = prog.func(ERRORS, 'ErrorFinder.add_issue')
    nodep = a.params()[1]
    sd = [c for c in walk_own(a.node) if isinstance(c, ast.Call) and is_method_call(c, 'setdefault')]
    ok = len(sd) == 1 and norm(sd[0].func.value) == 'self._error_dict'
    line_ok = False
    if ok:
        key = sd[0].args[0]
        kt = norm(key)
        if isinstance(key, ast.Name):
            vals = [norm(n.value) for n in walk_own(a.node) if isinstance(n, ast.Assign) and norm(n.targets[0]) == key.id]
            kt = vals[0] if len(vals) == 1 else kt
        line_ok = kt in ('%s.start_pos[0]' % nodep, '%s.line' % nodep)
    stores = [n for n in walk_own(a.node) if isinstance(n, ast.Assign) and any('_error_dict' in norm(t) for t in n.targets)]
    rep.ob('NORM-4', ERRORS, a.qual, 'self._error_dict.setdefault(<line of node>, ...)', ok and line_ok and not stores,
           'issues are not de-duplicated per line with first-wins semantics')
    fz = prog.func(ERRORS, 'ErrorFinder.finalize')
    loops = [n for n in walk_own(fz.node) if isinstance(n, ast.For) and norm(n.iter) == 'self._error_dict.values()']
    ok = len(loops) == 1 and len(loops[0].body) == 1 and 'self.issues.append(Issue(' in norm(loops[0].body[0]) \
        and not any(isinstance(x, (ast.If, ast.Continue, ast.Break)) for x in ast.walk(loops[0]))
    rep.ob('NORM-4', ERRORS, fz.qual, 'for ... in self._error_dict.values(): self.issues.append(Issue(...))', ok,
           'not every kept entry becomes exactly one Issue')
    # argument order stored == order unpacked == Issue(node, code, message)
    if loops and sd:
        stored = sd[0].args[1]
        if isinstance(stored, ast.Name):
            vals = [n.value for n in walk_own(a.node) if isinstance(n, ast.Assign) and norm(n.targets[0]) == stored.id]
            stored = vals[0] if vals else stored
        st = [norm(e) for e in stored.elts] if isinstance(stored, ast.Tuple) else None
        un = [norm(e) for e in loops[0].target.elts] if isinstance(loops[0].target, ast.Tuple) else None
        call = [c for c in ast.walk(loops[0]) if isinstance(c, ast.Call) and norm(c.func) == 'Issue']
        args = [norm(x) for x in call[0].args] if call else None
        params = a.params()[1:]
        ok = st is not None and un is not None and args is not None and len(st) == len(un) == 3 \
            and sorted(st) == sorted(params) and [un[st.index(p)] for p in params] == args
        rep.ob('NORM-4', ERRORS, fz.qual, 'stored tuple %s unpacked as %s -> Issue(%s)' % (st, un, args), ok,
               'node / code / message are permuted between add_issue and finalize')
    # NORM-5
    appenders = []
    for f in prog.funcs.values():
        for n in walk_own(f.node):
            if isinstance(n, ast.Call) and is_method_call(n, 'append') and norm(n.func.value).endswith('.issues'):
                appenders.append((f, n))
            if isinstance(n, (ast.Assign, ast.AugAssign)):
                for t in (n.targets if isinstance(n, ast.Assign) else [n.target]):
                    if isinstance(t, ast.Attribute) and t.attr == 'issues' and f.name != '__init__':
                        appenders.append((f, n))
    allowed = {(NORMALIZER, 'Normalizer.add_issue'), (ERRORS, 'ErrorFinder.finalize')}
    for f, n in appenders:
        rep.ob('NORM-5', f.mod.rel, f.qual, norm(n), f.key in allowed, 'issue list modified outside the two sanctioned places')
    na = prog.func(NORMALIZER, 'Normalizer.add_issue')
    cfg = ctx.cfg(na)
    aps = [n for n in cfg.nodes if calls_in(n, lambda c: is_method_call(c, 'append') and norm(c.func.value) == 'self.issues')]
    ok = len(aps) == 1 and only_via(cfg, aps[0], lambda e: isinstance(e, ast.Compare) and isinstance(e.ops[0], ast.NotIn)
                                    and norm(e.comparators[0]) == 'self.issues', 'T')
    rep.ob('NORM-5', NORMALIZER, na.qual, 'if issue not in self.issues: self.issues.append(issue)', ok,
           'duplicate (code, position) issues are no longer suppressed')
    eq = prog.func(NORMALIZER, 'Issue.__eq__')
    rets = [r for r in walk_own(eq.node) if isinstance(r, ast.Return)]
    ok = len(rets) == 1 and isinstance(rets[0].value, ast.BoolOp) and isinstance(rets[0].value.op, ast.And) and \
        {norm(v) for v in rets[0].value.values} == {'self.start_pos == other.start_pos', 'self.code == other.code'}
    rep.ob('NORM-5', NORMALIZER, eq.qual, 'equality on start_pos and code', ok, 'Issue equality is not (code, start position)')
    rep.minimum('NORM-5', 4)


# ---------------------------------------------------------------------------
def _tos_aliases(scope, attr='_indentation_tos'):
    """locals that hold the top of the stack: assigned from self.<attr> (or from such a local's .parent together with the
    attribute itself: `self.<attr> = x = x.parent`)"""
    out = set()
    if scope is None:
        return out
    for n in ast.walk(scope):
        if isinstance(n, ast.Assign) and isinstance(n.value, ast.Attribute) and n.value.attr == attr:
            out |= {t.id for t in n.targets if isinstance(t, ast.Name)}
    return out


def _scope_of(n):
    p = n
    while p is not None and not isinstance(p, (ast.FunctionDef, ast.AsyncFunctionDef)):
        p = getattr(p, '_parent', None)
    return p


def _is_tos(e, aliases, attr='_indentation_tos'):
    return (isinstance(e, ast.Attribute) and e.attr == attr) or (isinstance(e, ast.Name) and e.id in aliases)


def _is_pop(n, attr='_indentation_tos'):
    if not (isinstance(n, ast.Assign) and any(isinstance(t, ast.Attribute) and t.attr == attr for t in n.targets)
            and all(isinstance(t, (ast.Attribute, ast.Name)) for t in n.targets)):
        return False
    aliases = _tos_aliases(_scope_of(n), attr)
    return isinstance(n.value, ast.Attribute) and n.value.attr == 'parent' and _is_tos(n.value.value, aliases, attr)


def _is_push(n, attr='_indentation_tos'):
    if not (isinstance(n, ast.Assign) and len(n.targets) == 1 and isinstance(n.targets[0], ast.Attribute)
            and n.targets[0].attr == attr and isinstance(n.value, ast.Call)):
        return False
    aliases = _tos_aliases(_scope_of(n), attr)
    for kw in n.value.keywords:
        if kw.arg == 'parent' and _is_tos(kw.value, aliases, attr):
            return True
    return any(_is_tos(a, aliases, attr) for a in n.value.args)


def norm_6(ctx, rep):
    rep.rule('NORM-6', 'every pop of the PEP 8 indentation stack is guarded by a test of the top node type that excludes '
                       'the root, or is the exit half of the suite context manager, or is the else-half of a push/pop pair '
                       'under one shared recognition guard; such text-based guards are leaf-category safe (TC-1)')
    prog = ctx.prog
    mod = prog.mod(PEP8)
    n_pops = 0
    def local_aliases(g):
        out = {'self._indentation_tos'}
        for n in walk_own(g.node):
            if isinstance(n, ast.Assign) and len(n.targets) == 1 and isinstance(n.targets[0], ast.Name) \
                    and norm(n.value) == 'self._indentation_tos':
                out.add(n.targets[0].id)
        return out
    for f in mod.funcs.values():
        # aliases of the stack top: locals assigned from it, and parameters that every call site binds to it
        aliases = local_aliases(f)
        params = f.params()
        for idx, p_ in enumerate(params[1:] if f.cls is not None else params):
            bound = []
            for g in mod.funcs.values():
                for c in walk_own(g.node):
                    if isinstance(c, ast.Call) and isinstance(c.func, ast.Attribute) and c.func.attr == f.name \
                            and norm(c.func.value) == 'self' and f.cls is not None:
                        arg = c.args[idx] if idx < len(c.args) else next((k.value for k in c.keywords if k.arg == p_), None)
                        bound.append(arg is not None and norm(arg) in local_aliases(g))
            if bound and all(bound) and not any(isinstance(x, ast.Name) and x.id == p_ and isinstance(x.ctx, ast.Store)
                                               for x in walk_own(f.node)):
                aliases.add(p_)
        for n in walk_own(f.node):
            if not _is_pop(n):
                continue
            n_pops += 1
            why = None
            # (a) guarded by a positive test on the type of the top node
            from ..facts import facts_at
            type_aliases = {a_.targets[0].id for a_ in walk_own(f.node) if isinstance(a_, ast.Assign) and len(a_.targets) == 1
                            and isinstance(a_.targets[0], ast.Name) and isinstance(a_.value, ast.Attribute)
                            and a_.value.attr == 'type' and norm(a_.value.value) in aliases}
            for text, positive in sorted(facts_at(n, f.node)):
                if positive and ' | ' not in text and ' == IndentationTypes.' in text \
                        and (any(text.startswith(a + '.type == ') for a in aliases)
                             or any(text.startswith(a + ' == ') for a in type_aliases)):
                    why = 'guarded by %s' % text
                    break
            # (c) one half of a push/pop pair under one recognition guard (either orientation of the test)
            child = n
            p = getattr(n, '_parent', None)
            while p is not None and p is not f.node and why is None:
                if isinstance(p, ast.If):
                    other = p.orelse if child in p.body else p.body if child in p.orelse else []
                    if any(_is_push(x) for s in other for x in ast.walk(s)):
                        why = 'pop half of the push/pop pair selected by `%s`' % norm(p.test)
                child = p
                p = getattr(p, '_parent', None)
            # (b) exit half of a context manager: after the yield, mirrored by a push before the yield under the same test
            if why is None and 'contextmanager' in f.decorators():
                body = f.node.body
                yi = [i for i, s in enumerate(body) if isinstance(s, ast.Expr) and isinstance(s.value, ast.Yield)]
                if len(yi) == 1:
                    top = n
                    while getattr(top, '_parent', None) is not f.node:
                        top = top._parent
                    if top in body[yi[0] + 1:] and isinstance(top, ast.If):
                        # locate the branch test under which the pop sits
                        branch = _branch_test(top, n)
                        pushes = []
                        for s in body[:yi[0]]:
                            for x in ast.walk(s):
                                if _is_push(x):
                                    pushes.append(_branch_test(_top_if(x, f.node), x))
                        if branch is not None and branch in pushes:
                            why = 'exit half of the context manager (push before the yield under the same test `%s`)' % branch
            rep.ob('NORM-6', PEP8, f.qual, '%s  [%s]' % (norm(n), _guard_text(n, f.node)), why is not None,
                   'pop of the indentation stack that is neither guarded by the type of the top node nor paired with a '
                   'push: an unmatched recognition (here: `%s`) underflows the stack and the next access dereferences None'
                   % _guard_text(n, f.node))
    rep.minimum('NORM-6', 6)
    # (ii) the text-based recognition guards that select push / pop must be leaf-category safe
    def wanted(f, eff):
        return any(isinstance(x, ast.Assign) and any(isinstance(t, ast.Attribute) and t.attr == '_indentation_tos' for t in x.targets)
                   for x in ast.walk(eff))
    tc.tc_sites(ctx, rep, PEP8, 'NORM-6', wanted=wanted, reason_scope='the indentation stack')


def _under_or(t, test):
    p = getattr(t, '_parent', None)
    while p is not None and p is not test:
        if isinstance(p, ast.BoolOp) and isinstance(p.op, ast.Or):
            return True
        p = getattr(p, '_parent', None)
    return isinstance(test, ast.BoolOp) and isinstance(test.op, ast.Or) and t is not test


def _guard_text(n, stop):
    """Innermost enclosing branch condition, printed canonically (independent of if/else orientation)."""
    from ..facts import atoms
    child = n
    p = getattr(n, '_parent', None)
    while p is not None and p is not stop:
        if isinstance(p, ast.If) and (child in p.body or child in p.orelse):
            a = sorted('%s%s' % ('' if pos else 'not ', t) for t, pos in atoms(p.test, child in p.body))
            return 'when ' + ' and '.join(a)[:140]
        child = p
        p = getattr(p, '_parent', None)
    return 'unconditional'


def _top_if(x, fn):
    top = x
    while getattr(top, '_parent', None) is not fn and getattr(top, '_parent', None) is not None:
        top = top._parent
    return top


def _branch_test(top, inner):
    """Text of the test of the if/elif arm (of chain ``top``) whose body contains ``inner``."""
    cur = top
    while isinstance(cur, ast.If):
        if any(inner is x for s in cur.body for x in ast.walk(s)):
            return norm(cur.test)
        if len(cur.orelse) == 1 and isinstance(cur.orelse[0], ast.If):
            cur = cur.orelse[0]
        else:
            return None
    return None


# ---------------------------------------------------------------------------
# NORM-12: attributes that can hold None are not used as strings unguarded
# ---------------------------------------------------------------------------
NORM12_REASONED = {
    ("BracketNode.__init__", "parent_indentation + config.indentation"):
        'reached only when parent.type is SUITE: the ancestor search stops at once for a node without a `leaf` that is no '
        'BracketNode, so parent_indentation is the suite\'s own string',
    ("BracketNode.__init__", "self.indentation += config.indentation"):
        'guarded by `self.indentation == parent_indentation + config.indentation`, which is False for None',
    ("PEP8Normalizer._visit_node", "self._indentation_tos.indentation + self._config.indentation"):
        'a suite starts at statement level: the top of the stack is the root or a suite node (a pending backslash node is '
        'popped on the line above), whose indentation is built from strings only',
}


NORM12_FACT_REASONED = [
    ('BracketNode.__init__', r'parent\.type == IndentationTypes\.SUITE',
     'reached only when parent.type is SUITE: the ancestor search stops at once for a node without a `leaf` that is no '
     'BracketNode, so the indentation read from it is the suite\'s own string'),
    ('BracketNode.__init__', r'self\.indentation == .+',
     'guarded by an equality of self.indentation with a string concatenation, which is False for None'),
    ('PEP8Normalizer._visit_node', r"typ == 'suite'",
     'a suite starts at statement level: the top of the stack is the root or a suite node (a pending backslash node is '
     'popped on the line above), whose indentation is built from strings only'),
]


def norm_12(ctx, rep):
    rep.rule('NORM-12', 'the indentation attributes of the PEP 8 indentation stack can be None (tabs: no visual indentation); '
                        'a value read from them is measured with len(), concatenated or searched only where it is known not to '
                        'be None (an `is None` test on it, or the node is known to be a suite node)')
    from ..facts import facts_at
    mod = ctx.prog.mod(PEP8)
    nullable_attrs = set()
    for f in mod.funcs.values():
        for n in walk_own(f.node):
            if isinstance(n, ast.Assign) and isinstance(n.value, ast.Constant) and n.value.value is None:
                for t in n.targets:
                    if isinstance(t, ast.Attribute) and 'indentation' in t.attr:
                        nullable_attrs.add(t.attr)
    if not nullable_attrs:
        rep.note('NORM-12: no indentation attribute is ever set to None')
        rep.ob('NORM-12', PEP8, '<module>', 'no None-able indentation attribute', True)
        return
    rep.stat('none_able_attributes', sorted(nullable_attrs))
    n_sites = 0
    for f in mod.funcs.values():
        # locals that may carry such a value
        nullable_locals = set()
        for _ in range(3):
            for n in walk_own(f.node):
                if isinstance(n, ast.Assign) and len(n.targets) == 1 and isinstance(n.targets[0], ast.Name):
                    v = n.value
                    if (isinstance(v, ast.Attribute) and v.attr in nullable_attrs and not norm(v.value).endswith('config')) or \
                            (isinstance(v, ast.Name) and v.id in nullable_locals):
                        nullable_locals.add(n.targets[0].id)

        import re as _re

        def attr_source(e):
            # the attribute of an indentation-stack node (not of the configuration object, whose indentation is the
            # string the user chose; not of what get_latest_suite_node() returns: a suite node by construction)
            if not (isinstance(e, ast.Attribute) and e.attr in nullable_attrs):
                return False
            recv = norm(e.value)
            if _re.search(r'(^|\.)_?config$', recv):
                return False
            if isinstance(e.value, ast.Call) and isinstance(e.value.func, ast.Attribute) and e.value.func.attr == 'get_latest_suite_node':
                return False
            return True

        def reaching(name_node):
            """values that can reach this use of a local: the nearest assignment that precedes it in its own or an
            enclosing block; when that is inside a compound statement, every assignment in that statement"""
            from ..model import block_of
            child = name_node
            while not isinstance(child, ast.stmt):
                child = child._parent
            while child is not None and child is not f.node:
                blk = block_of(child)
                idx = [b is child for b in blk].index(True) if blk else 0
                for st in reversed(blk[:idx]):
                    vals = [a.value for a in ast.walk(st) if isinstance(a, ast.Assign)
                            and any(isinstance(t, ast.Name) and t.id == name_node.id for t in a.targets)]
                    if vals:
                        return vals
                child = getattr(child, '_parent', None)
                while child is not None and not isinstance(child, ast.stmt) and child is not f.node:
                    child = getattr(child, '_parent', None)
            return []

        def source(e, depth=0):
            if attr_source(e):
                return e
            if isinstance(e, ast.Name) and e.id in nullable_locals and depth < 3:
                vals = reaching(e)
                if not vals:
                    return e
                if any(attr_source(v) or (isinstance(v, ast.Name) and source(v, depth + 1) is not None) for v in vals):
                    return e
            return None
        uses = []
        for n in walk_own(f.node):
            if isinstance(n, ast.Call) and isinstance(n.func, ast.Name) and n.func.id == 'len' and n.args and source(n.args[0]) is not None:
                uses.append((n, n.args[0], 'len()'))
            elif isinstance(n, ast.BinOp) and isinstance(n.op, ast.Add):
                for side in (n.left, n.right):
                    if source(side) is not None:
                        uses.append((n, side, '+'))
            elif isinstance(n, ast.AugAssign) and isinstance(n.op, ast.Add) and source(n.target) is not None:
                uses.append((n, n.target, '+='))
        from ..model import xnorm, expand_aliases
        type_alias = {}
        for a_ in walk_own(f.node):
            if isinstance(a_, ast.Assign) and len(a_.targets) == 1 and isinstance(a_.targets[0], ast.Name) \
                    and isinstance(a_.value, ast.Attribute) and a_.value.attr == 'type':
                type_alias[a_.targets[0].id] = norm(a_.value)
        for node, src, how in uses:
            n_sites += 1
            text = norm(src)
            facts = set(facts_at(node, f.node))
            # facts written through a local that holds <x>.type
            for t_, pol in list(facts):
                for al, full in type_alias.items():
                    if t_.startswith(al + ' == ') or t_.startswith(al + ' in '):
                        facts.add((full + t_[len(al):], pol))
            safe = None
            if (text + ' is None', False) in facts:
                safe = '`%s is not None` holds here' % text
            elif isinstance(src, ast.Attribute):
                recv = norm(src.value)
                if ('%s.type == IndentationTypes.SUITE' % recv, True) in facts:
                    safe = '%s is a suite node (its indentation is built from strings)' % recv
            if safe is None and isinstance(src, ast.Name):
                # the local was copied from recv.attr: a suite fact on that receiver counts as well
                for a in walk_own(f.node):
                    if isinstance(a, ast.Assign) and len(a.targets) == 1 and isinstance(a.targets[0], ast.Name) \
                            and a.targets[0].id == src.id and isinstance(a.value, ast.Attribute):
                        recv = norm(a.value.value)
                        if ('%s.type == IndentationTypes.SUITE' % recv, True) in facts:
                            safe = '%s is a suite node' % recv
            # reasoned exceptions, keyed by the facts that make them sound (not by how the operands are spelled)
            if safe is None:
                for (qual, fact_text, reason) in NORM12_FACT_REASONED:
                    if f.qual == qual and any(pol and _re.fullmatch(fact_text, t_) for t_, pol in facts):
                        safe = reason
                        break
            key = (f.qual, norm(node))
            if safe is None and key not in NORM12_REASONED:
                # the same construct written through read-only aliases (config_indentation = config.indentation ...)
                key = (f.qual, xnorm(f.node, node))
                key = (key[0], key[1].replace('indentation_tos.', 'self._indentation_tos.').replace('self.self.', 'self.')
                       .replace(' config.', ' self._config.') if f.qual.startswith('PEP8Normalizer') else key[1])
            if safe is None and key in NORM12_REASONED:
                safe = NORM12_REASONED[key]
            rep.ob('NORM-12', PEP8, f.qual, '%s of %s in `%s`' % (how, text, norm(node)[:90]), safe is not None,
                   '%s may be None here (indentation containing tabs): %s raises TypeError and the style check fails on any '
                   'continuation line' % (text, how), reason=safe)
    rep.minimum('NORM-12', 4)


# ---------------------------------------------------------------------------
# NORM-11: per-line state of the prefix splitter is reset with the line
# ---------------------------------------------------------------------------
def norm_11(ctx, rep):
    rep.rule('NORM-11', 'in prefix.split_prefix every variable that takes part in the column of a prefix part and survives a '
                        'loop iteration (other than the running offset) is re-assigned where the line number is incremented: '
                        'state that belongs to the first line (the zero width of a BOM) must not shift the columns of later lines')
    PREFIX = 'parso/python/prefix.py'
    f = ctx.prog.func(PREFIX, 'split_prefix')
    params = f.params()
    line_var = col_var = None
    for n in walk_own(f.node):
        if isinstance(n, ast.Assign) and isinstance(n.targets[0], ast.Tuple) and isinstance(n.value, ast.Name) \
                and n.value.id in params and len(n.targets[0].elts) == 2:
            line_var, col_var = [e.id for e in n.targets[0].elts]
    if line_var is None:
        raise AnalysisError('NORM-11: `line, column = start_pos` not found in split_prefix')
    loops = [n for n in walk_own(f.node) if isinstance(n, ast.While)]
    if len(loops) != 1:
        raise AnalysisError('NORM-11: expected one loop in split_prefix')
    loop = loops[0]
    inc_blocks = []
    for n in ast.walk(loop):
        if isinstance(n, ast.If) and any(isinstance(s, ast.AugAssign) and isinstance(s.target, ast.Name) and s.target.id == line_var
                                         for s in n.body):
            inc_blocks.append(n)
    if len(inc_blocks) != 1:
        raise AnalysisError('NORM-11: the block that increments the line was not found')
    reset = set()
    for s in inc_blocks[0].body:
        tgs = [s.target] if isinstance(s, ast.AugAssign) else s.targets if isinstance(s, ast.Assign) else []
        for t in tgs:
            for x in ast.walk(t):
                if isinstance(x, ast.Name) and isinstance(x.ctx, ast.Store):
                    reset.add(x.id)
    offset_vars = {n.targets[0].id for n in ast.walk(loop) if isinstance(n, ast.Assign) and isinstance(n.targets[0], ast.Name)
                   and isinstance(n.value, ast.Call) and isinstance(n.value.func, ast.Attribute) and n.value.func.attr == 'end'}
    per_iteration = {x.id for s in loop.body if isinstance(s, ast.Assign) for t in s.targets for x in ast.walk(t)
                     if isinstance(x, ast.Name) and isinstance(x.ctx, ast.Store)}
    per_iteration -= offset_vars
    n_sites = 0
    for n in walk_own(f.node):
        if not (isinstance(n, ast.Call) and norm(n.func) == 'PrefixPart'):
            continue
        sp = next((k.value for k in n.keywords if k.arg == 'start_pos'), None)
        if not (isinstance(sp, ast.Tuple) and len(sp.elts) == 2):
            raise AnalysisError('NORM-11: PrefixPart without a literal (line, column) start_pos')
        names = {x.id for x in ast.walk(sp.elts[1]) if isinstance(x, ast.Name)} - {'int', 'len', 'bool'}
        carried = names - offset_vars - per_iteration
        bad = sorted(carried - reset)
        n_sites += 1
        rep.ob('NORM-11', PREFIX, f.qual, 'column %s' % norm(sp.elts[1]), not bad,
               '%s shifts the column of every prefix part but is not reset when the line is incremented: parts on later '
               'lines are displaced (a comment at the start of line two of a prefix that begins with a BOM gets column -1)' % bad,
               reason='carried state %s is re-assigned with the line' % sorted(carried))
    rep.minimum('NORM-11', 2)


# ---------------------------------------------------------------------------------------------------------------
# NORM-13  a prefix is split with a start position computed from its own leaf
def norm_13(ctx, rep):
    rep.rule('NORM-13', 'every call of split_prefix(leaf, start) computes start from that very leaf (its '
                        'get_start_pos_of_prefix(), or an expression over the leaf alone): the positions of the prefix parts are '
                        'offsets from it, and state kept elsewhere (a visitor\'s "previous leaf") differs from the tree around '
                        'error nodes')
    from ..model import reaching_values
    PREFIX = 'parso/python/prefix.py'
    target = ctx.prog.mod(PREFIX).funcs.get('split_prefix')
    if target is None:
        raise AnalysisError('anchor vanished: parso/python/prefix.py:split_prefix')
    n_sites = 0
    for f in sorted(ctx.prog.funcs.values(), key=lambda f: f.key):
        for n in walk_own(f.node):
            if not (isinstance(n, ast.Call) and isinstance(n.func, (ast.Name, ast.Attribute))):
                continue
            name = n.func.id if isinstance(n.func, ast.Name) else n.func.attr
            if name != 'split_prefix':
                continue
            if isinstance(n.func, ast.Name) and ctx.prog.resolve_global(f.mod, name) is not target:
                continue
            args = list(n.args) + [k.value for k in n.keywords]
            if len(args) < 2:
                continue
            n_sites += 1
            leaf, start = args[0], args[1]
            roots = {x.id for x in ast.walk(leaf) if isinstance(x, ast.Name)}

            def derived(e, depth=0):
                for x in ast.walk(e):
                    if isinstance(x, ast.Name) and x.id not in roots:
                        if depth > 3:
                            return x.id
                        vals = reaching_values(f.node, x)
                        if not vals:
                            return x.id
                        for v in vals:
                            bad = derived(v, depth + 1)
                            if bad:
                                return bad
                return None
            bad = derived(start)
            rep.ob('NORM-13', f.mod.rel, f.qual, 'split_prefix(%s, %s)' % (norm(leaf), norm(start)), bad is None,
                   'the start position handed to split_prefix depends on %s, not only on the leaf whose prefix is split' % bad,
                   witness=norm(start))
    if not n_sites:
        raise AnalysisError('NORM-13: no call of split_prefix found')
    rep.stat('norm13_split_prefix_calls', n_sites)


def norm_14(ctx, rep):
    """The PEP 8 indentation stack is a parent-linked list whose root has parent None.  Three walkers test for None, so
    a fourth that does not is a contradiction (Engler): it runs past the root as soon as its stop condition is not met
    on the way up (F23: the node it looks for was pushed inside the same prefix and is no ancestor)."""
    rep.rule('NORM-14', 'every walk up the parent chain of the PEP 8 indentation stack stops at the root: the step '
                        '`n = n.parent` is taken in a loop that tests n for None (loop test, or a test-and-exit right after '
                        'the step), or only on a node whose class always has a parent (isinstance test + required '
                        'constructor argument)')
    from ..facts import facts_at
    mod = ctx.prog.mod(PEP8)
    # classes of stack nodes: those of pep8.py whose __init__ stores a `parent` parameter
    stack_classes = {}
    for c in mod.classes.values():
        for k in (c.mro or [c]):
            init = k.methods.get('__init__') if isinstance(k, Cls) else None
            if init is None or k.mod is not mod:
                continue
            stores = any(isinstance(n, ast.Assign) and any(isinstance(t, ast.Attribute) and t.attr == 'parent' and norm(t.value) == 'self'
                                                           for t in n.targets) for n in walk_own(init.node))
            if stores or any(isinstance(n, ast.Call) and norm(n.func).endswith('__init__') and
                             any(kw.arg == 'parent' for kw in n.keywords) for n in walk_own(init.node)):
                a = init.node.args
                names = [x.arg for x in a.args]
                required = 'parent' in names and names.index('parent') < len(names) - len(a.defaults)
                stack_classes[c.name] = required
                break
    if not stack_classes:
        raise AnalysisError('anchor vanished: the indentation-stack node classes of pep8.py (an __init__ storing self.parent)')
    rep.stat('indentation_stack_classes', {k: ('parent required' if v else 'parent optional') for k, v in sorted(stack_classes.items())})

    def is_stack_walk(f, name, loop):
        # where does the walking variable come from: an attribute *_tos, `self` of a stack class, a parameter named parent
        for n in walk_own(f.node):
            if isinstance(n, ast.Assign) and any(isinstance(t, ast.Name) and t.id == name for t in n.targets):
                v = norm(n.value)
                if v == name + '.parent':
                    continue
                if 'indentation_tos' in v:
                    return True
                if v == 'self' and f.cls is not None and f.cls.name in stack_classes:
                    return True
                if v == 'parent' and f.cls is not None and f.cls.name in stack_classes and 'parent' in f.params():
                    return True
        return False

    n_sites = 0
    for f in mod.funcs.values():
        for loop in walk_own(f.node):
            if not isinstance(loop, (ast.While, ast.For)):
                continue
            for st in ast.walk(loop):
                if not (isinstance(st, ast.Assign) and len(st.targets) == 1 and isinstance(st.targets[0], ast.Name)
                        and isinstance(st.value, ast.Attribute) and st.value.attr == 'parent'
                        and isinstance(st.value.value, ast.Name) and st.value.value.id == st.targets[0].id):
                    continue
                x = st.targets[0].id
                # innermost loop only
                inner = st
                p = getattr(st, '_parent', None)
                while p is not None and not isinstance(p, (ast.While, ast.For)):
                    p = getattr(p, '_parent', None)
                if p is not loop or not is_stack_walk(f, x, loop):
                    continue
                n_sites += 1
                ok = False
                why = ''
                if isinstance(loop, ast.While):
                    from ..facts import atoms as _atoms
                    head_pos = {t for t, pol in _atoms(loop.test, True) if pol}
                    head_neg = {t for t, pol in _atoms(loop.test, True) if not pol}
                    if x in head_pos or ('%s is None' % x) in head_neg or ('%s is not None' % x) in head_pos:
                        ok, why = True, 'the loop test establishes that %s is not None' % x
                if not ok:
                    blk = None
                    par = getattr(st, '_parent', None)
                    for field in ('body', 'orelse', 'finalbody'):
                        b = getattr(par, field, None)
                        if isinstance(b, list) and st in b:
                            blk = b
                    if blk is not None:
                        i = blk.index(st)
                        if i + 1 < len(blk) and isinstance(blk[i + 1], ast.If) and blk[i + 1].body \
                                and isinstance(blk[i + 1].body[-1], (ast.Break, ast.Return, ast.Raise)):
                            t = norm(blk[i + 1].test)
                            if t in ('%s is None' % x, 'not %s' % x):
                                ok, why = True, 'None is tested right after the step'
                if not ok:
                    for t, pol in facts_at(st, f.node):
                        if pol and t.startswith('isinstance(%s, ' % x):
                            cls = t[len('isinstance(%s, ' % x):-1]
                            if stack_classes.get(cls):
                                ok, why = True, 'the step is taken only on a %s, which always has a parent' % cls
                rep.ob('NORM-14', PEP8, f.qual, 'walk: %s in `%s`' % (norm(st), head(loop)), ok,
                       'the walk up the indentation stack can step past the root (parent None) and dereference it: '
                       'nothing in the loop tests %s for None' % x, reason=why)
    rep.minimum('NORM-14', 3)
