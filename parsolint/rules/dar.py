"""E1 / E2 as rules: definite assignment (DA) and call conformance (SIG)."""
import ast

from ..da import DefiniteAssignment, must_yield
from ..model import AnalysisError, norm, head, walk_own, Func, Cls

# Paths that are infeasible for a reason outside the analysis; one named symbol each.
DA_SUPPRESSIONS = {
    ('parso/parser.py', 'BaseParser.parse', 'token'):
        'loop variable read after a loop over the token stream, which is never empty (TOK-5: the tokenizer always ends with ENDMARKER)',
    ('parso/python/errors.py', '_AnnotatorRule.is_issue', 'trailer'):
        'read only under lhs.type in (atom_expr, power); such nodes have children, so the else branch assigned it',
    ('parso/python/errors.py', '_NamedExprRule.is_issue.process_comp_for', 'comp'):
        'only called for children whose type is one of the two types the if/elif chain tests (_COMP_FOR_TYPES)',
    ('parso/python/parser.py', 'Parser.error_recovery.current_suite', 'until_index'):
        'loop over the parser stack, which always holds the file-level entry (PAR-9)',
    ('parso/python/tree.py', 'ImportFrom.get_from_names', 'n'):
        'loop over children[1:] of an import_from node, which has at least two children in every grammar',
}


# structural suppressions: (file, regex on the iterable of the for loop that binds the variable, position in the target)
DA_LOOPVAR_SUPPRESSIONS = [
    ('parso/python/parser.py', r'reversed\(list\(enumerate\(\w+\)\)\)', 0,
     'loop over the parser stack, which always holds the file-level entry (PAR-9)'),
    ('parso/python/parser.py', r'range\(len\(\w+\) - 1, -1, -1\)', 0,
     'loop over the indexes of the parser stack, which always holds the file-level entry (PAR-9)'),
]


def _type_family_exhaustive(ctx, f, var):
    """The variable is assigned in every arm of an `if P.type == A: .. elif P.type == B: ..` chain (no else) over a
    parameter P, and {A, B, ..} is exactly a module-level tuple of node types - the family the argument is selected from
    (`child.type in _COMP_FOR_TYPES`).  -> reason or None"""
    params = set(f.all_params())
    for n in walk_own(f.node):
        if not isinstance(n, ast.If):
            continue
        consts, arms, cur, subject = [], [], n, None
        ok = True
        while True:
            t = cur.test
            if not (isinstance(t, ast.Compare) and len(t.ops) == 1 and isinstance(t.ops[0], ast.Eq)
                    and isinstance(t.left, ast.Attribute) and t.left.attr == 'type' and isinstance(t.left.value, ast.Name)
                    and t.left.value.id in params and isinstance(t.comparators[0], ast.Constant)):
                ok = False
                break
            if subject not in (None, t.left.value.id):
                ok = False
                break
            subject = t.left.value.id
            consts.append(t.comparators[0].value)
            arms.append(cur.body)
            if len(cur.orelse) == 1 and isinstance(cur.orelse[0], ast.If):
                cur = cur.orelse[0]
                continue
            if cur.orelse:
                ok = False
            break
        if not ok or len(consts) < 2:
            continue
        if not all(any(isinstance(st, ast.Assign) and any(isinstance(t, ast.Name) and t.id == var for t in st.targets)
                       for st in arm) for arm in arms):
            continue
        for name, vals in f.mod.globals.items():
            for v in vals or []:
                if isinstance(v, (ast.Tuple, ast.List, ast.Set)) and v.elts and all(
                        isinstance(e, ast.Constant) for e in v.elts) and {e.value for e in v.elts} == set(consts):
                    return 'assigned in every arm of the if/elif chain over %s.type, which covers every member of %s, the ' \
                           'type family the argument is selected from' % (subject, name)
    return None


def _loopvar_suppressed(rel, f, var):
    import re as _re
    for srel, pattern, pos, why in DA_LOOPVAR_SUPPRESSIONS:
        if srel != rel:
            continue
        for n in walk_own(f.node):
            if isinstance(n, ast.For) and _re.fullmatch(pattern, norm(n.iter)):
                tg = n.target.elts if isinstance(n.target, ast.Tuple) else [n.target]
                if pos < len(tg) and isinstance(tg[pos], ast.Name) and tg[pos].id == var:
                    return why
    return None


def _only_index_error(ctx, f, var, findings):
    """Every reported read of ``var`` sits in an `except KeyError` handler of a try whose body *starts* with the single
    assignment `var = <list>[<int constant>]`: evaluating that can raise IndexError but not KeyError, so the handler is
    only entered after the assignment."""
    from ..model import Cls
    for x in findings:
        node = x.node.stmt if x.node.stmt is not None else x.node.ast
        h = node
        while h is not None and not isinstance(h, ast.ExceptHandler):
            h = getattr(h, '_parent', None)
        if h is None or h.type is None or norm(h.type) != 'KeyError':
            return None
        t = getattr(h, '_parent', None)
        if not isinstance(t, ast.Try) or not t.body:
            return None
        first = t.body[0]
        if not (isinstance(first, ast.Assign) and len(first.targets) == 1 and isinstance(first.targets[0], ast.Name)
                and first.targets[0].id == var and isinstance(first.value, ast.Subscript)
                and isinstance(first.value.slice, (ast.Constant, ast.UnaryOp))):
            return None
        others = [a for a in walk_own(f.node) if isinstance(a, ast.Assign) and a is not first
                  and any(isinstance(tg, ast.Name) and tg.id == var for tg in a.targets)]
        # the receiver is a list (subclass)
        recv = first.value.value
        types = ctx.cg.type_of(f, recv) or set()
        if isinstance(recv, ast.Name) and not types:
            from ..model import reaching_values
            for v in reaching_values(f.node, recv):
                types |= ctx.cg.type_of(f, v) or set()
        is_list = bool(types) and all(isinstance(c, Cls) and any(b == 'list' or (isinstance(b, Cls) and b.name == 'list')
                                                                  for b in c.mro) for c in types)
        if not is_list:
            return None
    return 'read in an `except KeyError` handler; the only way to get there with the variable unassigned is the list ' \
           'indexing that assigns it, which raises IndexError, not KeyError'


class NonEmpty:
    """Is a for-loop iterable known to yield at least once?"""

    def __init__(self, ctx):
        self.ctx = ctx
        self._memo = {}
        self._busy = set()
        self._assumed = 0

    def func(self, fn, depth=0):
        """Does every call of ``fn`` produce at least one element?  Greatest fixpoint: a function that is being
        examined further up (recursion, or a name collision in the call resolution) is assumed non-empty - if every
        other way out of it is non-empty, so is the recursive one; results obtained under such an assumption are not
        memoised unless they are final."""
        if fn.key in self._memo:
            return self._memo[fn.key]
        if fn.key in self._busy:
            self._assumed += 1
            return True
        self._busy.add(fn.key)
        assumed_before = self._assumed
        r = False
        if fn.is_generator:
            r = must_yield(fn.node, self.ctx.cfg(fn))
        elif depth < 3:
            rets = [n for n in walk_own(fn.node) if isinstance(n, ast.Return)]
            r = bool(rets) and all(x.value is not None and self.expr(fn, x.value) for x in rets)
        self._busy.discard(fn.key)
        if not self._busy or self._assumed == assumed_before or not r:
            self._memo[fn.key] = r
        return r

    def call(self, f, call, depth=0):
        targets, how = self.ctx.cg.resolve_call(f, call)
        return bool(targets) and all(self.func(t, depth) for t in targets)

    def expr(self, f, e):
        if isinstance(e, (ast.Tuple, ast.List)) and e.elts and not any(isinstance(x, ast.Starred) for x in e.elts):
            return True
        if isinstance(e, ast.Constant) and isinstance(e.value, (str, bytes, tuple)) and len(e.value) > 0:
            return True
        if isinstance(e, ast.Call) and isinstance(e.func, ast.Name) and e.func.id in ('tuple', 'list', 'iter', 'reversed', 'sorted') \
                and len(e.args) == 1 and not self.ctx.cg._is_local(f, e.func.id):
            return self.expr(f, e.args[0])
        if isinstance(e, ast.Call):
            return self.call(f, e)
        if isinstance(e, ast.Name) and self.ctx.cg._is_local(f, e.id):
            vals = [n.value for n in walk_own(f.node) if isinstance(n, ast.Assign)
                    and any(isinstance(t, ast.Name) and t.id == e.id for t in n.targets)]
            others = [n for n in walk_own(f.node) if isinstance(n, (ast.AugAssign, ast.For, ast.With))
                      and any(isinstance(x, ast.Name) and x.id == e.id and isinstance(x.ctx, ast.Store) for x in ast.walk(n))]
            return bool(vals) and not others and e.id not in f.params() and all(self.expr(f, v) for v in vals)
        return False


def da_rule(ctx, rep, modules, rule='DA'):
    rep.rule(rule, 'no local variable is read on a feasible path on which it is unbound (path-sensitive on the '
                   'truthiness of plain names; closures checked at their call sites; never-empty generators recognised)')
    ne = NonEmpty(ctx)
    nfunc = 0
    stats = {'lambda_bodies_unchecked': 0, 'collapsed_nodes': 0}
    used_suppressions = set()
    for rel in modules:
        mod = ctx.prog.mod(rel)
        for f in sorted(mod.funcs.values(), key=lambda f: f.qual):
            nfunc += 1
            da = DefiniteAssignment(f.node, nonempty_iter=lambda e, f=f: ne.expr(f, e), cfg=ctx.cfg(f))
            findings = da.run()
            for k in stats:
                stats[k] += da.stats.get(k, 0)
            by_var = {}
            for x in findings:
                by_var.setdefault(x.var, []).append(x)
            bad = False
            for var, xs in sorted(by_var.items()):
                key = (rel, f.qual, var)
                if key in DA_SUPPRESSIONS:
                    used_suppressions.add(key)
                    rep.skip(rule, rel, f.qual, 'read of %s' % var, DA_SUPPRESSIONS[key])
                    continue
                why_loop = _loopvar_suppressed(rel, f, var)
                if why_loop:
                    rep.skip(rule, rel, f.qual, 'read of %s' % var, why_loop)
                    continue
                why_idx = _only_index_error(ctx, f, var, xs)
                if why_idx:
                    rep.skip(rule, rel, f.qual, 'read of %s' % var, why_idx)
                    continue
                why_fam = _type_family_exhaustive(ctx, f, var)
                if why_fam:
                    rep.skip(rule, rel, f.qual, 'read of %s' % var, why_fam)
                    continue
                bad = True
                x = xs[0]
                where = head(x.node.stmt) if x.node.stmt is not None else '?'
                rep.ob(rule, rel, f.qual, 'read of %s' % var, False,
                       'local %r can be unbound when `%s` executes%s' % (var, where, (' (%s)' % x.detail) if x.detail else ''),
                       witness=where)
            if not bad:
                rep.ob(rule, rel, f.qual, 'def %s' % f.name, True)
    rep.stat('da_functions', nfunc)
    rep.stat('da_stats', stats)
    return nfunc


# ---------------------------------------------------------------------------
def _sig_ok(call, fn, bound_self):
    """Does the call bind to fn's signature?  -> (ok, reason)"""
    a = fn.node.args
    pos = [x.arg for x in a.posonlyargs + a.args]
    if bound_self and pos:
        pos = pos[1:]
    n_default = len(a.defaults)
    required = pos[:len(pos) - n_default] if n_default else list(pos)
    if bound_self and len(a.defaults) > len(pos):
        required = []
    kwonly = [x.arg for x in a.kwonlyargs]
    kw_required = [x.arg for x, d in zip(a.kwonlyargs, a.kw_defaults) if d is None]
    has_star = any(isinstance(x, ast.Starred) for x in call.args)
    has_dstar = any(k.arg is None for k in call.keywords)
    npos = len([x for x in call.args if not isinstance(x, ast.Starred)])
    if npos > len(pos) and a.vararg is None:
        return False, 'too many positional arguments (%d > %d)' % (npos, len(pos))
    given = set(pos[:npos])
    for k in call.keywords:
        if k.arg is None:
            continue
        if k.arg not in pos and k.arg not in kwonly and a.kwarg is None:
            return False, 'unexpected keyword %r' % k.arg
        if k.arg in given:
            return False, 'argument %r given twice' % k.arg
        given.add(k.arg)
    if not has_star and not has_dstar:
        missing = [p for p in required if p not in given] + [p for p in kw_required if p not in given]
        if missing:
            return False, 'missing argument(s) %s' % missing
    return True, ''


def _is_bound(site, target):
    """Is the target called as a bound method / constructor (self supplied implicitly)?"""
    fe = site.node.func
    if target.cls is None:
        return False
    if target.name == '__init__' and not (isinstance(fe, ast.Attribute) and fe.attr == '__init__' and 'super' not in norm(fe)):
        return True
    if 'staticmethod' in target.decorators():
        return False
    if isinstance(fe, ast.Attribute):
        # Class.method(obj, ...) is unbound
        r = None
        if isinstance(fe.value, ast.Name):
            r = site.caller.mod.classes.get(fe.value.id)
        return r is None
    return True


def sig_rule(ctx, rep, modules, rule='SIG'):
    rep.rule(rule, 'every resolved internal call binds to the signature of every possible callee')
    n = 0
    for rel in modules:
        mod = ctx.prog.mod(rel)
        for f in mod.funcs.values():
            for site in ctx.cg.sites[f.key]:
                if not site.targets:
                    continue
                results = [(_sig_ok(site.node, t, _is_bound(site, t)), t) for t in site.targets]
                fe = site.node.func
                precise = not (isinstance(fe, ast.Attribute) and not (
                    isinstance(fe.value, ast.Name) and fe.value.id == ctx.cg.self_name(f)) and 'super' not in norm(fe)
                    and not ctx.cg.type_of(f, fe.value))
                if precise:
                    bad = [(r, t) for r, t in results if not r[0]]
                else:
                    bad = [] if any(r[0] for r, t in results) else results
                n += 1
                rep.ob(rule, rel, f.qual, norm(site.node), not bad,
                       '; '.join('%s: %s' % (t.qual, r[1]) for r, t in bad[:3]))
    return n


# ---------------------------------------------------------------------------
ISSUE_SINKS = {'add_issue'}


def _table_values(f, e):
    """the tuple displays a table look-up can yield: TABLE[key], TABLE.get(key, DEFAULT), a module-level tuple"""
    mod = f.mod

    def global_value(name):
        vals = [v for v in mod.globals.get(name, []) or [] if v is not None]
        return vals[0] if len(vals) == 1 else None
    out = []

    def add(x, depth=0):
        if isinstance(x, ast.Name):
            # a local that is given one of several module-level tables in the arms of a branch: every one of them
            locs = [a.value for a in walk_own(f.node) if isinstance(a, ast.Assign)
                    and any(isinstance(t, ast.Name) and t.id == x.id for t in a.targets)]
            if locs and depth < 2:
                return all(add(v, depth + 1) for v in locs)
            x = global_value(x.id)
        if isinstance(x, ast.Tuple):
            out.append(x)
            return True
        if isinstance(x, ast.Dict) and all(isinstance(v, ast.Tuple) for v in x.values):
            out.extend(x.values)
            return True
        return False
    if isinstance(e, ast.Subscript) and isinstance(e.value, ast.Name):
        return out if add(e.value) else None
    if isinstance(e, ast.Call) and isinstance(e.func, ast.Attribute) and e.func.attr == 'get' and isinstance(e.func.value, ast.Name):
        ok = add(e.func.value)
        for a in e.args[1:]:
            ok = add(a) and ok
        return out if ok else None
    if isinstance(e, (ast.Name, ast.Tuple)):
        return out if add(e) else None
    return None


def _int_kinded(f, e, depth=0):
    if isinstance(e, ast.Constant):
        return isinstance(e.value, int) and not isinstance(e.value, bool)
    if isinstance(e, ast.IfExp):
        return _int_kinded(f, e.body, depth) and _int_kinded(f, e.orelse, depth)
    if isinstance(e, ast.Attribute) and e.attr in ('code', 'error_code'):
        return True
    if isinstance(e, ast.Name) and depth < 2:
        vals = []
        g = f
        while g is not None and not vals:
            for n in walk_own(g.node):
                if isinstance(n, ast.Assign) and any(isinstance(t, ast.Name) and t.id == e.id for t in n.targets):
                    vals.append(n.value)
                # code, message = TABLE[key] / TABLE.get(key, DEFAULT): the element of the pairs at that position
                if isinstance(n, ast.Assign) and len(n.targets) == 1 and isinstance(n.targets[0], ast.Tuple):
                    names = [t.id if isinstance(t, ast.Name) else None for t in n.targets[0].elts]
                    if e.id in names:
                        idx = names.index(e.id)
                        pairs = _table_values(f, n.value)
                        if pairs is None:
                            vals.append(ast.Constant(value='?'))
                        else:
                            vals.extend(p_.elts[idx] if isinstance(p_, ast.Tuple) and idx < len(p_.elts) else ast.Constant(value='?')
                                        for p_ in pairs)
            if e.id in [a.arg for a in g.node.args.args]:
                return e.id in ('code',)       # forwarded parameter named code
            g = g.outer
        return bool(vals) and all(_int_kinded(f, v, depth + 1) for v in vals)
    return False


def _literal(e):
    return isinstance(e, (ast.Constant, ast.JoinedStr, ast.List, ast.Tuple, ast.Dict, ast.Set)) or (
        isinstance(e, ast.BinOp) and _literal(e.left))


def issue_kind_rule(ctx, rep, modules, rule='SIG-K'):
    rep.rule(rule, 'in every issue-reporting call the expression bound to `code` is int-kinded, the one bound to `node` '
                   'is not a literal and the one bound to `message` is not a number')
    n = 0
    for rel in modules:
        mod = ctx.prog.mod(rel)
        for f in mod.funcs.values():
            # nested forwarders:  def helper(*args): ... self.add_issue(*args)
            forwarders = {}
            for name, g in f.nested.items():
                if g.node.args.vararg is not None:
                    va = g.node.args.vararg.arg
                    for c in walk_own(g.node):
                        if isinstance(c, ast.Call) and isinstance(c.func, ast.Attribute) and c.func.attr in ISSUE_SINKS \
                                and len(c.args) == 1 and isinstance(c.args[0], ast.Starred) and norm(c.args[0].value) == va:
                            forwarders[name] = c
            for call in [c for c in walk_own(f.node) if isinstance(c, ast.Call)]:
                targets = None
                if isinstance(call.func, ast.Attribute) and call.func.attr in ISSUE_SINKS:
                    if any(isinstance(a, ast.Starred) for a in call.args):
                        continue
                    targets, how = ctx.cg.resolve_call(f, call)
                    bound = True
                    if 'super' in norm(call.func) or isinstance(call.func.value, ast.Name):
                        pass
                elif isinstance(call.func, ast.Name) and call.func.id in forwarders:
                    inner = forwarders[call.func.id]
                    targets, how = ctx.cg.resolve_call(f.nested[call.func.id], inner)
                else:
                    continue
                if not targets:
                    rep.ob(rule, rel, f.qual, norm(call), False, 'issue sink does not resolve')
                    continue
                for t in targets:
                    a = t.node.args
                    params = [x.arg for x in a.posonlyargs + a.args][1:]
                    b = {}
                    for i, arg in enumerate(call.args):
                        if i < len(params):
                            b[params[i]] = arg
                    for kw in call.keywords:
                        if kw.arg:
                            b[kw.arg] = kw.value
                    problems = []
                    if 'code' in b and not (isinstance(b['code'], ast.Constant) and b['code'].value is None) \
                            and not _int_kinded(f, b['code']):
                        problems.append('code <- %s is not an integer code' % norm(b['code']))
                    if 'node' in b and _literal(b['node']):
                        problems.append('node <- %s is a literal, not a node' % norm(b['node']))
                    if 'message' in b and isinstance(b['message'], ast.Constant) and isinstance(b['message'].value, (int, float)) \
                            and b['message'].value is not None and not isinstance(b['message'].value, bool):
                        problems.append('message <- %s is a number' % norm(b['message']))
                    n += 1
                    rep.ob(rule, rel, f.qual, '%s -> %s' % (norm(call), t.qual), not problems, '; '.join(problems))
    return n


# ---------------------------------------------------------------------------------------------------------------------
# IDX-1  no constant index into a list that was just filtered
def _filtered_list(e):
    if isinstance(e, ast.ListComp) and any(g.ifs for g in e.generators):
        return True
    if isinstance(e, ast.Call) and isinstance(e.func, ast.Name) and e.func.id in ('list', 'tuple', 'sorted') and len(e.args) == 1:
        a = e.args[0]
        if isinstance(a, ast.GeneratorExp) and any(g.ifs for g in a.generators):
            return True
        if isinstance(a, ast.Call) and isinstance(a.func, ast.Name) and a.func.id == 'filter':
            return True
    return False


def idx1_sites(fn_node):
    from ..facts import facts_at
    from ..model import reaching_values
    out = []
    for n in walk_own(fn_node):
        if not (isinstance(n, ast.Subscript) and isinstance(n.ctx, ast.Load)):
            continue
        ix = n.slice
        if not (isinstance(ix, ast.Constant) and isinstance(ix.value, int)
                or isinstance(ix, ast.UnaryOp) and isinstance(ix.operand, ast.Constant) and isinstance(ix.operand.value, int)):
            continue
        v = n.value
        src = None
        if _filtered_list(v):
            src = v
        elif isinstance(v, ast.Name):
            vals = reaching_values(fn_node, v)
            if vals and all(_filtered_list(x) for x in vals):
                # an emptiness test of the name on the way?
                texts = [t for t, pos in facts_at(n, fn_node) if pos]
                if not any(t == v.id or t.startswith('len(%s)' % v.id) for t in texts):
                    src = vals[0]
        if src is None:
            continue
        # inside a try that absorbs IndexError?
        child, p = n, getattr(n, '_parent', None)
        covered = False
        while p is not None and p is not fn_node:
            if isinstance(p, ast.Try) and any(child is b or any(child is s for s in ast.walk(b)) for b in p.body):
                for h in p.handlers:
                    t = norm(h.type) if h.type is not None else 'BaseException'
                    if any(x in t for x in ('IndexError', 'LookupError', 'Exception')):
                        covered = True
            child, p = p, getattr(p, '_parent', None)
        if not covered:
            out.append((n, src))
    return out


def idx_1(ctx, rep, modules):
    rep.rule('IDX-1', 'no constant index ([0], [-1] ...) into a list that was just built with a filter ([x for x in xs if c], '
                      'list(filter(...))) unless its emptiness was tested or IndexError is handled: a filter can leave nothing, '
                      'and the IndexError escapes the listing')
    probe = ast.parse("def f(children, spacing):\n    equals = [c for c in children if c.type == 'operator' and c.end_pos <= spacing.start_pos][-1]\n    return equals\n").body[0]
    for parent in ast.walk(probe):
        for child in ast.iter_child_nodes(parent):
            child._parent = parent
    if len(idx1_sites(probe)) != 1:
        raise AnalysisError('IDX-1: the matcher does not report its built-in example')
    n_funcs = 0
    for rel in modules:
        mod = ctx.prog.mod(rel)
        for f in sorted(mod.funcs.values(), key=lambda f: f.qual):
            n_funcs += 1
            for n, src in idx1_sites(f.node):
                rep.ob('IDX-1', rel, f.qual, norm(n), False,
                       'the list %s can be empty (nothing passes the filter): the constant index raises IndexError, which nothing '
                       'on the way to the caller of the listing handles' % norm(src), witness=norm(n))
    rep.ob('IDX-1', 'parso', '<%d functions>' % n_funcs, 'no constant index into a freshly filtered list', True)


# ---------------------------------------------------------------------------------------------------------------
# LOOP-1  a value computed for one element of a loop is not used for the next element
def _loop1_hits(fn_node, cfg):
    """[(variable, defining statement, [using CFG nodes])] - see loop_1."""
    from ..model import walk_own as _wo

    def stores(a):
        out = set()
        if isinstance(a, ast.Assign):
            for t in a.targets:
                out |= {x.id for x in ast.walk(t) if isinstance(x, ast.Name)}
        elif isinstance(a, (ast.AugAssign, ast.AnnAssign)):
            out |= {x.id for x in ast.walk(a.target) if isinstance(x, ast.Name)}
        elif isinstance(a, (ast.Name, ast.Tuple, ast.List)):
            out |= {x.id for x in ast.walk(a) if isinstance(x, ast.Name) and isinstance(x.ctx, ast.Store)}
        return out

    def loads(a):
        if a is None:
            return set()
        src = a.value if isinstance(a, (ast.Assign, ast.AnnAssign, ast.AugAssign)) and a.value is not None else a
        s = {x.id for x in ast.walk(src) if isinstance(x, ast.Name) and isinstance(x.ctx, ast.Load)}
        if isinstance(a, ast.AugAssign):
            s |= {x.id for x in ast.walk(a.target) if isinstance(x, ast.Name)}
        return s
    hits = []
    for st in [n for n in _wo(fn_node) if isinstance(n, ast.For)]:
        n1 = [n for n in cfg.nodes if n.kind == 'next' and n.stmt is st]
        if not n1:
            continue
        n1 = n1[0]
        inside = {id(x) for b in st.body for x in ast.walk(b)}

        def in_loop(n):
            return (n.ast is not None and id(n.ast) in inside) or (n.stmt is not None and id(n.stmt) in inside)
        body_nodes = [n for n in cfg.nodes if in_loop(n)]
        target = {x.id for x in ast.walk(st.target) if isinstance(x, ast.Name)}
        derived = set(target)
        for _ in range(4):
            for n in body_nodes:
                if isinstance(n.ast, ast.Assign) and loads(n.ast) & derived:
                    derived |= stores(n.ast)

        def bfs(start, is_goal, stop):
            seen, todo, found = {start}, [start], []
            while todo:
                x = todo.pop()
                for y, lab in x.succ:
                    if lab == 'exc' or y in seen:
                        continue
                    seen.add(y)
                    if is_goal(y):
                        found.append(y)
                    if not stop(y):
                        todo.append(y)
            return found
        for d in body_nodes:
            if not isinstance(d.ast, ast.Assign):
                continue
            for v in sorted(stores(d.ast)):
                if v in target or not (loads(d.ast) & derived) or v in loads(d.ast):
                    continue
                inits = [a for a in _wo(fn_node) if isinstance(a, ast.Assign) and id(a) not in inside
                         and any(isinstance(t, ast.Name) and t.id == v for t in a.targets)]
                if not inits or not all(isinstance(a.value, ast.Constant) for a in inits):
                    continue
                kills = lambda y, v=v: v in stores(y.ast)
                head_of_loop = lambda y: y.kind in ('next', 'next0') and y.stmt is st
                if not bfs(d, lambda y: y is n1, lambda y: kills(y) or head_of_loop(y)):
                    continue            # re-assigned before the iteration ends
                uses = bfs(n1, lambda y: in_loop(y) and y.kind != 'next' and v in loads(y.ast), lambda y: kills(y) or head_of_loop(y))
                uses = [u for u in uses if not (u.kind == 'test' and any(x is d.ast for x in ast.walk(u.stmt)))]
                same = bfs(d, lambda y: y in uses, lambda y: kills(y) or head_of_loop(y))
                uses = [u for u in uses if u in same]
                if uses:
                    hits.append((v, d.ast, uses))
    return hits


_LOOP1_EXAMPLE = '''
def names(items):
    alias = None
    for item in items:
        if item.type == 'as_name':
            item, _, alias = item.children
        yield item, alias
'''


def loop_1(ctx, rep, rels):
    rep.rule('LOOP-1', 'a local that is given a value computed from the current element in one arm of a branch inside a '
                       '`for`, has a constant default from before the loop, and is used behind the branch, is given a value on '
                       'the other arm too: otherwise the element that does not take the arm is processed with the value '
                       'of an earlier element (the use is reached by the same assignment within and across iterations)')
    from ..cfg import CFG
    ex = ast.parse(_LOOP1_EXAMPLE).body[0]
    if not _loop1_hits(ex, CFG(ex)):
        raise AnalysisError('LOOP-1: the matcher does not recognise its built-in example')
    n = 0
    for rel in rels:
        mod = ctx.prog.mod(rel)
        for f in mod.funcs.values():
            if not any(isinstance(x, ast.For) for x in walk_own(f.node)):
                continue
            n += 1
            hits = _loop1_hits(f.node, ctx.cfg(f))
            if not hits:
                rep.ob('LOOP-1', rel, f.qual, 'loops of %s' % f.name, True)
            for v, d, uses in hits:
                rep.ob('LOOP-1', rel, f.qual, '%s carried into the next iteration: %s' % (v, norm(d)), False,
                       'on the way round the loop that does not execute `%s`, `%s` still holds the value computed for an '
                       'earlier element when `%s` uses it' % (norm(d), v, norm(uses[0].ast)[:80]))
    rep.stat('loop1_functions_with_loops', n)
