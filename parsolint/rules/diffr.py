"""DIFF-2: the incremental parser decides the pending line end on the node that really is the last one copied.

``_NodesTree._copy_nodes`` collects the nodes it re-uses in a list and returns, next to it, the text that has to be
prepended to whatever follows (the rest of the last copied line when its line break lives in the *next* leaf's prefix -
an open bracket moves it there).  That text is a function of the last element of the list.  Every removal from the list
changes which element is last, so after each removal, on every way to a return that hands out a non-empty list, the
"does the last node end with a newline" question must be asked again of the then-last element.  The rule is a
must-pass-through on the CFG with the emptiness facts of the list; everything is found by role (the recursive copier is
the function returning a tuple led by a local list it pops from; the question is a call of the module's newline predicate
- or an inline ``.get_last_leaf().type == 'newline'`` - on ``L[-1]`` or on a local bound to ``L[-1]`` after the removal)."""
import ast

from ..model import AnalysisError, walk_own, head
from ..paths import FactFlow, path_text

DIFF = 'parso/python/diff.py'


def _newline_predicates(ctx):
    """Module-level functions of diff.py that answer whether a leaf ends its line."""
    out = set()
    for f in ctx.prog.funcs.values():
        if f.mod.rel != DIFF or f.cls is not None or f.outer is not None:
            continue
        compares = [n for n in walk_own(f.node) if isinstance(n, ast.Compare) and any(
            isinstance(c, ast.Constant) and c.value == 'newline' for c in [n.left] + n.comparators)]
        rets = [n for n in walk_own(f.node) if isinstance(n, ast.Return) and n.value is not None]
        # it answers a question about the leaf it is given: returns a comparison / boolean expression, takes the leaf first
        if compares and rets and len(f.params()) >= 1 and all(
                isinstance(r.value, (ast.Compare, ast.BoolOp, ast.UnaryOp, ast.Constant, ast.Call, ast.Name)) for r in rets) \
                and any(any(c is sub for sub in ast.walk(r.value)) for r in rets for c in compares):
            out.add(f.name)
    return out


def _copier(ctx):
    """(Func, list name): the function of diff.py that returns a tuple led by a local list it also pops from and that
    calls itself."""
    found = []
    for f in ctx.prog.funcs.values():
        if f.mod.rel != DIFF:
            continue
        lists = set()
        for n in walk_own(f.node):
            if isinstance(n, ast.Return) and isinstance(n.value, ast.Tuple) and n.value.elts and isinstance(n.value.elts[0], ast.Name):
                lists.add(n.value.elts[0].id)
        if not lists:
            continue
        v = ctx.view(f, keep=(f.name,))          # removals / the recursion may sit in private helpers
        for L in lists:
            pops = [n for n in walk_own(v.node) if _is_removal(n, L)]
            rec = any(isinstance(n, ast.Call) and isinstance(n.func, ast.Attribute) and n.func.attr == f.name for n in walk_own(v.node))
            if pops and rec:
                found.append((f, L))
    return found


def _is_removal(n, L):
    if isinstance(n, ast.Call) and isinstance(n.func, ast.Attribute) and n.func.attr in ('pop', 'remove', 'clear') \
            and isinstance(n.func.value, ast.Name) and n.func.value.id == L:
        return True
    if isinstance(n, ast.Delete):
        return any(isinstance(t, ast.Subscript) and isinstance(t.value, ast.Name) and t.value.id == L for t in n.targets)
    if isinstance(n, ast.Assign) and len(n.targets) == 1 and isinstance(n.targets[0], ast.Name) and n.targets[0].id == L \
            and isinstance(n.value, ast.Subscript) and isinstance(n.value.value, ast.Name) and n.value.value.id == L:
        return True         # L = L[:-1]
    return False


def _is_last(e, L, fresh):
    if isinstance(e, ast.Subscript) and isinstance(e.value, ast.Name) and e.value.id == L:
        s = e.slice
        return isinstance(s, ast.UnaryOp) and isinstance(s.op, ast.USub) and isinstance(s.operand, ast.Constant) and s.operand.value == 1
    return isinstance(e, ast.Name) and e.id in fresh


def _asks_newline(expr, L, fresh, preds):
    """Does evaluating ``expr`` ask whether the last leaf of the last list element ends the line?"""
    for n in ast.walk(expr):
        leaf = None
        if isinstance(n, ast.Call) and isinstance(n.func, ast.Name) and n.func.id in preds and n.args:
            leaf = n.args[0]
        elif isinstance(n, ast.Compare) and isinstance(n.left, ast.Attribute) and n.left.attr == 'type' \
                and any(isinstance(c, ast.Constant) and c.value == 'newline' for c in n.comparators):
            leaf = n.left.value
        if leaf is None:
            continue
        if isinstance(leaf, ast.Call) and isinstance(leaf.func, ast.Attribute) and leaf.func.attr == 'get_last_leaf' \
                and _is_last(leaf.func.value, L, fresh):
            return True
    return False


def diff_2(ctx, rep):
    rep.rule('DIFF-2', 'after every removal from the list of copied nodes, every way to a return that hands out a non-empty '
                       'list asks of the then-last element whether it ends with a newline (the pending prefix returned '
                       'with the list is a function of the last copied node)')
    preds = _newline_predicates(ctx)
    cops = _copier(ctx)
    if not cops:
        raise AnalysisError('anchor vanished: the recursive node copier of parso/python/diff.py')
    if not preds:
        raise AnalysisError('anchor vanished: the ends-with-newline predicate of parso/python/diff.py')
    n_sites = 0
    for f, L in cops:
        f = ctx.view(f, keep=(f.name,))        # removals moved into a helper that gets the list are read in place
        cfg = ctx.cfg(f)
        flow = FactFlow(cfg)
        flow.fact_vars.add(L)
        removal_nodes = []
        for node in cfg.nodes:
            if node.ast is None or node.kind not in ('stmt', 'test'):
                continue
            if any(_is_removal(n, L) for n in ast.walk(node.ast)):
                removal_nodes.append(node)
        for rn in removal_nodes:
            n_sites += 1
            bad = _search(cfg, flow, rn, L, preds)
            rep.ob('DIFF-2', DIFF, f.qual, 'removal `%s` from the copied-node list %s %s' % (head(rn.stmt), L, _where(rn.stmt)), bad is None,
                   'after this removal a return hands out the (non-empty) list without the newline question having been asked '
                   'of its new last element: the line end of that node, when it sits in the following prefix, is dropped. '
                   'Path: %s' % ' -> '.join(path_text(bad)) if bad else '',
                   witness=path_text(bad) if bad else None)
    rep.stat('diff2_removal_sites', n_sites)
    rep.minimum('DIFF-2', 2, 'removals from the copied-node list')


def _facts_on_arrival(cfg, flow, target):
    """Facts that hold on every feasible way from the entry to ``target`` (intersection over the explored states)."""
    seen = set()
    todo = [(cfg.entry, frozenset())]
    at = None
    while todo:
        state = todo.pop()
        if state in seen:
            continue
        seen.add(state)
        node, facts = state
        if node is target:
            at = facts if at is None else (at & facts)
        for s, lab, f2 in flow.successors(node, facts):
            todo.append((s, f2))
    return at or frozenset()


def _where(stmt):
    """The innermost enclosing condition, to tell the removal sites apart."""
    n = getattr(stmt, '_parent', None)
    while n is not None and not isinstance(n, (ast.If, ast.While, ast.For, ast.FunctionDef)):
        n = getattr(n, '_parent', None)
    if isinstance(n, (ast.If, ast.While)):
        return '(under `%s`)' % ' '.join(ast.unparse(n.test).split())[:70]
    if isinstance(n, ast.For):
        return '(in the loop over %s)' % ast.unparse(n.iter)[:50]
    return '(at function level)'


def _search(cfg, flow, start, L, preds):
    def kill_list(facts):
        return frozenset(x for x in facts if x[0].split('#')[0] != L)
    init = (start, _facts_on_arrival(cfg, flow, start), frozenset(), True)
    todo = [init]
    prev = {init: None}
    seen = set()
    while todo:
        state = todo.pop(0)
        if state in seen:
            continue
        seen.add(state)
        node, facts, fresh, first = state
        a = node.ast
        if not first:
            if a is not None and node.kind in ('stmt', 'test') and any(_is_removal(n, L) for n in ast.walk(a)):
                continue            # a later removal is its own obligation
            if node.kind == 'test' and _asks_newline(a, L, fresh, preds):
                continue
            if a is not None and node.kind == 'stmt' and any(
                    isinstance(n, ast.Call) and isinstance(n.func, ast.Attribute) and n.func.attr == cfg.fn.name
                    and isinstance(n.func.value, ast.Name) and n.func.value.id == 'self' for n in ast.walk(a)):
                continue            # the suite of the last node is copied by the recursive call, which answers for its own last node
            if node.kind == 'stmt' and isinstance(a, ast.Return):
                v = a.value
                hands_out = isinstance(v, ast.Tuple) and v.elts and isinstance(v.elts[0], ast.Name) and v.elts[0].id == L
                if hands_out and (L, False) not in facts:
                    path = []
                    k = state
                    while k is not None:
                        path.append(k[0])
                        k = prev[k]
                    return list(reversed(path))
                continue
        if first:
            facts = kill_list(facts)
            fresh = frozenset()
        elif node.kind == 'stmt' and isinstance(a, ast.Assign) and len(a.targets) == 1 and isinstance(a.targets[0], ast.Name):
            t = a.targets[0].id
            fresh = (fresh | {t}) if _is_last(a.value, L, frozenset()) else (fresh - {t})
        elif node.kind in ('next0', 'next', 'with', 'handler'):
            fresh = frozenset()
        for s, lab, f2 in flow.successors(node, facts):
            if first:
                f2 = kill_list(f2)
            nxt = (s, f2, fresh, False)
            if nxt not in seen and nxt not in prev:
                prev[nxt] = state
                todo.append(nxt)
    return None
