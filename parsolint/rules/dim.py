"""DIM-1: a child position is never computed from a number of characters.

A two-point dimension analysis.  Integers in the tree code are either *positions in a child list* (constants,
``children.index(x)``, enumerate counters, ``len(children)``) or *amounts of text* (``len(leaf.value)``, ``len(prefix)``,
columns, sums of those).  The tokenizer makes leaves of more than one character (``...``, ``->``, ``:=``, names), so the two
never agree in general; an expression of dimension CHARS used as an index into a child list picks a child by accident.
Function and property results are summarised (a local accumulated with ``+= len(n.value)`` and returned makes the
function CHARS), so the flow through ``self.level`` is seen.  Only a *definite* CHARS index is reported; what the analysis
cannot classify is left alone."""
import ast

from ..model import AnalysisError, walk_own, Func

POS, CHARS, UNK = 'POS', 'CHARS', 'UNK'
TEXT_ATTRS = {'value', 'prefix', 'string', 'source', 'code', 'text', 'line'}
TEXT_CALLS = {'get_code', 'get_first_leaf_prefix'}
COLUMN_ATTRS = {'column'}
MODULES = ('parso/python/tree.py', 'parso/tree.py', 'parso/python/errors.py', 'parso/python/pep8.py',
           'parso/python/diff.py', 'parso/python/parser.py', 'parso/normalizer.py')


def _join(a, b):
    if CHARS in (a, b):
        return CHARS
    if a == b:
        return a
    return UNK


_LISTS = {}


def _child_list_names(fn_node):
    """Locals that hold a child list: assigned from x.children, a slice / copy / extension of one, or another such local;
    parameters are recognised by name."""
    if fn_node in _LISTS:
        return _LISTS[fn_node]
    names = set()
    a = fn_node.args
    for p in a.posonlyargs + a.args + a.kwonlyargs:
        if p.arg.endswith('children'):
            names.add(p.arg)

    def is_list(v):
        v = _strip_slice(v)
        if isinstance(v, ast.Attribute) and v.attr == 'children':
            return True
        if isinstance(v, ast.Name) and v.id in names:
            return True
        if isinstance(v, ast.Call) and isinstance(v.func, ast.Name) and v.func.id in ('list', 'tuple') and len(v.args) == 1:
            return is_list(v.args[0])
        if isinstance(v, ast.BinOp) and isinstance(v.op, ast.Add):
            return is_list(v.left)
        return False
    for _ in range(3):
        for n in walk_own(fn_node):
            if isinstance(n, ast.Assign) and len(n.targets) == 1 and isinstance(n.targets[0], ast.Name) and is_list(n.value):
                names.add(n.targets[0].id)
            elif isinstance(n, ast.AnnAssign) and isinstance(n.target, ast.Name) and n.value is not None and is_list(n.value):
                names.add(n.target.id)
    _LISTS[fn_node] = names
    return names


def _enclosing_fn(e):
    n = e
    while n is not None and not isinstance(n, (ast.FunctionDef, ast.AsyncFunctionDef)):
        n = getattr(n, '_parent', None)
    return n


def _is_children(e):
    if isinstance(e, ast.Attribute) and e.attr == 'children':
        return True
    if isinstance(e, ast.Name):
        fn = _enclosing_fn(e)
        return fn is not None and e.id in _child_list_names(fn)
    if isinstance(e, ast.BinOp) and isinstance(e.op, ast.Add):
        return _is_children(_strip_slice(e.left))
    return False


class Dim:
    def __init__(self, ctx):
        self.ctx = ctx
        self.summary = {}
        self.busy = set()

    def of_func(self, f):
        if f.key in self.summary:
            return self.summary[f.key]
        if f.key in self.busy:
            return UNK
        self.busy.add(f.key)
        d = None
        env = self.local_env(f)
        for n in walk_own(f.node):
            if isinstance(n, ast.Return) and n.value is not None:
                v = self.of(n.value, f, env)
                d = v if d is None else _join(d, v)
        self.busy.discard(f.key)
        self.summary[f.key] = d or UNK
        return self.summary[f.key]

    def local_env(self, f):
        """name -> dimension, the join over every value assigned to the local (two rounds for accumulators)."""
        env = {}
        for _ in range(2):
            new = {}
            for n in walk_own(f.node):
                pairs = []
                if isinstance(n, ast.Assign) and len(n.targets) == 1 and isinstance(n.targets[0], ast.Name):
                    pairs.append((n.targets[0].id, self.of(n.value, f, env)))
                elif isinstance(n, ast.AnnAssign) and isinstance(n.target, ast.Name) and n.value is not None:
                    pairs.append((n.target.id, self.of(n.value, f, env)))
                elif isinstance(n, ast.AugAssign) and isinstance(n.target, ast.Name):
                    pairs.append((n.target.id, self.of(n.value, f, env)))
                elif isinstance(n, (ast.For, ast.comprehension)):
                    it, tg = n.iter, n.target
                    if isinstance(it, ast.Call) and isinstance(it.func, ast.Name) and it.func.id == 'enumerate' \
                            and isinstance(tg, ast.Tuple) and tg.elts and isinstance(tg.elts[0], ast.Name):
                        pairs.append((tg.elts[0].id, POS if it.args and _is_children(_strip_slice(it.args[0])) else UNK))
                    elif isinstance(it, ast.Call) and isinstance(it.func, ast.Name) and it.func.id == 'range' and isinstance(tg, ast.Name):
                        d = None
                        for a in it.args:
                            v = self.of(a, f, env)
                            d = v if d is None else _join(d, v)
                        pairs.append((tg.id, d or UNK))
                    elif isinstance(tg, ast.Name):
                        pairs.append((tg.id, UNK))
                for k, v in pairs:
                    new[k] = v if k not in new else _join(new[k], v)
            env = new
        return env

    def of(self, e, f, env):
        if isinstance(e, ast.Constant):
            return POS if isinstance(e.value, (int, bool)) else UNK
        if isinstance(e, ast.Name):
            return env.get(e.id, UNK)
        if isinstance(e, ast.UnaryOp):
            return self.of(e.operand, f, env)
        if isinstance(e, ast.BinOp):
            l, r = self.of(e.left, f, env), self.of(e.right, f, env)
            if isinstance(e.op, (ast.Add, ast.Sub)):
                return _join(l, r) if CHARS in (l, r) or (l == r) else UNK
            return UNK
        if isinstance(e, ast.IfExp):
            return _join(self.of(e.body, f, env), self.of(e.orelse, f, env))
        if isinstance(e, ast.Call):
            fn = e.func
            if isinstance(fn, ast.Name) and fn.id == 'len' and len(e.args) == 1:
                a = e.args[0]
                if _is_children(_strip_slice(a)):
                    return POS
                if self.is_text(a, f, env):
                    return CHARS
                return UNK
            if isinstance(fn, ast.Name) and fn.id in ('int', 'abs', 'max', 'min') and e.args:
                d = None
                for a in e.args:
                    v = self.of(a, f, env)
                    d = v if d is None else _join(d, v)
                return d
            if isinstance(fn, ast.Name) and fn.id == 'sum' and e.args:
                a = e.args[0]
                if isinstance(a, (ast.GeneratorExp, ast.ListComp)):
                    return self.of(a.elt, f, env)
                return UNK
            if isinstance(fn, ast.Attribute) and fn.attr == 'index' and _is_children(fn.value):
                return POS
            if isinstance(fn, ast.Attribute) and fn.attr in ('find', 'rfind', 'index', 'rindex', 'count') and self.is_text(fn.value, f, env):
                return CHARS
            target = self.resolve_call(e, f)
            if target is not None:
                return self.of_func(target)
            return UNK
        if isinstance(e, ast.Attribute):
            if e.attr in COLUMN_ATTRS:
                return CHARS
            if isinstance(e.value, ast.Name) and e.value.id == 'self' and f.cls is not None:
                owner, member = f.cls.lookup_attr(e.attr)
                if isinstance(member, Func) and any('property' in d for d in member.decorators()):
                    return self.of_func(member)
            return UNK
        if isinstance(e, ast.Subscript):
            # start_pos[1] / end_pos[1]: a column
            if isinstance(e.value, ast.Attribute) and e.value.attr in ('start_pos', 'end_pos') \
                    and isinstance(e.slice, ast.Constant) and e.slice.value == 1:
                return CHARS
            return UNK
        return UNK

    def is_text(self, a, f, env):
        if isinstance(a, ast.Attribute) and a.attr in TEXT_ATTRS:
            return True
        if isinstance(a, ast.Call) and isinstance(a.func, ast.Attribute) and a.func.attr in TEXT_CALLS:
            return True
        if isinstance(a, ast.Constant) and isinstance(a.value, str):
            return True
        if isinstance(a, ast.Name) and a.id in TEXT_ATTRS:
            return True
        return False

    def resolve_call(self, e, f):
        fn = e.func
        if isinstance(fn, ast.Attribute) and isinstance(fn.value, ast.Name) and fn.value.id == 'self' and f.cls is not None:
            m = f.cls.lookup(fn.attr)
            return m
        if isinstance(fn, ast.Name):
            t = self.ctx.prog.resolve_global(f.mod, fn.id)
            if isinstance(t, Func):
                return t
        return None


def _strip_slice(e):
    while isinstance(e, ast.Subscript) and isinstance(e.slice, ast.Slice):
        e = e.value
    return e


def dim_1(ctx, rep, modules=MODULES, minimum=8):
    rep.rule('DIM-1', 'an index into a child list is a position, never an amount of text: no subscript x.children[i] has an '
                      'index computed from len(<leaf text>), a column, or a function/property that returns such a count '
                      '(leaves such as ... or := are longer than one character, so the two differ)')
    dim = Dim(ctx)
    n = 0
    n_chars_funcs = 0
    for f in list(ctx.prog.funcs.values()):
        if f.mod.rel not in modules:
            continue
        env = None
        for node in walk_own(f.node):
            if not (isinstance(node, ast.Subscript) and _is_children(node.value)):
                continue
            idxs = []
            sl = node.slice
            if isinstance(sl, ast.Slice):
                idxs = [x for x in (sl.lower, sl.upper) if x is not None]
            else:
                idxs = [sl]
            for ix in idxs:
                if isinstance(ix, ast.Constant) or (isinstance(ix, ast.UnaryOp) and isinstance(ix.operand, ast.Constant)):
                    continue
                if env is None:
                    env = dim.local_env(f)
                d = dim.of(ix, f, env)
                n += 1
                rep.ob('DIM-1', f.mod.rel, f.qual, 'index %s into %s' % (ast.unparse(ix), ast.unparse(node.value)), d != CHARS,
                       'the index counts characters (it is built from the length of leaf text / a column), the list holds one '
                       'entry per child: the two differ as soon as a child is longer than one character' if d == CHARS else '',
                       witness=ast.unparse(node))
    n_chars_funcs = sum(1 for v in dim.summary.values() if v == CHARS)
    rep.stat('dim1_computed_indexes', n)
    rep.stat('dim1_functions_returning_text_amounts', n_chars_funcs)
    rep.minimum('DIM-1', minimum, 'computed child indexes')


# ---------------------------------------------------------------------------------------------------------------------
# POS-1  an offset is never recovered by searching for the text
STR_ONLY_METHODS = {'isidentifier', 'startswith', 'endswith', 'lower', 'upper', 'strip', 'lstrip', 'rstrip', 'encode', 'isdigit',
                    'isalpha', 'isalnum', 'isspace', 'splitlines', 'expandtabs', 'casefold', 'isascii', 'isnumeric', 'join'}


def _is_text_value(f, name):
    """Is the local / parameter ``name`` a string?  Evidence inside the function: a str-only method is called on it or on
    what iterating over it gives, it is concatenated with a string literal, or sliced and compared with one."""
    elems = set()
    for n in walk_own(f.node):
        if isinstance(n, (ast.For, ast.comprehension)) and isinstance(n.iter, ast.Name) and n.iter.id == name:
            for t in ast.walk(n.target):
                if isinstance(t, ast.Name):
                    elems.add(t.id)
        if isinstance(n, (ast.For, ast.comprehension)) and isinstance(n.iter, ast.Call) and isinstance(n.iter.func, ast.Name) \
                and n.iter.func.id == 'enumerate' and n.iter.args and isinstance(n.iter.args[0], ast.Name) and n.iter.args[0].id == name \
                and isinstance(n.target, ast.Tuple) and len(n.target.elts) == 2 and isinstance(n.target.elts[1], ast.Name):
            elems.add(n.target.elts[1].id)
    for n in walk_own(f.node):
        if isinstance(n, ast.Call) and isinstance(n.func, ast.Attribute) and n.func.attr in STR_ONLY_METHODS \
                and isinstance(n.func.value, ast.Name) and (n.func.value.id == name or n.func.value.id in elems):
            return True
        if isinstance(n, ast.BinOp) and isinstance(n.op, ast.Add):
            for a, b in ((n.left, n.right), (n.right, n.left)):
                if isinstance(a, ast.Name) and a.id == name and isinstance(b, (ast.Constant, ast.JoinedStr)) \
                        and isinstance(getattr(b, 'value', ''), str):
                    return True
    return False


def pos1_sites(f):
    """calls  <text>.index(<variable>) / .find / .rfind / .rindex  in a function"""
    out = []
    for n in walk_own(f.node):
        if isinstance(n, ast.Call) and isinstance(n.func, ast.Attribute) and n.func.attr in ('index', 'find', 'rindex', 'rfind') \
                and n.args and not isinstance(n.args[0], ast.Constant):
            recv = n.func.value
            texty = False
            if isinstance(recv, ast.Attribute) and recv.attr in TEXT_ATTRS:
                texty = True
            elif isinstance(recv, ast.Name):
                g = f
                while g is not None and not texty:          # a closure reads the variable of the enclosing function
                    texty = recv.id in TEXT_ATTRS or _is_text_value(g, recv.id)
                    g = getattr(g, 'outer', None)
            if texty:
                out.append(n)
    return out


def pos_1(ctx, rep, modules=('parso/python/tokenize.py', 'parso/python/prefix.py', 'parso/tree.py', 'parso/python/tree.py',
                             'parso/python/diff.py', 'parso/utils.py')):
    rep.rule('POS-1', 'where positions are computed, the offset of a piece of text is never recovered by searching for that text '
                      '(text.index(part) / find): the search returns the first occurrence, which is another place as soon as the '
                      'piece occurs twice')
    import types
    probe_src = "def f(token, start):\n    for ch in token:\n        if ch.isidentifier():\n            found = ch\n    return start + token.index(found)\n"
    probe = ast.parse(probe_src).body[0]
    for parent in ast.walk(probe):
        for child in ast.iter_child_nodes(parent):
            child._parent = parent
    if len(pos1_sites(types.SimpleNamespace(node=probe))) != 1:
        raise AnalysisError('POS-1: the matcher does not report its built-in example')
    n_funcs = 0
    for rel in modules:
        mod = ctx.prog.mod(rel)
        for f in sorted(mod.funcs.values(), key=lambda f: f.qual):
            n_funcs += 1
            for call in pos1_sites(f):
                rep.ob('POS-1', rel, f.qual, ast.unparse(call), False,
                       'the offset of %s inside the text is looked up by value: when the same piece occurs earlier in the text, '
                       'the earlier offset is returned and the position derived from it is wrong' % ast.unparse(call.args[0]),
                       witness=ast.unparse(call))
    rep.ob('POS-1', 'parso', '<position-computing modules>', 'no offset obtained by searching for variable text (%d functions)' % n_funcs, True)
    rep.stat('pos1_functions', n_funcs)
