"""GR-10 - constant child indexes are valid in every short sentence of the receiver's rule that is
consistent with the guards on the same receiver (engine E4 tree-shape model)."""
import ast

from ..model import AnalysisError, norm, head, walk_own, Cls, Func, qual_of
from . import tc
from .gr import class_type, node_map, shape_appearance, PYTREE

SKIP_TYPES = {
    'file_input': 'the module node can have a single child (end marker only)',
    'param': 'synthetic node grouped by _create_params, not a grammar rule',
    'lambdef': 'children are regrouped into Param nodes',
    'lambdef_nocond': 'children are regrouped into Param nodes',
    'error_node': 'no rule shape',
}


def _const_index(sl):
    if isinstance(sl, ast.Constant) and isinstance(sl.value, int) and not isinstance(sl.value, bool):
        return sl.value
    if isinstance(sl, ast.UnaryOp) and isinstance(sl.op, ast.USub) and isinstance(sl.operand, ast.Constant) \
            and isinstance(sl.operand.value, int):
        return -sl.operand.value
    return None


def node_words(g, t, maxlen):
    """Child sequences (tuples of grammar symbols) a node of type t can have, up to maxlen children,
    after the tree conventions.  Only sequences that really form a node (>= 2 children) are returned."""
    d = g.dfas[t]
    words = d.words(maxlen + (2 if t == 'suite' else 0) + (1 if t == 'simple_stmt' else 0))
    out = set()
    for w in words:
        if t == 'suite' and len(w) >= 4 and w[1] == 'INDENT' and w[-1] == 'DEDENT':
            w = (w[0],) + w[2:-1]
        if len(w) >= 2:
            out.add(w)
        if t == 'simple_stmt' and len(w) >= 3 and w[-1] == 'NEWLINE':
            out.add(w[:-1])          # end of file without final newline (recovery shortcut)
    return {w for w in out if len(w) <= maxlen}


def symbol_can_be(g, sym, what):
    """Can grammar symbol ``sym`` appear in the tree as something of type / literal ``what``?"""
    app = shape_appearance(g)
    kinds = set()
    for s in (app[sym] if sym in g.nts else {sym}):
        if s in g.nts:
            kinds.add(('type', s))
        elif s.startswith("'"):
            lit = ast.literal_eval(s)
            kinds.add(('lit', lit))
            kinds.add(('type', 'keyword' if lit[:1].isalpha() or lit[:1] == '_' else 'operator'))
        else:
            kinds.add(('type', {'NAME': 'name', 'NUMBER': 'number', 'STRING': 'string', 'NEWLINE': 'newline',
                                'ENDMARKER': 'endmarker', 'FSTRING_STRING': 'fstring_string',
                                'FSTRING_START': 'fstring_start', 'FSTRING_END': 'fstring_end'}.get(s, s)))
    return what in kinds


class Guards:
    """What the enclosing conditions say about X.children (X = receiver text)."""

    def __init__(self, ctx, f, recv, site):
        self.ctx, self.f, self.recv = ctx, f, recv
        self.len_ok = []       # predicates on the length
        self.pos = []          # (index, ('lit'|'type', value), must_hold)
        self.unknown = []      # guards on recv.children we do not understand
        self.index_error_caught = False
        self.aliases = {}      # local name -> index into recv.children
        counts = {}
        for n in walk_own(f.node):
            if isinstance(n, ast.Assign):
                for t in n.targets:
                    for x in ast.walk(t):
                        if isinstance(x, ast.Name):
                            counts[x.id] = counts.get(x.id, 0) + 1
        for n in walk_own(f.node):
            if isinstance(n, ast.Assign) and len(n.targets) == 1 and isinstance(n.targets[0], ast.Name) \
                    and isinstance(n.value, ast.Subscript) and norm(n.value.value) == recv + '.children':
                i = _const_index(n.value.slice)
                name = n.targets[0].id
                if i is not None and counts.get(name) == 1 and name != recv.split('.')[0]:
                    self.aliases[name] = i
        nar = tc.Narrow(ctx, f, recv, None)
        for test, pos in nar.enclosing(site):
            self._add(test, pos)
        # earlier `if len(X.children) <op> k: return` statements in the same block sequence
        self._early_returns(site)
        child = site
        p = getattr(site, '_parent', None)
        while p is not None and p is not f.node:
            if isinstance(p, ast.Try) and child in p.body:
                for h in p.handlers:
                    t = norm(h.type) if h.type is not None else 'BaseException'
                    if 'IndexError' in t or t in ('LookupError', 'Exception', 'BaseException'):
                        self.index_error_caught = True
            child = p
            p = getattr(p, '_parent', None)

    def _early_returns(self, site):
        st = site
        while st is not None and not isinstance(st, ast.stmt):
            st = getattr(st, '_parent', None)
        while st is not None and st is not self.f.node:
            parent = getattr(st, '_parent', None)
            for field in ('body', 'orelse'):
                b = getattr(parent, field, None)
                if isinstance(b, list) and st in b:
                    for prev in b[:b.index(st)]:
                        if isinstance(prev, ast.If) and prev.body and isinstance(prev.body[-1], (ast.Return, ast.Raise, ast.Continue, ast.Break)) \
                                and not prev.orelse:
                            self._add(prev.test, False)
                        if isinstance(prev, ast.Assert):
                            self._add(prev.test, True)
            st = parent

    def _index_of(self, e):
        """index when e is recv.children[i] or an alias of it."""
        if isinstance(e, ast.Subscript) and norm(e.value) == self.recv + '.children':
            return _const_index(e.slice)
        if isinstance(e, ast.Name) and e.id in self.aliases:
            return self.aliases[e.id]
        if isinstance(e, ast.Name) and e.id != self.recv.split('.')[0]:
            # a local assigned more than once: what reaches *this* use
            from ..model import reaching_values
            vals = reaching_values(self.f.node, e)
            if len(vals) == 1 and isinstance(vals[0], ast.Subscript) and norm(vals[0].value) == self.recv + '.children':
                return _const_index(vals[0].slice)
        return None

    def _add(self, test, positive):
        if isinstance(test, ast.BoolOp):
            if (isinstance(test.op, ast.And) and positive) or (isinstance(test.op, ast.Or) and not positive):
                for v in test.values:
                    self._add(v, positive)
            elif self.recv + '.children' in norm(test):
                self.unknown.append(norm(test))
            return
        if isinstance(test, ast.UnaryOp) and isinstance(test.op, ast.Not):
            return self._add(test.operand, not positive)
        if isinstance(test, ast.Compare) and len(test.ops) == 1:
            l, r, op = test.left, test.comparators[0], test.ops[0]
            if norm(l) == 'len(%s.children)' % self.recv and isinstance(r, ast.Constant) and isinstance(r.value, int):
                k = r.value
                fn = {ast.Eq: lambda n: n == k, ast.NotEq: lambda n: n != k, ast.Lt: lambda n: n < k,
                      ast.LtE: lambda n: n <= k, ast.Gt: lambda n: n > k, ast.GtE: lambda n: n >= k}.get(type(op))
                if fn:
                    self.len_ok.append(fn if positive else (lambda n, fn=fn: not fn(n)))
                    return
            i = self._index_of(l)
            vals = tc._const_strs(self.ctx, self.f.mod, r)
            if i is not None and vals is not None and isinstance(op, (ast.Eq, ast.NotEq, ast.In, ast.NotIn)):
                hold = positive == isinstance(op, (ast.Eq, ast.In))
                self.pos.append((i, [('lit', v) for v in vals], hold))
                return
            # X.children[i].type == 't'  /  alias.type == 't' / alias.value == 'v'
            if isinstance(l, ast.Attribute) and l.attr in ('type', 'value'):
                i = self._index_of(l.value)
                if i is not None and vals is not None and isinstance(op, (ast.Eq, ast.NotEq, ast.In, ast.NotIn)):
                    hold = positive == isinstance(op, (ast.Eq, ast.In))
                    kind = 'type' if l.attr == 'type' else 'lit'
                    self.pos.append((i, [(kind, v) for v in vals], hold))
                    return
        if self.recv + '.children' in norm(test):
            self.unknown.append(norm(test))

    def admits(self, g, word):
        n = len(word)
        if not all(fn(n) for fn in self.len_ok):
            return False
        for i, alts, hold in self.pos:
            j = i if i >= 0 else n + i
            if j < 0 or j >= n:
                return False         # the guard itself would have raised first
            can = any(symbol_can_be(g, word[j], a) for a in alts)
            if hold and not can:
                return False
            if not hold:
                # must NOT be any of alts: excluded only when the symbol can be nothing else
                app = shape_appearance(g)
                shapes = app[word[j]] if word[j] in g.nts else {word[j]}
                if len(shapes) == 1 and can:
                    return False
        return True


def receiver_types(ctx, f, recv_expr, site, depth=0):
    """Node types the receiver can have, or None when not evident."""
    prog = ctx.prog
    recv = norm(recv_expr)
    cls = ctx.cg.owner_class(f)
    nm = node_map(ctx)
    all_types = set()
    for g in ctx.grammars:
        shape_appearance(g)
        all_types |= g._node_rules
    if recv == ctx.cg.self_name(f) and cls is not None and f.outer is None:
        root_ok = any(isinstance(c, Cls) and c.name in ('NodeOrLeaf',) for c in cls.mro)
        if not root_ok:
            return None
        t = class_type(cls)
        if t and t[0] == 'const':
            return {t[1]}
        if t and t[0] == 'keyword_stmt':
            return {k for k, c in nm.items() if isinstance(c, Cls) and cls in c.mro and k in all_types}
        # abstract base: union over the subclasses with a static type
        out = set()
        for s in prog.subclasses(cls):
            st = class_type(s)
            if st and st[0] == 'const':
                out.add(st[1])
            elif st:
                out |= {k for k, c in nm.items() if c is s and k in all_types}
        return out or None
    model = _model(ctx)
    kinds = set(all_types) | set(tc.LEAF_KINDS)
    nar = tc.Narrow(ctx, f, recv, model)
    start = set(kinds)
    for test, pos in nar.enclosing(site):
        kinds = _narrow_types(nar, kinds, test, pos)
    # early returns on the type:  if X.type != 't': return
    g = Guards.__new__(Guards)
    if kinds != start:
        return {k for k in kinds if k in all_types} or None
    # rule registration context
    if cls is not None and isinstance(recv_expr, ast.Name):
        params = f.params()
        if len(params) > 1 and recv == params[1] and f.name in ('is_issue', 'get_node'):
            types, values = tc.registrations(ctx, cls)
            if types and not values:
                return {t for t in types if t in all_types} or None
    # parameter typed by the guards at every call site
    if isinstance(recv_expr, ast.Name) and recv in f.params() and depth < 2:
        idx = f.params().index(recv)
        sets = []
        for g2 in prog.funcs.values():
            for s in ctx.cg.sites[g2.key]:
                if f in s.targets:
                    off = 1 if (f.cls is not None and isinstance(s.node.func, ast.Attribute)) else 0
                    k = idx - off
                    if 0 <= k < len(s.node.args):
                        ts = receiver_types(ctx, g2, s.node.args[k], s.node, depth + 1)
                        if ts is None:
                            return None
                        sets.append(ts)
        if sets:
            return set.union(*sets)
    return None


_models = {}


def _model(ctx):
    if id(ctx) not in _models:
        _models[id(ctx)] = tc.TokenValueModel(ctx)
    return _models[id(ctx)]


def _narrow_types(nar, kinds, test, positive):
    if isinstance(test, ast.BoolOp):
        if (isinstance(test.op, ast.And) and positive) or (isinstance(test.op, ast.Or) and not positive):
            for v in test.values:
                kinds = _narrow_types(nar, kinds, v, positive)
            return kinds
        if isinstance(test.op, ast.Or) and positive:
            out = set()
            for v in test.values:
                out |= _narrow_types(nar, set(kinds), v, True)
            return out
        return kinds
    if isinstance(test, ast.UnaryOp) and isinstance(test.op, ast.Not):
        return _narrow_types(nar, kinds, test.operand, not positive)
    if isinstance(test, ast.Compare) and len(test.ops) == 1 and norm(test.left) in nar.aliases_type:
        vals = tc._const_strs(nar.ctx, nar.mod, test.comparators[0])
        op = test.ops[0]
        if vals is not None and isinstance(op, (ast.Eq, ast.In, ast.NotEq, ast.NotIn)):
            keep = positive == isinstance(op, (ast.Eq, ast.In))
            return {k for k in kinds if (k in vals) == keep}
    return kinds


def gr_10(ctx, rep, modules, min_abs=2):
    rep.rule('GR-10', 'every constant child index x.children[c] (|c| >= 2 counted from its end) on a receiver of evident '
                      'node type is valid in every sentence of that rule, in every grammar, that is consistent with the '
                      'guards on the same receiver')
    n_checked = 0
    for rel in modules:
        mod = ctx.prog.mod(rel)
        for f in mod.funcs.values():
            for n in walk_own(f.node):
                if not (isinstance(n, ast.Subscript) and isinstance(n.value, ast.Attribute) and n.value.attr == 'children'):
                    continue
                c = _const_index(n.slice)
                if c is None or c in (0, 1, -1, -2):
                    continue
                if isinstance(n.ctx, ast.Store):
                    continue
                recv_expr = n.value.value
                recv = norm(recv_expr)
                construct = norm(n)
                types = receiver_types(ctx, f, recv_expr, n)
                if not types:
                    rep.skip('GR-10', rel, f.qual, construct, 'node type of the receiver is not evident from the code')
                    continue
                guards = Guards(ctx, f, recv, n)
                if guards.index_error_caught:
                    rep.ob('GR-10', rel, f.qual, construct, True, reason='inside try/except IndexError')
                    n_checked += 1
                    continue
                if guards.unknown:
                    rep.skip('GR-10', rel, f.qual, construct, 'guard not understood: %s' % guards.unknown[0])
                    continue
                need = c + 1 if c >= 0 else -c
                bad = None
                for t in sorted(types):
                    if t in SKIP_TYPES:
                        continue
                    for g in ctx.grammars:
                        if t not in g.dfas:
                            continue
                        for w in sorted(node_words(g, t, need - 1 + 0)):
                            if len(w) < need and guards.admits(g, w):
                                bad = (t, g.name, w)
                                break
                        if bad:
                            break
                    if bad:
                        break
                n_checked += 1
                rep.ob('GR-10', rel, f.qual, '%s on %s' % (construct, '/'.join(sorted(types))), bad is None,
                       'a %s node can have the children %s (grammar %s): index %d does not exist'
                       % (bad[0], ' '.join(bad[2]), bad[1], c) if bad else '',
                       witness=' '.join(bad[2]) if bad else None)
    return n_checked


# ---------------------------------------------------------------------------
# GR-10b : a child taken by constant index is used as one particular kind of thing only if the grammars agree
# ---------------------------------------------------------------------------
def _symbols_at(ctx, types, c, guards, maxlen=7):
    """{symbol: (type, grammar)} that can stand at index c of a node of one of ``types``."""
    out = {}
    for t in sorted(types):
        if t in SKIP_TYPES:
            return None
        for g in ctx.grammars:
            if t not in g.dfas:
                continue
            need = (c + 1 if c >= 0 else -c)
            for w in node_words(g, t, max(maxlen, need + 2)):
                if len(w) < need or not guards.admits(g, w):
                    continue
                out.setdefault(w[c], (t, g.name, w))
    return out


def _is_tested(f, site, recv_text):
    """Is the value obtained at ``site`` (or a local it is assigned to) examined by a type / value / identity test,
    or only passed on / compared?  Used to accept positions whose symbol differs between sentences."""
    names = {recv_text}
    p = getattr(site, '_parent', None)
    if isinstance(p, ast.Assign) and len(p.targets) == 1 and isinstance(p.targets[0], ast.Name):
        names.add(p.targets[0].id)
    for n in walk_own(f.node):
        if isinstance(n, ast.Compare):
            for e in [n.left] + list(n.comparators):
                t = norm(e)
                for nm in names:
                    if t == nm or t in (nm + '.type', nm + '.value'):
                        return True
        if isinstance(n, ast.Call) and norm(n.func) == 'isinstance' and n.args and norm(n.args[0]) in names:
            return True
    return False


def _symbols_at_by_grammar(ctx, types, c, guards, maxlen=7):
    """{grammar name: set of symbols at index c} for nodes of one of ``types`` (None when not computable)."""
    out = {}
    for t in sorted(types):
        if t in SKIP_TYPES:
            return None
        for g in ctx.grammars:
            if t not in g.dfas:
                continue
            need = (c + 1 if c >= 0 else -c)
            for w in node_words(g, t, max(maxlen, need + 2)):
                if len(w) < need or not guards.admits(g, w):
                    continue
                out.setdefault(g.name, {})[w[c]] = w
                _ALL_WORDS.setdefault((id(out), g.name, w[c]), []).append(w)
    return out


_ALL_WORDS = {}


def _is_shift(per, g0, extra, base, c):
    """Does an extra symbol at index c *displace* what the other versions have there (one of the base symbols then
    follows it - or, for an index counted from the end, precedes it), or is it an alternative filling of the same slot?"""
    for sym in extra:
        for w in _ALL_WORDS.get((id(per), g0, sym), []):
            rest = w[c + 1:] if c >= 0 else w[:len(w) + c]
            if any(x in base for x in rest):
                return True
    return False


GR10B_EXCEPTIONS = {
    ('parso/python/tree.py', 'KeywordStatement.get_defined_names', 'self.children[1]'):
        "read only under keyword == 'del' (the keyword is children[0].value, a guard the analysis does not follow); the "
        "second child of del_stmt is exprlist in every version",
}


def gr_10b(ctx, rep, modules):
    rep.rule('GR-10b', 'a child taken by a constant index is the same kind of thing in every grammar version: where a '
                       'version puts another symbol at that index (an optional element added in front of it), the code '
                       'examines the child (type / value / identity test) before relying on it')
    n = 0
    for rel in modules:
        mod = ctx.prog.mod(rel)
        for f in mod.funcs.values():
            for sub in walk_own(f.node):
                if not (isinstance(sub, ast.Subscript) and isinstance(sub.value, ast.Attribute) and sub.value.attr == 'children'):
                    continue
                c = _const_index(sub.slice)
                if c is None or isinstance(sub.ctx, ast.Store):
                    continue
                recv_expr = sub.value.value
                types = receiver_types(ctx, f, recv_expr, sub)
                if not types:
                    continue
                guards = Guards(ctx, f, norm(recv_expr), sub)
                if guards.unknown:
                    continue
                per = _symbols_at_by_grammar(ctx, types, c, guards)
                if not per:
                    continue
                n += 1
                sets = {g: frozenset(v) for g, v in per.items()}
                if len(set(sets.values())) == 1:
                    rep.ob('GR-10b', rel, f.qual, '%s on %s: same symbols in all %d grammar versions'
                           % (norm(sub), '/'.join(sorted(types)), len(sets)), True)
                    continue
                if (rel, f.qual, norm(sub)) in GR10B_EXCEPTIONS:
                    rep.skip('GR-10b', rel, f.qual, norm(sub), GR10B_EXCEPTIONS[(rel, f.qual, norm(sub))])
                    continue
                tested = _is_tested(f, sub, norm(sub))
                base = min(sets.values(), key=len)
                odd = [(g, sorted(v - base), per[g][sorted(v - base)[0]]) for g, v in sorted(sets.items()) if v - base]
                shifted = [(g, extra, w) for g, extra, w in odd if _is_shift(per, g, extra, base, c)]
                if not shifted:
                    rep.ob('GR-10b', rel, f.qual, '%s on %s: %s only adds alternative fillings of the same slot (%s)'
                           % (norm(sub), '/'.join(sorted(types)), odd[0][0], odd[0][1]), True,
                           reason='no version puts another element in front of what the other versions have at this index')
                    continue
                g0, extra, w = shifted[0]
                rep.ob('GR-10b', rel, f.qual, '%s on %s' % (norm(sub), '/'.join(sorted(types))), tested,
                       'in %s this index can hold %s (e.g. %s), in other versions only %s; the code relies on the child '
                       'without looking at what it is' % (g0, extra, ' '.join(w[:6]), sorted(base)),
                       witness={'grammar': g0, 'extra': extra})
    return n
