"""GR-10 - constant child indexes are valid in every short sentence of the receiver's rule that is
consistent with the guards on the same receiver (engine E4 tree-shape model)."""
import ast

from ..model import AnalysisError, norm, head, walk_own, Cls, Func, qual_of
from . import tc
from .gr import class_type, node_map, shape_appearance, PYTREE

SKIP_TYPES = {
    'file_input': 'the module node can have a single child (end marker only)',
    'param': 'synthetic node grouped by _create_params, not a grammar rule',
    'lambdef': 'children are regrouped into Param nodes',
    'lambdef_nocond': 'children are regrouped into Param nodes',
    'error_node': 'no rule shape',
}


def _const_index(sl):
    if isinstance(sl, ast.Constant) and isinstance(sl.value, int) and not isinstance(sl.value, bool):
        return sl.value
    if isinstance(sl, ast.UnaryOp) and isinstance(sl.op, ast.USub) and isinstance(sl.operand, ast.Constant) \
            and isinstance(sl.operand.value, int):
        return -sl.operand.value
    return None


def node_words(g, t, maxlen):
    """Child sequences (tuples of grammar symbols) a node of type t can have, up to maxlen children,
    after the tree conventions.  Only sequences that really form a node (>= 2 children) are returned."""
    d = g.dfas[t]
    words = d.words(maxlen + (2 if t == 'suite' else 0) + (1 if t == 'simple_stmt' else 0))
    out = set()
    for w in words:
        if t == 'suite' and len(w) >= 4 and w[1] == 'INDENT' and w[-1] == 'DEDENT':
            w = (w[0],) + w[2:-1]
        if len(w) >= 2:
            out.add(w)
        if t == 'simple_stmt' and len(w) >= 3 and w[-1] == 'NEWLINE':
            out.add(w[:-1])          # end of file without final newline (recovery shortcut)
    return {w for w in out if len(w) <= maxlen}


def symbol_can_be(g, sym, what):
    """Can grammar symbol ``sym`` appear in the tree as something of type / literal ``what``?"""
    app = shape_appearance(g)
    kinds = set()
    for s in (app[sym] if sym in g.nts else {sym}):
        if s in g.nts:
            kinds.add(('type', s))
        elif s.startswith("'"):
            lit = ast.literal_eval(s)
            kinds.add(('lit', lit))
            kinds.add(('type', 'keyword' if lit[:1].isalpha() or lit[:1] == '_' else 'operator'))
        else:
            kinds.add(('type', {'NAME': 'name', 'NUMBER': 'number', 'STRING': 'string', 'NEWLINE': 'newline',
                                'ENDMARKER': 'endmarker', 'FSTRING_STRING': 'fstring_string',
                                'FSTRING_START': 'fstring_start', 'FSTRING_END': 'fstring_end'}.get(s, s)))
    return what in kinds


class Guards:
    """What the enclosing conditions say about X.children (X = receiver text)."""

    def __init__(self, ctx, f, recv, site):
        self.ctx, self.f, self.recv = ctx, f, recv
        self.len_ok = []       # predicates on the length
        self.pos = []          # (index, ('lit'|'type', value), must_hold)
        self.unknown = []      # guards on recv.children we do not understand
        self.index_error_caught = False
        self.aliases = {}      # local name -> index into recv.children
        counts = {}
        for n in walk_own(f.node):
            if isinstance(n, ast.Assign):
                for t in n.targets:
                    for x in ast.walk(t):
                        if isinstance(x, ast.Name):
                            counts[x.id] = counts.get(x.id, 0) + 1
        for n in walk_own(f.node):
            if isinstance(n, ast.Assign) and len(n.targets) == 1 and isinstance(n.targets[0], ast.Name) \
                    and isinstance(n.value, ast.Subscript) and norm(n.value.value) == recv + '.children':
                i = _const_index(n.value.slice)
                name = n.targets[0].id
                if i is not None and counts.get(name) == 1 and name != recv.split('.')[0]:
                    self.aliases[name] = i
        nar = tc.Narrow(ctx, f, recv, None)
        for test, pos in nar.enclosing(site):
            self._add(test, pos)
        # earlier `if len(X.children) <op> k: return` statements in the same block sequence
        self._early_returns(site)
        child = site
        p = getattr(site, '_parent', None)
        while p is not None and p is not f.node:
            if isinstance(p, ast.Try) and child in p.body:
                for h in p.handlers:
                    t = norm(h.type) if h.type is not None else 'BaseException'
                    if 'IndexError' in t or t in ('LookupError', 'Exception', 'BaseException'):
                        self.index_error_caught = True
            child = p
            p = getattr(p, '_parent', None)

    def _early_returns(self, site):
        st = site
        while st is not None and not isinstance(st, ast.stmt):
            st = getattr(st, '_parent', None)
        while st is not None and st is not self.f.node:
            parent = getattr(st, '_parent', None)
            for field in ('body', 'orelse'):
                b = getattr(parent, field, None)
                if isinstance(b, list) and st in b:
                    for prev in b[:b.index(st)]:
                        if isinstance(prev, ast.If) and prev.body and isinstance(prev.body[-1], (ast.Return, ast.Raise, ast.Continue, ast.Break)) \
                                and not prev.orelse:
                            self._add(prev.test, False)
                        if isinstance(prev, ast.Assert):
                            self._add(prev.test, True)
            st = parent

    def _index_of(self, e):
        """index when e is recv.children[i] or an alias of it."""
        if isinstance(e, ast.Subscript) and norm(e.value) == self.recv + '.children':
            return _const_index(e.slice)
        if isinstance(e, ast.Name) and e.id in self.aliases:
            return self.aliases[e.id]
        if isinstance(e, ast.Name) and e.id != self.recv.split('.')[0]:
            # a local assigned more than once: what reaches *this* use
            from ..model import reaching_values
            vals = reaching_values(self.f.node, e)
            if len(vals) == 1 and isinstance(vals[0], ast.Subscript) and norm(vals[0].value) == self.recv + '.children':
                return _const_index(vals[0].slice)
        return None

    def _add(self, test, positive):
        if isinstance(test, ast.BoolOp):
            if (isinstance(test.op, ast.And) and positive) or (isinstance(test.op, ast.Or) and not positive):
                for v in test.values:
                    self._add(v, positive)
            elif self.recv + '.children' in norm(test):
                self.unknown.append(norm(test))
            return
        if isinstance(test, ast.UnaryOp) and isinstance(test.op, ast.Not):
            return self._add(test.operand, not positive)
        if isinstance(test, ast.Compare) and len(test.ops) == 1:
            l, r, op = test.left, test.comparators[0], test.ops[0]
            if norm(l) == 'len(%s.children)' % self.recv and isinstance(r, ast.Constant) and isinstance(r.value, int):
                k = r.value
                fn = {ast.Eq: lambda n: n == k, ast.NotEq: lambda n: n != k, ast.Lt: lambda n: n < k,
                      ast.LtE: lambda n: n <= k, ast.Gt: lambda n: n > k, ast.GtE: lambda n: n >= k}.get(type(op))
                if fn:
                    self.len_ok.append(fn if positive else (lambda n, fn=fn: not fn(n)))
                    return
            i = self._index_of(l)
            vals = tc._const_strs(self.ctx, self.f.mod, r)
            if i is not None and vals is not None and isinstance(op, (ast.Eq, ast.NotEq, ast.In, ast.NotIn)):
                hold = positive == isinstance(op, (ast.Eq, ast.In))
                self.pos.append((i, [('lit', v) for v in vals], hold))
                return
            # X.children[i].type == 't'  /  alias.type == 't' / alias.value == 'v'
            if isinstance(l, ast.Attribute) and l.attr in ('type', 'value'):
                i = self._index_of(l.value)
                if i is not None and vals is not None and isinstance(op, (ast.Eq, ast.NotEq, ast.In, ast.NotIn)):
                    hold = positive == isinstance(op, (ast.Eq, ast.In))
                    kind = 'type' if l.attr == 'type' else 'lit'
                    self.pos.append((i, [(kind, v) for v in vals], hold))
                    return
        if self.recv + '.children' in norm(test):
            self.unknown.append(norm(test))

    def admits(self, g, word):
        n = len(word)
        if not all(fn(n) for fn in self.len_ok):
            return False
        for i, alts, hold in self.pos:
            j = i if i >= 0 else n + i
            if j < 0 or j >= n:
                return False         # the guard itself would have raised first
            can = any(symbol_can_be(g, word[j], a) for a in alts)
            if hold and not can:
                return False
            if not hold:
                # must NOT be any of alts: excluded only when the symbol can be nothing else
                app = shape_appearance(g)
                shapes = app[word[j]] if word[j] in g.nts else {word[j]}
                if len(shapes) == 1 and can:
                    return False
        return True


def receiver_types(ctx, f, recv_expr, site, depth=0):
    """Node types the receiver can have, or None when not evident."""
    prog = ctx.prog
    recv = norm(recv_expr)
    cls = ctx.cg.owner_class(f)
    nm = node_map(ctx)
    all_types = set()
    for g in ctx.grammars:
        shape_appearance(g)
        all_types |= g._node_rules
    if recv == ctx.cg.self_name(f) and cls is not None and f.outer is None:
        root_ok = any(isinstance(c, Cls) and c.name in ('NodeOrLeaf',) for c in cls.mro)
        if not root_ok:
            return None
        t = class_type(cls)
        if t and t[0] == 'const':
            return {t[1]}
        if t and t[0] == 'keyword_stmt':
            return {k for k, c in nm.items() if isinstance(c, Cls) and cls in c.mro and k in all_types}
        # abstract base: union over the subclasses with a static type
        out = set()
        for s in prog.subclasses(cls):
            st = class_type(s)
            if st and st[0] == 'const':
                out.add(st[1])
            elif st:
                out |= {k for k, c in nm.items() if c is s and k in all_types}
        return out or None
    model = _model(ctx)
    kinds = set(all_types) | set(tc.LEAF_KINDS)
    nar = tc.Narrow(ctx, f, recv, model)
    start = set(kinds)
    for test, pos in nar.enclosing(site):
        kinds = _narrow_types(nar, kinds, test, pos)
    # early returns on the type:  if X.type != 't': return
    g = Guards.__new__(Guards)
    if kinds != start:
        return {k for k in kinds if k in all_types} or None
    # rule registration context
    if cls is not None and isinstance(recv_expr, ast.Name):
        params = f.params()
        if len(params) > 1 and recv == params[1] and f.name in ('is_issue', 'get_node'):
            types, values = tc.registrations(ctx, cls)
            if types and not values:
                return {t for t in types if t in all_types} or None
    # parameter typed by the guards at every call site
    if isinstance(recv_expr, ast.Name) and recv in f.params() and depth < 2:
        idx = f.params().index(recv)
        sets = []
        for g2 in prog.funcs.values():
            for s in ctx.cg.sites[g2.key]:
                if f in s.targets:
                    off = 1 if (f.cls is not None and isinstance(s.node.func, ast.Attribute)) else 0
                    k = idx - off
                    if 0 <= k < len(s.node.args):
                        ts = receiver_types(ctx, g2, s.node.args[k], s.node, depth + 1)
                        if ts is None:
                            return None
                        sets.append(ts)
        if sets:
            return set.union(*sets)
    return None


_models = {}


def _model(ctx):
    if id(ctx) not in _models:
        _models[id(ctx)] = tc.TokenValueModel(ctx)
    return _models[id(ctx)]


def _narrow_types(nar, kinds, test, positive):
    if isinstance(test, ast.BoolOp):
        if (isinstance(test.op, ast.And) and positive) or (isinstance(test.op, ast.Or) and not positive):
            for v in test.values:
                kinds = _narrow_types(nar, kinds, v, positive)
            return kinds
        if isinstance(test.op, ast.Or) and positive:
            out = set()
            for v in test.values:
                out |= _narrow_types(nar, set(kinds), v, True)
            return out
        return kinds
    if isinstance(test, ast.UnaryOp) and isinstance(test.op, ast.Not):
        return _narrow_types(nar, kinds, test.operand, not positive)
    if isinstance(test, ast.Compare) and len(test.ops) == 1 and norm(test.left) in nar.aliases_type:
        vals = tc._const_strs(nar.ctx, nar.mod, test.comparators[0])
        op = test.ops[0]
        if vals is not None and isinstance(op, (ast.Eq, ast.In, ast.NotEq, ast.NotIn)):
            keep = positive == isinstance(op, (ast.Eq, ast.In))
            return {k for k in kinds if (k in vals) == keep}
    return kinds


def gr_10(ctx, rep, modules, min_abs=2):
    rep.rule('GR-10', 'every constant child index x.children[c] (|c| >= 2 counted from its end) on a receiver of evident '
                      'node type is valid in every sentence of that rule, in every grammar, that is consistent with the '
                      'guards on the same receiver')
    n_checked = 0
    for rel in modules:
        mod = ctx.prog.mod(rel)
        for f in mod.funcs.values():
            for n in walk_own(f.node):
                if not (isinstance(n, ast.Subscript) and isinstance(n.value, ast.Attribute) and n.value.attr == 'children'):
                    continue
                c = _const_index(n.slice)
                if c is None or c in (0, 1, -1, -2):
                    continue
                if isinstance(n.ctx, ast.Store):
                    continue
                recv_expr = n.value.value
                recv = norm(recv_expr)
                construct = norm(n)
                types = receiver_types(ctx, f, recv_expr, n)
                if not types:
                    rep.skip('GR-10', rel, f.qual, construct, 'node type of the receiver is not evident from the code')
                    continue
                guards = Guards(ctx, f, recv, n)
                if guards.index_error_caught:
                    rep.ob('GR-10', rel, f.qual, construct, True, reason='inside try/except IndexError')
                    n_checked += 1
                    continue
                if guards.unknown:
                    rep.skip('GR-10', rel, f.qual, construct, 'guard not understood: %s' % guards.unknown[0])
                    continue
                need = c + 1 if c >= 0 else -c
                bad = None
                for t in sorted(types):
                    if t in SKIP_TYPES:
                        continue
                    for g in ctx.grammars:
                        if t not in g.dfas:
                            continue
                        for w in sorted(node_words(g, t, need - 1 + 0)):
                            if len(w) < need and guards.admits(g, w):
                                bad = (t, g.name, w)
                                break
                        if bad:
                            break
                    if bad:
                        break
                n_checked += 1
                rep.ob('GR-10', rel, f.qual, '%s on %s' % (construct, '/'.join(sorted(types))), bad is None,
                       'a %s node can have the children %s (grammar %s): index %d does not exist'
                       % (bad[0], ' '.join(bad[2]), bad[1], c) if bad else '',
                       witness=' '.join(bad[2]) if bad else None)
    return n_checked


# ---------------------------------------------------------------------------
# GR-10b : a child taken by constant index is used as one particular kind of thing only if the grammars agree
# ---------------------------------------------------------------------------
def _symbols_at(ctx, types, c, guards, maxlen=7):
    """{symbol: (type, grammar)} that can stand at index c of a node of one of ``types``."""
    out = {}
    for t in sorted(types):
        if t in SKIP_TYPES:
            return None
        for g in ctx.grammars:
            if t not in g.dfas:
                continue
            need = (c + 1 if c >= 0 else -c)
            for w in node_words(g, t, max(maxlen, need + 2)):
                if len(w) < need or not guards.admits(g, w):
                    continue
                out.setdefault(w[c], (t, g.name, w))
    return out


def _is_tested(f, site, recv_text):
    """Is the value obtained at ``site`` (or a local it is assigned to) examined by a type / value / identity test,
    or only passed on / compared?  Used to accept positions whose symbol differs between sentences."""
    names = {recv_text}
    p = getattr(site, '_parent', None)
    if isinstance(p, ast.Assign) and len(p.targets) == 1 and isinstance(p.targets[0], ast.Name):
        names.add(p.targets[0].id)
    for n in walk_own(f.node):
        if isinstance(n, ast.Compare):
            for e in [n.left] + list(n.comparators):
                t = norm(e)
                for nm in names:
                    if t == nm or t in (nm + '.type', nm + '.value'):
                        return True
        if isinstance(n, ast.Call) and norm(n.func) == 'isinstance' and n.args and norm(n.args[0]) in names:
            return True
    return False


def _symbols_at_by_grammar(ctx, types, c, guards, maxlen=7):
    """{grammar name: set of symbols at index c} for nodes of one of ``types`` (None when not computable)."""
    out = {}
    for t in sorted(types):
        if t in SKIP_TYPES:
            return None
        for g in ctx.grammars:
            if t not in g.dfas:
                continue
            need = (c + 1 if c >= 0 else -c)
            for w in node_words(g, t, max(maxlen, need + 2)):
                if len(w) < need or not guards.admits(g, w):
                    continue
                out.setdefault(g.name, {})[w[c]] = w
                _ALL_WORDS.setdefault((id(out), g.name, w[c]), []).append(w)
    return out


_ALL_WORDS = {}


def _is_shift(per, g0, extra, base, c):
    """Does an extra symbol at index c *displace* what the other versions have there (one of the base symbols then
    follows it - or, for an index counted from the end, precedes it), or is it an alternative filling of the same slot?"""
    for sym in extra:
        for w in _ALL_WORDS.get((id(per), g0, sym), []):
            rest = w[c + 1:] if c >= 0 else w[:len(w) + c]
            if any(x in base for x in rest):
                return True
    return False


GR10B_EXCEPTIONS = {
    ('parso/python/tree.py', 'KeywordStatement.get_defined_names', 'self.children[1]'):
        "read only under keyword == 'del' (the keyword is children[0].value, a guard the analysis does not follow); the "
        "second child of del_stmt is exprlist in every version",
}


def gr_10b(ctx, rep, modules):
    rep.rule('GR-10b', 'a child taken by a constant index is the same kind of thing in every grammar version: where a '
                       'version puts another symbol at that index (an optional element added in front of it), the code '
                       'examines the child (type / value / identity test) before relying on it')
    n = 0
    for rel in modules:
        mod = ctx.prog.mod(rel)
        for f in mod.funcs.values():
            for sub in walk_own(f.node):
                if not (isinstance(sub, ast.Subscript) and isinstance(sub.value, ast.Attribute) and sub.value.attr == 'children'):
                    continue
                c = _const_index(sub.slice)
                if c is None or isinstance(sub.ctx, ast.Store):
                    continue
                recv_expr = sub.value.value
                types = receiver_types(ctx, f, recv_expr, sub)
                if not types:
                    continue
                guards = Guards(ctx, f, norm(recv_expr), sub)
                if guards.unknown:
                    continue
                per = _symbols_at_by_grammar(ctx, types, c, guards)
                if not per:
                    continue
                n += 1
                sets = {g: frozenset(v) for g, v in per.items()}
                if len(set(sets.values())) == 1:
                    rep.ob('GR-10b', rel, f.qual, '%s on %s: same symbols in all %d grammar versions'
                           % (norm(sub), '/'.join(sorted(types)), len(sets)), True)
                    continue
                if (rel, f.qual, norm(sub)) in GR10B_EXCEPTIONS:
                    rep.skip('GR-10b', rel, f.qual, norm(sub), GR10B_EXCEPTIONS[(rel, f.qual, norm(sub))])
                    continue
                tested = _is_tested(f, sub, norm(sub))
                base = min(sets.values(), key=len)
                odd = [(g, sorted(v - base), per[g][sorted(v - base)[0]]) for g, v in sorted(sets.items()) if v - base]
                shifted = [(g, extra, w) for g, extra, w in odd if _is_shift(per, g, extra, base, c)]
                if not shifted:
                    rep.ob('GR-10b', rel, f.qual, '%s on %s: %s only adds alternative fillings of the same slot (%s)'
                           % (norm(sub), '/'.join(sorted(types)), odd[0][0], odd[0][1]), True,
                           reason='no version puts another element in front of what the other versions have at this index')
                    continue
                g0, extra, w = shifted[0]
                rep.ob('GR-10b', rel, f.qual, '%s on %s' % (norm(sub), '/'.join(sorted(types))), tested,
                       'in %s this index can hold %s (e.g. %s), in other versions only %s; the code relies on the child '
                       'without looking at what it is' % (g0, extra, ' '.join(w[:6]), sorted(base)),
                       witness={'grammar': g0, 'extra': extra})
    return n


# ---------------------------------------------------------------------------------------------------------------
# WRAP-1  a chain of "step into the last child" tests is closed under the grammar
def _last_child_types(ctx, t):
    """Node types / terminals the last child of a node of type ``t`` can be, over all grammar versions."""
    from .gr import shape_appearance
    out = set()
    for g in ctx.grammars:
        if t not in g.dfas:
            continue
        app = shape_appearance(g)
        for w in node_words(g, t, 7):
            s = w[-1]
            out |= set(app[s]) if s in g.nts else {s}
    return out


def _type_test(test, negated_too=False):
    """(variable text, set of type names) for `X.type == 'T'` / `X.type in ('T', ...)` (with ``negated_too`` also for
    `!=` / `not in`); None otherwise."""
    if not (isinstance(test, ast.Compare) and len(test.ops) == 1):
        return None
    l, r, op = test.left, test.comparators[0], test.ops[0]
    if not (isinstance(l, ast.Attribute) and l.attr == 'type'):
        return None
    eq = (ast.Eq, ast.NotEq) if negated_too else (ast.Eq,)
    member = (ast.In, ast.NotIn) if negated_too else (ast.In,)
    if isinstance(op, eq) and isinstance(r, ast.Constant) and isinstance(r.value, str):
        return norm(l.value), {r.value}
    if isinstance(op, member) and isinstance(r, (ast.Tuple, ast.List, ast.Set)) and r.elts and all(
            isinstance(e, ast.Constant) and isinstance(e.value, str) for e in r.elts):
        return norm(l.value), {e.value for e in r.elts}
    if isinstance(op, member) and isinstance(r, ast.Name) and _RESOLVE[0] is not None:
        vals = _RESOLVE[0](r)             # a module-level tuple of node types
        if vals:
            return norm(l.value), set(vals)
    return None


_RESOLVE = [None]


def _unwrap_step(st):
    """(variable, types) when ``st`` is `if X.type == T: X = X.children[-1]` (no else)."""
    if not (isinstance(st, (ast.If, ast.While)) and not st.orelse and len(st.body) == 1):
        return None
    tt = _type_test(st.test)
    b = st.body[0]
    if tt is None or not (isinstance(b, ast.Assign) and len(b.targets) == 1 and isinstance(b.targets[0], ast.Name)):
        return None
    var, types = tt
    v = b.value
    if b.targets[0].id == var and isinstance(v, ast.Subscript) and _const_index(v.slice) == -1 \
            and isinstance(v.value, ast.Attribute) and v.value.attr == 'children' and norm(v.value.value) == var:
        return var, (_Loop(types) if isinstance(st, ast.While) else types)
    return None


class _Loop(set):
    """types of a `while X.type in Ts: X = X.children[-1]` step: it is applied until none of Ts matches"""


def _unwrap_helpers(mod):
    """name -> [types of step 1, types of step 2, ...] for module-level helpers that do nothing but step into last children:
    `def h(node): if node.type in Ts: return node.children[-1]; return node`   or
    `def h(node): if node.type == T1: node = node.children[-1]; if node.type in T2: node = node.children[-1]; return node`."""
    out = {}
    for name, f in mod.funcs.items():
        if f.cls is not None or f.outer is not None or len(f.params()) != 1:
            continue
        p = f.params()[0]
        body = [st for st in f.node.body if not (isinstance(st, ast.Expr) and isinstance(st.value, ast.Constant))]
        if len(body) == 2 and isinstance(body[0], ast.If) and not body[0].orelse and len(body[0].body) == 1:
            tt = _type_test(body[0].test)
            r1, r2 = body[0].body[0], body[1]
            if tt is not None and tt[0] == p and isinstance(r1, ast.Return) and isinstance(r2, ast.Return):
                v = r1.value
                if isinstance(v, ast.Subscript) and _const_index(v.slice) == -1 and norm(v.value) == '%s.children' % p \
                        and r2.value is not None and norm(r2.value) == p:
                    out[name] = [tt[1]]
                    continue
        if len(body) >= 2 and isinstance(body[-1], ast.Return) and body[-1].value is not None and norm(body[-1].value) == p:
            steps = [_unwrap_step(st) for st in body[:-1]]
            if all(s is not None and s[0] == p for s in steps):
                out[name] = [s[1] for s in steps]
    return out


def _helper_step(st, helpers):
    """(variable, types) when ``st`` is `X = helper(Y)` with an unwrap helper."""
    if isinstance(st, ast.Assign) and len(st.targets) == 1 and isinstance(st.targets[0], ast.Name) \
            and isinstance(st.value, ast.Call) and isinstance(st.value.func, ast.Name) and st.value.func.id in helpers \
            and len(st.value.args) == 1:
        return st.targets[0].id, _Steps(helpers[st.value.func.id])
    return None


class _Steps(list):
    """several consecutive steps made by one helper call"""


def wrap_1(ctx, rep, modules=('parso/python/diff.py', 'parso/python/tree.py', 'parso/python/pep8.py', 'parso/python/errors.py',
                              'parso/python/parser.py')):
    rep.rule('WRAP-1', 'a chain of `if X.type == T: X = X.children[-1]` steps that ends in a test for the node types C is closed '
                       'under the grammar: when the last child of a stepped-through T can be a node W (not in C) whose own last '
                       'child can be in C, the chain steps through W as well (`decorated` may end in `async_funcdef`, which ends '
                       'in `funcdef`)')
    n_chains = 0
    for rel in modules:
        mod = ctx.prog.mod(rel)
        _RESOLVE[0] = lambda e, mod=mod: tc._const_strs(ctx, mod, e)
        helpers = _unwrap_helpers(mod)

        def _step(st):
            return _unwrap_step(st) or _helper_step(st, helpers)
        for f in sorted(mod.funcs.values(), key=lambda f: f.qual):
            if f.name in helpers:
                continue
            for parent in ast.walk(f.node):
                for field in ('body', 'orelse', 'finalbody'):
                    blk = getattr(parent, field, None)
                    if not isinstance(blk, list):
                        continue
                    i = 0
                    while i < len(blk):
                        step = _step(blk[i]) if isinstance(blk[i], ast.stmt) else None
                        if step is None:
                            i += 1
                            continue
                        var = step[0]
                        steps = list(step[1]) if isinstance(step[1], _Steps) else [step[1]]
                        j = i + 1
                        while j < len(blk):
                            s2 = _step(blk[j])
                            if s2 is None or s2[0] != var:
                                break
                            steps += list(s2[1]) if isinstance(s2[1], _Steps) else [s2[1]]
                            j += 1
                        # the first later test of X.type against constants, in this block
                        target = None
                        for st in blk[j:]:
                            for sub in ast.walk(st):
                                tt = _type_test(sub, negated_too=True) if isinstance(sub, ast.Compare) else None
                                if tt and tt[0] == var:
                                    target = tt[1]
                                    break
                            if target:
                                break
                        i = j
                        if not target:
                            continue
                        n_chains += 1
                        missing = None
                        for k, types in enumerate(steps):
                            later = set().union(*steps[k + 1:]) if steps[k + 1:] else set()
                            if isinstance(types, _Loop):
                                later = later | set(types)
                            for t in sorted(types):
                                for w in sorted(_last_child_types(ctx, t)):
                                    if w in target or w in later or not any(w in g.dfas for g in ctx.grammars):
                                        continue
                                    if _last_child_types(ctx, w) & target:
                                        missing = (t, w)
                                        break
                                if missing:
                                    break
                            if missing:
                                break
                        rep.ob('WRAP-1', rel, f.qual, 'chain on %s through %s before the test for %s'
                               % (var, ' / '.join('|'.join(sorted(s)) for s in steps), '|'.join(sorted(target))), missing is None,
                               'the last child of a %s node can be a %s node, whose last child can be one of %s: the chain does not '
                               'step through it, so such a node is treated as "not a %s"'
                               % (missing + ('|'.join(sorted(target)), '|'.join(sorted(target)))) if missing else '',
                               witness=list(missing) if missing else None)
    _RESOLVE[0] = None
    rep.stat('wrap1_chains', n_chains)
    rep.minimum('WRAP-1', 2)


# ---------------------------------------------------------------------------------------------------------------
# BRK-1  a loop over the children of a node does not stop at a child the grammar allows in the middle
_BRK1_EXAMPLE = '''
class WithStmt:
    type = 'with_stmt'

    def get_defined_names(self):
        names = []
        for with_item in self.children[1::2]:
            if with_item.type != 'with_item':
                break
            names += with_item.children[2]
        return names
'''


def _brk1_loops(cls_type, fn_node):
    """[(for node, slice, variable, wanted type)] - `for X in self.children[a:b:c]:` whose body holds, at its top level,
    `if X.type != 'K': break`."""
    out = []
    for n in ast.walk(fn_node):
        if not (isinstance(n, ast.For) and isinstance(n.target, ast.Name) and isinstance(n.iter, ast.Subscript)
                and isinstance(n.iter.slice, ast.Slice) and norm(n.iter.value).endswith('.children')
                and norm(n.iter.value).split('.')[0] == 'self'):
            continue
        sl = n.iter.slice
        parts = []
        for p in (sl.lower, sl.upper, sl.step):
            if p is None:
                parts.append(None)
            else:
                c = _const_index(p)
                if c is None:
                    parts = None
                    break
                parts.append(c)
        if parts is None:
            continue
        for st in n.body:
            if isinstance(st, ast.If) and len(st.body) == 1 and isinstance(st.body[0], ast.Break) and not st.orelse \
                    and isinstance(st.test, ast.Compare) and len(st.test.ops) == 1 and isinstance(st.test.ops[0], ast.NotEq) \
                    and norm(st.test.left) == '%s.type' % n.target.id and isinstance(st.test.comparators[0], ast.Constant) \
                    and isinstance(st.test.comparators[0].value, str):
                out.append((n, slice(*parts), n.target.id, st.test.comparators[0].value))
    return out


def _brk1_witness(ctx, node_type, sl, wanted, maxlen=8):
    """A sentence of rule `node_type` (some grammar) in which, within the slice, a child that need not be of type `wanted`
    comes before a child that can be: the `break` then skips the later one.  None if there is none."""
    from .gr import shape_appearance
    for g in ctx.grammars:
        if node_type not in g.nts:
            continue
        app = shape_appearance(g)
        for w in sorted(node_words(g, node_type, maxlen), key=lambda w: (len(w), w)):
            part = list(w)[sl]
            stop = None
            for i, sym in enumerate(part):
                kinds = app[sym] if sym in g.nts else {sym}
                if stop is None and kinds != {wanted}:
                    stop = i
                elif stop is not None and symbol_can_be(g, sym, ('type', wanted)):
                    return '%s: %s  (the loop stops at `%s`, which may be %s, before `%s`)' % (
                        g.name if hasattr(g, 'name') else 'grammar', ' '.join(w), part[stop],
                        '/'.join(sorted(k for k in (app[part[stop]] if part[stop] in g.nts else {part[stop]}) if k != wanted)[:3]), sym)
    return None


def brk_1(ctx, rep, modules=('parso/python/tree.py',)):
    rep.rule('BRK-1', 'a loop over a constant slice of the children of a node that stops (`break`) at the first child whose type '
                      'is not K does not lose a later child of type K: in every short sentence of the node\'s rule, within the '
                      'slice, no child that can be K follows a child that need not be K (single-child collapse applied: an '
                      'item without its optional tail appears as a bare expression)')
    # built-in example: the matcher and the grammar model are exercised on every run
    ex = ast.parse(_BRK1_EXAMPLE).body[0]
    loops = _brk1_loops('with_stmt', ex)
    if not loops or _brk1_witness(ctx, 'with_stmt', loops[0][1], loops[0][3]) is None:
        raise AnalysisError('BRK-1: the matcher does not recognise its built-in example')
    n = 0
    for rel in modules:
        mod = ctx.prog.mod(rel)
        for cls in mod.classes.values():
            tv = None
            for k in (cls.mro or [cls]):
                a = getattr(k, 'attrs', {}).get('type') if not isinstance(k, str) else None
                if isinstance(a, ast.Constant) and isinstance(a.value, str):
                    tv = a.value
                    break
            if tv is None:
                continue
            for m in cls.methods.values():
                for loop, sl, var, wanted in _brk1_loops(tv, m.node):
                    n += 1
                    w = _brk1_witness(ctx, tv, sl, wanted)
                    rep.ob('BRK-1', rel, m.qual, head(loop), w is None,
                           'the loop stops at the first child that is not a %s, but the grammar allows a %s after such a child: %s'
                           % (wanted, wanted, w), witness=w)
    rep.stat('brk1_loops', n)
