"""Parser path rules PAR-1 .. PAR-9 (engine E7)."""
import ast

from ..cfg import CFG, node_exprs
from ..model import AnalysisError, norm, head, walk_own, Cls, Func, qual_of
from ..paths import FactFlow, find_path, path_text

BASE = 'parso/parser.py'
PY = 'parso/python/parser.py'
TREE = 'parso/tree.py'
PYTREE = 'parso/python/tree.py'
DIFF = 'parso/python/diff.py'


def calls_in(node, pred):
    out = []
    for e in node_exprs(node):
        for n in ast.walk(e):
            if isinstance(n, ast.Call) and pred(n):
                out.append(n)
    return out


def nodes_calling(cfg, pred):
    return [n for n in cfg.nodes if calls_in(n, pred)]


def is_method_call(call, name, recv=None):
    return isinstance(call.func, ast.Attribute) and call.func.attr == name and \
        (recv is None or norm(call.func.value) == recv)


def reachable_with_edges_removed(cfg, removed):
    """Nodes reachable from entry when the edges in ``removed`` ((node, label) pairs) are deleted."""
    seen = {cfg.entry}
    todo = [cfg.entry]
    while todo:
        n = todo.pop()
        for s, lab in n.succ:
            if (n, lab) in removed:
                continue
            if s not in seen:
                seen.add(s)
                todo.append(s)
    return seen


def only_via(cfg, target, test_pred, label):
    """True when ``target`` can be reached from the entry only through a ``label`` edge of a test
    node satisfying ``test_pred``."""
    tests = [n for n in cfg.nodes if n.kind == 'test' and test_pred(n.ast)]
    if not tests:
        return False
    removed = {(t, label) for t in tests}
    return target not in reachable_with_edges_removed(cfg, removed)


# ---------------------------------------------------------------------------
def par_2(ctx, rep):
    rep.rule('PAR-2', 'every lookup in a grammar table (.transitions, .arcs, .reserved_syntax_strings, node_map, '
                      'leaf_map) inside the parser sits in a try body with a KeyError handler')
    tables = {'transitions', 'arcs', 'reserved_syntax_strings', 'node_map', 'leaf_map', '_leaf_map'}
    exceptions = {'nonterminal_to_dfas': 'start-symbol lookup validates an API argument (a wrong start symbol must raise)'}
    for rel in (BASE, PY):
        mod = ctx.prog.mod(rel)
        for n in ast.walk(mod.tree):
            if isinstance(n, ast.Subscript) and isinstance(n.ctx, ast.Load) and isinstance(n.value, ast.Attribute):
                attr = n.value.attr
                q = qual_of(mod, n)
                if attr in exceptions:
                    rep.skip('PAR-2', rel, q, norm(n), exceptions[attr])
                    continue
                if attr not in tables:
                    continue
                guarded = False
                child = n
                p = getattr(n, '_parent', None)
                while p is not None:
                    if isinstance(p, ast.Try) and child in p.body:
                        for h in p.handlers:
                            t = norm(h.type) if h.type is not None else 'BaseException'
                            if t in ('KeyError', 'LookupError', 'Exception', 'BaseException') or 'KeyError' in t:
                                guarded = True
                    if isinstance(p, (ast.FunctionDef, ast.AsyncFunctionDef)):
                        break
                    child = p
                    p = getattr(p, '_parent', None)
                rep.ob('PAR-2', rel, q, norm(n), guarded,
                       'grammar-table lookup can raise KeyError out of the parser (no enclosing try/except KeyError)')
            # non-raising forms of the same lookups: table.get(key), key in table (and a subscript guarded by it)
            from ..model import xnorm as _xn
            if isinstance(n, ast.Call) and isinstance(n.func, ast.Attribute) and n.func.attr == 'get' \
                    and isinstance(n.func.value, ast.Attribute) and n.func.value.attr in tables:
                rep.ob('PAR-2', rel, qual_of(mod, n), norm(n), True, reason='.get() cannot raise KeyError')
    rep.minimum('PAR-2', 4)


# ---------------------------------------------------------------------------
def par_3(ctx, rep):
    rep.rule('PAR-3', 'a node is only created from an accepting state: every call of _pop and the final convert_node '
                      'in parse is reachable only through the true edge of an is_final test')
    is_final = lambda e: isinstance(e, ast.Attribute) and e.attr == 'is_final'
    sites = 0
    engine = [ctx.prog.func(BASE, q) for q in ('BaseParser._add_token', 'BaseParser.parse')]
    # private helpers only the engine calls (its reduce loop split off into a method) are part of the engine
    parts = sorted(ctx.parts_of([g.key for g in engine]))
    engine_quals = {g.qual for g in engine} | {k[1] for k in parts if k[0] == BASE}
    for f in engine + [ctx.prog.funcs[k] for k in parts if k[0] == BASE and ctx.prog.funcs[k].qual != 'BaseParser._pop']:
        qual = f.qual
        cfg = ctx.cfg(f)
        for n in cfg.nodes:
            for c in calls_in(n, lambda c: is_method_call(c, '_pop') or
                              (qual.endswith('.parse') and is_method_call(c, 'convert_node'))):
                sites += 1
                ok = only_via(cfg, n, is_final, 'T')
                rep.ob('PAR-3', BASE, qual, norm(c), ok,
                       'reduction reachable without a successful is_final test on the state being reduced')
    rep.minimum('PAR-3', 3)
    # who calls _pop at all
    for f in ctx.prog.funcs.values():
        if f.mod.rel not in (BASE, PY):
            continue
        for n in walk_own(f.node):
            if isinstance(n, ast.Call) and is_method_call(n, '_pop') and f.qual not in engine_quals:
                rep.ob('PAR-3', f.mod.rel, f.qual, norm(n), False, '_pop called outside the table engine')


# ---------------------------------------------------------------------------
def tree_hierarchy(ctx):
    prog = ctx.prog
    root = prog.cls(TREE, 'NodeOrLeaf')
    return root, [c for c in prog.classes.values() if root in c.mro]


def par_4(ctx, rep):
    rep.rule('PAR-4', 'who may construct: ordinary node classes only in convert_node, PythonErrorNode only in '
                      '_stack_removal, error leaves only in error_recovery, Param only in _create_params, leaves only '
                      'in convert_leaf (and the synthetic end marker of the diff parser)')
    prog = ctx.prog
    root, classes = tree_hierarchy(ctx)
    base_node = prog.cls(TREE, 'BaseNode')
    err_node = prog.cls(TREE, 'ErrorNode')
    err_leaf = prog.cls(TREE, 'ErrorLeaf')
    leaf = prog.cls(TREE, 'Leaf')
    param = prog.cls(PYTREE, 'Param')
    allowed = {
        'node': {(BASE, 'BaseParser.convert_node'), (PY, 'Parser.convert_node')},
        'error_node': {(PY, 'Parser._stack_removal')},
        'error_leaf': {(BASE, 'BaseParser.error_recovery'), (PY, 'Parser.error_recovery')},
        'param': {(PYTREE, '_create_params')},
        'leaf': {(BASE, 'BaseParser.convert_leaf'), (PY, 'Parser.convert_leaf'), (DIFF, '_NodesTree.close')},
    }

    def category(c):
        if err_node in c.mro:
            return 'error_node'
        if err_leaf in c.mro:
            return 'error_leaf'
        if c is param or param in c.mro:
            return 'param'
        if base_node in c.mro:
            return 'node'
        if leaf in c.mro:
            return 'leaf'
        return None
    n_sites = 0
    parts = {cat: ctx.parts_of(keys) for cat, keys in allowed.items()}      # private helpers those functions were split into
    for f in prog.funcs.values():
        for site in ctx.cg.sites[f.key]:
            call = site.node
            built = set()
            r = ctx.cg.callee_object(f, call.func)
            if isinstance(r, Cls) and root in r.mro:
                built.add(r)
            elif isinstance(call.func, (ast.Subscript, ast.Call)) or (
                    isinstance(call.func, ast.Attribute) and call.func.attr in ('default_node', 'default_leaf')):
                ctx.cg.resolve_call(f, call)
                for c in ctx.cg._last_ctor_classes:
                    if root in c.mro:
                        built.add(c)
            for c in sorted(built, key=lambda c: c.name):
                cat = category(c)
                if cat is None:
                    continue
                n_sites += 1
                ok = f.key in allowed[cat] or f.key in parts[cat]
                rep.ob('PAR-4', f.mod.rel, f.qual, '%s(...) [%s]' % (c.name, cat), ok,
                       '%s %s constructed outside %s' % (cat, c.name, sorted(q for _, q in allowed[cat])))
    rep.minimum('PAR-4', 12)


# ---------------------------------------------------------------------------
def guarded_by_eq(cfg, target, left_suffix, value):
    """``target`` is reachable only when `<...left_suffix> == value` holds (written with == or !=)."""
    removed = set()
    for t in cfg.nodes:
        if t.kind == 'test' and isinstance(t.ast, ast.Compare) and len(t.ast.ops) == 1 \
                and isinstance(t.ast.ops[0], (ast.Eq, ast.NotEq)):
            l, r = t.ast.left, t.ast.comparators[0]
            if isinstance(l, ast.Constant):
                l, r = r, l
            if norm(l).endswith(left_suffix) and isinstance(r, ast.Constant) and r.value == value:
                removed.add((t, 'T' if isinstance(t.ast.ops[0], ast.Eq) else 'F'))
    return bool(removed) and target not in reachable_with_edges_removed(cfg, removed)


def recovery_helpers(ctx):
    """Parser.error_recovery plus the methods of Parser that are only called from it (transitively)."""
    prog = ctx.prog
    root = prog.func(PY, 'Parser.error_recovery')
    cls = prog.cls(PY, 'Parser')
    callers = {}
    for g in prog.funcs.values():
        for site in ctx.cg.sites[g.key]:
            for t in site.targets:
                callers.setdefault(t.key, set()).add(g.key)
    ok = {root.key}
    changed = True
    while changed:
        changed = False
        for m in cls.methods.values():
            if m.key in ok or m.name in ('parse', '__init__', 'convert_node', 'convert_leaf', '_recovery_tokenize'):
                continue
            cs = callers.get(m.key, set())
            if cs and cs <= ok:
                ok.add(m.key)
                changed = True
    return ok


def par_5(ctx, rep):
    rep.rule('PAR-5', 'the DFA state of a stack entry is changed only by plan application and by the two enumerated '
                      'recovery shortcuts (missing final newline: only for simple_stmt, into an accepting state, without '
                      'pushes; forced stmt arc inside a suite), in error_recovery or a helper only it calls')
    prog = ctx.prog
    found = []
    for rel in (BASE, PY, DIFF):
        mod = prog.mod(rel)
        for n in ast.walk(mod.tree):
            if isinstance(n, (ast.Assign, ast.AugAssign)):
                tg = n.targets if isinstance(n, ast.Assign) else [n.target]
                for t in tg:
                    if isinstance(t, ast.Attribute) and t.attr == 'dfa':
                        found.append((rel, qual_of(mod, n), n))
    helpers = recovery_helpers(ctx)
    for rel, q, n in found:
        if q == 'StackNode.__init__':
            continue
        f = prog.func(rel, q)
        cfg = ctx.cfg(f)
        node = [x for x in cfg.nodes if x.ast is n]
        if not node:
            raise AnalysisError('dfa store not found in CFG of %s' % q)
        node = node[0]
        val = norm(n.value)
        if isinstance(n.value, ast.Name):
            # the stored state went through a local: what reaches this store
            from ..model import reaching_values
            rv = reaching_values(f.node, n.value)
            if len(rv) == 1:
                val = norm(rv[0]).replace(".arcs.get('stmt')", ".arcs['stmt']")
        if q == 'BaseParser._add_token':
            ok = val.endswith('.next_dfa')
            rep.ob('PAR-5', rel, q, norm(n), ok, 'state store in the engine is not a plan application')
        elif f.key in helpers and val.endswith('.next_dfa'):
            ok = only_via(cfg, node, lambda e: norm(e).endswith('next_dfa.is_final'), 'T') and \
                only_via(cfg, node, lambda e: norm(e).endswith('.dfa_pushes'), 'F') and \
                (guarded_by_eq(cfg, node, 'from_rule', 'simple_stmt') or guarded_by_eq(cfg, node, 'nonterminal', 'simple_stmt'))
            rep.ob('PAR-5', rel, q, 'missing-final-newline shortcut: <entry>.dfa = <plan>.next_dfa', ok,
                   'missing-final-newline shortcut is not restricted to simple_stmt / accepting target state / no pushes')
        elif f.key in helpers and "arcs['stmt']" in val:
            ok = guarded_by_eq(cfg, node, 'nonterminal', 'suite') or guarded_by_eq(cfg, node, 'from_rule', 'suite')
            rep.ob('PAR-5', rel, q, "forced stmt arc: <entry>.dfa = <entry>.dfa.arcs['stmt']", ok, 'forced stmt arc outside a suite stack entry')
        else:
            rep.ob('PAR-5', rel, q, norm(n), False, 'parser state forced outside plan application (not an enumerated recovery shortcut)')
    rep.minimum('PAR-5', 3)


# ---------------------------------------------------------------------------
def par_6(ctx, rep):
    rep.rule('PAR-6', 'the error-recovery flag is read at exactly three sites; recovery-only state is written only '
                      'behind the recovery branch; the recovery token filter forwards every token while that state is empty')
    prog = ctx.prog
    reads = []
    for rel, mod in prog.mods.items():
        for n in ast.walk(mod.tree):
            if isinstance(n, ast.Attribute) and n.attr == '_error_recovery' and isinstance(n.ctx, ast.Load):
                reads.append((rel, qual_of(mod, n)))
    want = {(BASE, 'BaseParser.error_recovery'), (PY, 'Parser.parse'), (PY, 'Parser.error_recovery')}
    for r in sorted(set(reads)):
        rep.ob('PAR-6', r[0], r[1], 'read of self._error_recovery', r in want,
               'the recovery flag influences %s: strict and recovering parses can diverge before the first error' % r[1])
    rep.ob('PAR-6', PY, 'Parser', 'reads of self._error_recovery', set(reads) >= want,
           'expected read sites missing: %s' % sorted(want - set(reads)))
    # the recovery-only state by role: the list attribute _recovery_tokenize pops from (indent levels whose DEDENT is to be
    # swallowed) and the counter attribute it increments / decrements
    rt0 = prog.func(PY, 'Parser._recovery_tokenize')
    OMIT = COUNTER = None
    for n in walk_own(rt0.node):
        if isinstance(n, ast.Call) and is_method_call(n, 'pop') and not n.args:
            recv = n.func.value
            if isinstance(recv, ast.Name):
                from ..model import reaching_values
                vals = reaching_values(rt0.node, recv) or [a.value for a in walk_own(rt0.node) if isinstance(a, ast.Assign)
                                                         and any(isinstance(t, ast.Name) and t.id == recv.id for t in a.targets)]
                recv = vals[0] if vals else recv
            if isinstance(recv, ast.Attribute) and norm(recv.value) == 'self':
                OMIT = recv.attr
        if isinstance(n, ast.AugAssign) and isinstance(n.target, ast.Attribute) and norm(n.target.value) == 'self' \
                and isinstance(n.op, (ast.Add, ast.Sub)):
            COUNTER = n.target.attr
        if isinstance(n, ast.Assign) and len(n.targets) == 1 and isinstance(n.targets[0], ast.Attribute) \
                and norm(n.targets[0].value) == 'self' and isinstance(n.value, ast.BinOp) \
                and isinstance(n.value.op, (ast.Add, ast.Sub)) and COUNTER is None:
            COUNTER = n.targets[0].attr
    if OMIT is None:
        raise AnalysisError('PAR-6: the list of omitted dedents (self.<attr>.pop() in _recovery_tokenize) was not found')
    COUNTER = COUNTER or '_indent_counter'
    # Parser.error_recovery: writes to the omit list only behind the flag test
    f = prog.func(PY, 'Parser.error_recovery')
    cfg = ctx.cfg(f)
    flag = lambda e: isinstance(e, ast.Attribute) and e.attr == '_error_recovery'
    for n in cfg.nodes:
        txt = ' '.join(norm(e) for e in node_exprs(n))
        if OMIT in txt and n.kind == 'stmt':
            ok = only_via(cfg, n, flag, 'T')
            rep.ob('PAR-6', PY, f.qual, head(n.stmt), ok, 'recovery-only state touched in strict mode')
    # strict exit: the super().error_recovery call happens exactly under `not flag`
    sup = nodes_calling(cfg, lambda c: is_method_call(c, 'error_recovery') and 'super()' in norm(c.func))
    for n in sup:
        rep.ob('PAR-6', PY, f.qual, head(n.stmt), only_via(cfg, n, flag, 'F'),
               'strict-mode exit is not guarded by the recovery flag')
    if not sup:
        rep.ob('PAR-6', PY, f.qual, 'return super().error_recovery(token)', False, 'strict-mode exit vanished')
    # everything after the flag test must be unreachable in strict mode
    # (= the F edge of the flag test leads only to the super() call and the exit)
    # other writers of the recovery-only state
    for g in prog.funcs.values():
        if g.mod.rel != PY or g.qual in ('Parser.error_recovery', 'Parser.__init__', 'Parser._recovery_tokenize'):
            continue
        if any(isinstance(n, ast.Attribute) and n.attr in (OMIT, COUNTER) for n in ast.walk(g.node)):
            rep.ob('PAR-6', PY, g.qual, 'use of recovery-only state', False, 'recovery-only state used outside the recovery path')
    # _recovery_tokenize is only entered under the flag
    p = prog.func(PY, 'Parser.parse')
    pc = ctx.cfg(p)
    for n in nodes_calling(pc, lambda c: is_method_call(c, '_recovery_tokenize')):
        rep.ob('PAR-6', PY, p.qual, head(n.stmt), only_via(pc, n, flag, 'T'), 'token filter installed in strict mode')
    # inertness: a token is dropped only when the omit list is non-empty
    rt = prog.func(PY, 'Parser._recovery_tokenize')
    rc = ctx.cfg(rt)
    yields = [n for n in rc.nodes if n.kind == 'stmt' and isinstance(n.ast, ast.Expr) and isinstance(n.ast.value, ast.Yield)]
    nexts = [n for n in rc.nodes if n.kind in ('next0', 'next')]
    body_entries = {s for n in nexts for s, lab in n.succ if lab == 'next'}
    omit_aliases = {'self.' + OMIT}
    for n in walk_own(rt.node):
        if isinstance(n, ast.Assign) and norm(n.value) == 'self.' + OMIT:
            omit_aliases |= {norm(t) for t in n.targets}
    def implies_nonempty(e):
        # e true  =>  the omit list is non-empty
        if norm(e) in omit_aliases:
            return True
        if isinstance(e, ast.Call) and norm(e.func) == 'bool' and len(e.args) == 1 and norm(e.args[0]) in omit_aliases:
            return True
        if isinstance(e, ast.Compare) and len(e.ops) == 1 and isinstance(e.ops[0], (ast.Gt, ast.NotEq)) \
                and norm(e.left) in {'len(%s)' % a for a in omit_aliases} and norm(e.comparators[0]) == '0':
            return True
        if isinstance(e, ast.BoolOp) and isinstance(e.op, ast.And):
            return any(implies_nonempty(v) for v in e.values)
        return False
    flags = set()
    for n in walk_own(rt.node):
        if isinstance(n, ast.Assign) and len(n.targets) == 1 and isinstance(n.targets[0], ast.Name) and implies_nonempty(n.value):
            others = [a for a in walk_own(rt.node) if isinstance(a, ast.Assign) and a is not n
                      and any(isinstance(t, ast.Name) and t.id == n.targets[0].id for t in a.targets)]
            if not others:
                flags.add(n.targets[0].id)
    nonempty_tests = [n for n in rc.nodes if n.kind == 'test' and (implies_nonempty(n.ast) or norm(n.ast) in flags)]
    removed = {(t, 'T') for t in nonempty_tests}
    # path from loop body entry back to a 'next' node avoiding yields and avoiding T edges of non-empty tests
    bad = None
    for start in body_entries:
        seen = {start}
        todo = [start]
        while todo and bad is None:
            x = todo.pop()
            if x in yields:
                continue
            for s, lab in x.succ:
                if (x, lab) in removed or lab == 'exc':
                    continue
                if s.kind == 'next':
                    bad = x
                    break
                if s not in seen:
                    seen.add(s)
                    todo.append(s)
    rep.ob('PAR-6', PY, rt.qual, 'every token is forwarded unless the omit list is non-empty', bad is None and bool(yields) and bool(nonempty_tests),
           'a token can be dropped by the recovery filter although no indent was discarded (at %s)' % (head(bad.stmt) if bad is not None else '?'))
    # PAR-6b: once strict mode has raised, the recovering parser must mark an error on every path: an error node
    # (a true result of _stack_removal, see PAR-7) or an error leaf appended to the stack
    flag_tests = [t for t in cfg.nodes if t.kind == 'test' and flag(t.ast)]
    starts = [s2 for t in flag_tests for s2, lab in t.succ if lab == 'T']
    marking = set()
    for n in cfg.nodes:
        if n.kind == 'stmt' and calls_in(n, lambda c: is_method_call(c, 'append') and norm(c.func.value).endswith('.nodes')
                                         and 'error_leaf' in norm(c)):
            marking.add(n)
    seen_ = set()
    todo_ = list(starts)
    unmarked = None
    prev_ = {}
    while todo_:
        x = todo_.pop()
        if x in seen_:
            continue
        seen_.add(x)
        if x is cfg.exit:
            unmarked = x
            break
        if x in marking:
            continue
        for s2, lab in x.succ:
            if lab == 'exc':
                continue
            if x.kind == 'test' and isinstance(x.ast, ast.Call) and is_method_call(x.ast, '_stack_removal') and lab == 'T':
                continue        # an error node was created
            if s2 not in seen_:
                prev_.setdefault(s2, x)
                todo_.append(s2)
    trail_ = []
    k = unmarked
    while k is not None and k in prev_:
        k = prev_[k]
        if k.stmt is not None:
            trail_.append(head(k.stmt))
    rep.ob('PAR-6', PY, f.qual, 'recovery-only region: every path creates an error node or an error leaf', bool(starts) and unmarked is None,
           'after strict mode has raised, the recovering parser can accept the token without recording an error: %s'
           % ' <- '.join(trail_[:5]), witness=trail_[:6] or None)
    # strict mode builds its error leaf from the token fields
    b = prog.func(BASE, 'BaseParser.error_recovery')
    ok = False
    for n in walk_own(b.node):
        if isinstance(n, ast.Call) and norm(n.func).endswith('ErrorLeaf'):
            ok = [norm(a) for a in n.args] == ['type_', 'value', 'start_pos', 'prefix']
    rep.ob('PAR-6', BASE, b.qual, 'tree.ErrorLeaf(type_, value, start_pos, prefix)', ok,
           'strict-mode error leaf is not built from the offending token')
    rep.minimum('PAR-6', 8)


# ---------------------------------------------------------------------------
def par_7(ctx, rep):
    rep.rule('PAR-7', '_stack_removal deletes exactly the stack slice whose nodes it gathered, and re-homes the gathered '
                      'nodes in one error node appended to the entry below')
    f = ctx.prog.func(PY, 'Parser._stack_removal')
    gather = None
    gathered_var = None
    for n in walk_own(f.node):
        if isinstance(n, ast.Assign) and isinstance(n.value, ast.ListComp):
            lc = n.value
            if len(lc.generators) == 2 and norm(lc.generators[1].iter).endswith('.nodes') \
                    and isinstance(lc.generators[0].iter, ast.Subscript) \
                    and norm(lc.elt) == norm(lc.generators[1].target) \
                    and not lc.generators[0].ifs and not lc.generators[1].ifs:
                gather = norm(lc.generators[0].iter)
                gathered_var = norm(n.targets[0])
    rep.ob('PAR-7', PY, f.qual, 'gather: all nodes of stack[start:]', gather is not None,
           'the comprehension that gathers every node of the discarded stack entries was not found (filtering drops text)')
    deleted = None
    for n in walk_own(f.node):
        if isinstance(n, ast.Assign) and isinstance(n.targets[0], ast.Subscript) \
                and isinstance(n.targets[0].slice, ast.Slice) and norm(n.value) == '[]':
            deleted = norm(n.targets[0])
        if isinstance(n, ast.Delete) and isinstance(n.targets[0], ast.Subscript):
            deleted = norm(n.targets[0])
    rep.ob('PAR-7', PY, f.qual, 'delete: %s' % deleted, gather is not None and deleted == gather,
           'deleted slice %s differs from gathered slice %s' % (deleted, gather))
    # error node from the gathered list appended to the entry below the slice
    ok = False
    for n in walk_own(f.node):
        if isinstance(n, ast.If) and gathered_var and norm(n.test) == gathered_var:
            built = None
            for s in n.body:
                if isinstance(s, ast.Assign) and isinstance(s.value, ast.Call) and norm(s.value.func).endswith('ErrorNode') \
                        and [norm(a) for a in s.value.args] == [gathered_var]:
                    built = norm(s.targets[0])
                if built and isinstance(s, ast.Expr) and isinstance(s.value, ast.Call) and is_method_call(s.value, 'append') \
                        and norm(s.value.func.value).endswith('.nodes') and [norm(a) for a in s.value.args] == [built]:
                    lower = gather.replace('[', '[', 1) if gather else ''
                    # receiver must index the stack just below the slice start: X[start - 1]
                    start = gather[gather.rindex('[') + 1:gather.rindex(':')] if gather else '?'
                    ok = ('[%s - 1]' % start) in norm(s.value.func.value)
    rep.ob('PAR-7', PY, f.qual, 'if %s: append ErrorNode(%s) below the slice' % (gathered_var, gathered_var), ok,
           'gathered nodes are not re-homed in one error node on the stack entry below the discarded slice')
    # the deletion must not be reachable with gathered nodes un-homed: the If has no else/return in between
    cfg = ctx.cfg(f)
    dom = cfg.dominators()

    def is_delete(a):
        return (isinstance(a, ast.Delete) and isinstance(a.targets[0], ast.Subscript)) or \
            (isinstance(a, ast.Assign) and isinstance(a.targets[0], ast.Subscript)
             and isinstance(a.targets[0].slice, ast.Slice) and norm(a.value) == '[]')
    dels = [n for n in cfg.nodes if n.kind == 'stmt' and is_delete(n.ast)]
    rets = [n for n in cfg.nodes if n.kind == 'stmt' and isinstance(n.ast, ast.Return)]
    ok = bool(rets) and bool(dels) and all(any(d in dom[r] for d in dels) for r in rets)
    rep.ob('PAR-7', PY, f.qual, 'every return comes after the deletion of the slice', ok,
           '_stack_removal can return without having removed the discarded stack entries')


# ---------------------------------------------------------------------------
def par_9(ctx, rep):
    rep.rule('PAR-9', 'the lower bound of the slice _stack_removal deletes is >= 1 at every call (index from '
                      'enumerate, plus a positive constant): the file-level stack entry is never discarded')
    prog = ctx.prog
    n_calls = 0
    for f in prog.funcs.values():
        if f.mod.rel not in (BASE, PY, DIFF):
            continue
        for n in walk_own(f.node):
            if isinstance(n, ast.Call) and is_method_call(n, '_stack_removal'):
                n_calls += 1
                arg = n.args[0] if n.args else None
                ok = False
                why = 'argument is not <enumerate index> + <positive constant>'
                if isinstance(arg, ast.BinOp) and isinstance(arg.op, ast.Add) and isinstance(arg.right, ast.Constant) \
                        and isinstance(arg.right.value, int) and arg.right.value >= 1 and isinstance(arg.left, ast.Name):
                    ok, why = _is_enumerate_index(ctx, f, arg.left.id)
                rep.ob('PAR-9', f.mod.rel, f.qual, norm(n), ok, why)
    rep.minimum('PAR-9', 1)


def _nonneg_range(it):
    """range(n) / range(a, b) with a >= 0 / range(a, -1, -1): every value is a non-negative index"""
    if not (isinstance(it, ast.Call) and norm(it.func) == 'range' and 1 <= len(it.args) <= 3):
        return False
    a = it.args
    if len(a) == 1:
        return True
    def const(e):
        if isinstance(e, ast.Constant) and isinstance(e.value, int):
            return e.value
        if isinstance(e, ast.UnaryOp) and isinstance(e.op, ast.USub) and isinstance(e.operand, ast.Constant):
            return -e.operand.value
        return None
    if len(a) == 2:
        return const(a[0]) is not None and const(a[0]) >= 0
    step = const(a[2])
    if step is not None and step < 0:
        return const(a[1]) is not None and const(a[1]) >= -1        # counting down, stops before a[1] >= -1
    return const(a[0]) is not None and const(a[0]) >= 0


def _is_enumerate_index(ctx, f, name, depth=0):
    """name (local of f) is only ever bound to the index element of a for-loop over enumerate(...)."""
    if depth > 3:
        return False, 'index provenance too deep'
    binds = []
    for n in walk_own(f.node):
        if isinstance(n, ast.Assign):
            for t in n.targets:
                if isinstance(t, ast.Name) and t.id == name:
                    binds.append(('assign', n.value))
                elif isinstance(t, (ast.Tuple, ast.List)) and any(isinstance(e, ast.Name) and e.id == name for e in t.elts):
                    binds.append(('other', n))
        elif isinstance(n, ast.AugAssign) and isinstance(n.target, ast.Name) and n.target.id == name:
            binds.append(('other', n))
        elif isinstance(n, (ast.For, ast.AsyncFor)):
            t = n.target
            if isinstance(t, ast.Name) and t.id == name and _nonneg_range(n.iter):
                binds.append(('range', n.iter))
            elif isinstance(t, ast.Tuple) and t.elts and isinstance(t.elts[0], ast.Name) and t.elts[0].id == name:
                binds.append(('for0', n.iter))
            elif any(isinstance(x, ast.Name) and x.id == name for x in ast.walk(t)):
                binds.append(('other', n))
    if not binds:
        return False, '%s is never bound' % name
    for kind, v in binds:
        if kind == 'range':
            continue
        if kind == 'for0':
            if 'enumerate(' not in norm(v):
                return False, 'loop index %s does not come from enumerate' % name
        elif kind == 'assign' and isinstance(v, ast.Call) and isinstance(v.func, ast.Name):
            callee = ctx.cg.lookup_name(f, v.func.id)
            if not isinstance(callee, Func):
                return False, '%s assigned from unknown call' % name
            rets = [r for r in walk_own(callee.node) if isinstance(r, ast.Return)]
            if not rets:
                return False, 'callee never returns'
            for r in rets:
                if not isinstance(r.value, ast.Name):
                    return False, 'callee returns a non-name'
                ok, why = _is_enumerate_index(ctx, callee, r.value.id, depth + 1)
                if not ok:
                    return ok, why
        else:
            return False, '%s bound by %s' % (name, norm(v) if isinstance(v, ast.AST) else v)
    return True, ''


# ---------------------------------------------------------------------------
def _bind_call(call, fn, skip_self=True):
    """Map parameter name -> argument expression for a call of fn (positional + keyword)."""
    a = fn.node.args
    params = [x.arg for x in a.posonlyargs + a.args]
    if skip_self and params:
        params = params[1:]
    out = {}
    for i, arg in enumerate(call.args):
        if isinstance(arg, ast.Starred):
            return None
        if i < len(params):
            out[params[i]] = arg
    for kw in call.keywords:
        if kw.arg is None:
            return None
        out[kw.arg] = kw.value
    return out


def _role(name):
    n = name.rstrip('_')
    return {'typ': 'type', 'type_': 'type', 'string': 'value', 'token_type': 'type'}.get(n, n)


def _is_top_of_stack(f, recv):
    """``recv`` (the object whose .nodes is appended to) is the top stack entry: <stack>[-1] itself, or a local that is only
    ever assigned <stack>[-1] or a fresh entry that the next statement pushes (t = StackNode(..); stack.append(t))."""
    from ..model import xnorm, block_of
    t = xnorm(f.node, recv)
    if t in ('stack[-1]', 'self.stack[-1]'):
        return True
    if not isinstance(recv, ast.Name):
        return False
    assigns = [a for a in walk_own(f.node) if isinstance(a, ast.Assign)
               and any(isinstance(x, ast.Name) and x.id == recv.id for x in a.targets)]
    if not assigns:
        return False
    for a in assigns:
        if len(a.targets) != 1:
            return False
        if xnorm(f.node, a.value) in ('stack[-1]', 'self.stack[-1]'):
            continue
        blk = block_of(a)
        i = [b is a for b in blk].index(True) if blk else -1
        nxt = blk[i + 1] if blk and i + 1 < len(blk) else None
        pushed = isinstance(nxt, ast.Expr) and isinstance(nxt.value, ast.Call) and is_method_call(nxt.value, 'append') \
            and xnorm(f.node, nxt.value.func.value) in ('stack', 'self.stack') and [norm(x) for x in nxt.value.args] == [recv.id]
        if not (isinstance(a.value, ast.Call) and pushed):
            return False
    return True


def _par_1_split(ctx, rep, f, cfg, h, leaf_nodes, appends):
    """_add_token split in two: `plan = self._helper(..., token)` where the helper pops until a plan is found and returns it,
    or calls error_recovery(token) and returns None; the caller returns at once when it gets None.  The consume-exactly-once
    argument then reads: in the helper None is returned exactly on the ways through error_recovery; in the caller the
    None branch leaves without touching the stack and every other way to the exit appends the one converted leaf.
    Returns False when the code does not have this shape (the caller then fails closed)."""
    hcfg = ctx.cfg(h)
    hrec = nodes_calling(hcfg, lambda c: is_method_call(c, 'error_recovery'))
    calls = [n for n in cfg.nodes if n.kind == 'stmt' and isinstance(n.ast, ast.Assign) and len(n.ast.targets) == 1
             and isinstance(n.ast.targets[0], ast.Name) and isinstance(n.ast.value, ast.Call)
             and is_method_call(n.ast.value, h.name)]
    if len(hrec) != 1 or len(calls) != 1 or len(leaf_nodes) != 1 or len(appends) != 1:
        return False
    var = calls[0].ast.targets[0].id
    none_tests = [n for n in cfg.nodes if n.kind == 'test' and norm(n.ast) in ('%s is None' % var, '%s is not None' % var)]
    if len(none_tests) != 1:
        return False
    t = none_tests[0]
    none_label = 'T' if norm(t.ast).endswith('is None') else 'F'
    # ---- helper: None <=> recovery ---------------------------------------------------------------------------
    rets = [n for n in hcfg.nodes if n.kind == 'stmt' and isinstance(n.ast, ast.Return)]
    none_rets = [n for n in rets if n.ast.value is None or (isinstance(n.ast.value, ast.Constant) and n.ast.value.value is None)]
    other_rets = [n for n in rets if n not in none_rets]
    rc = calls_in(hrec[0], lambda c: is_method_call(c, 'error_recovery'))[0]
    tok_param = [a for a in h.params() if _role(a) == 'token' or a == 'token']
    rep.ob('PAR-1', BASE, h.qual, norm(rc), bool(tok_param) and [norm(a) for a in rc.args] == [tok_param[0]],
           'error_recovery is not handed the offending token')
    # every way to a `return None` (or off the end of the helper) passes the recovery call
    p = find_path(hcfg, [hcfg.entry], lambda n: n in none_rets, lambda n: n is hrec[0], follow_exc=True)
    falls = find_path(hcfg, [hcfg.entry], lambda n: n is hcfg.exit, lambda n: n is hrec[0] or n in rets, follow_exc=True)
    rep.ob('PAR-1', BASE, h.qual, 'None is returned only after error_recovery took the token', p is None and falls is None,
           'the helper can answer "no plan" without the token having been handed to error_recovery: %s'
           % ' -> '.join(path_text(p or falls or [])), witness=path_text(p or falls) if (p or falls) else None)
    # after the recovery call nothing but `return None`
    after = hcfg.reachable(start=hrec[0], labels_blocked=('exc',))
    bad_after = [n for n in other_rets if n in after]
    again = [n for n in after if n is not hrec[0] and calls_in(n, lambda c: is_method_call(c, 'error_recovery') or is_method_call(c, '_pop'))]
    rep.ob('PAR-1', BASE, h.qual, 'after error_recovery the helper returns None', not bad_after and not again and bool(none_rets),
           'after the token went to error_recovery the helper goes on (%s): the token is consumed a second time'
           % (head((bad_after + again)[0].stmt) if (bad_after + again) else 'no return None'))
    # ---- caller -------------------------------------------------------------------------------------------------
    ap = calls_in(appends[0], lambda c: is_method_call(c, 'append'))[0]
    leaf_var = None
    st = leaf_nodes[0].ast
    if isinstance(st, ast.Assign) and isinstance(st.targets[0], ast.Name):
        leaf_var = st.targets[0].id
    rep.ob('PAR-1', BASE, f.qual, norm(ap), leaf_var is not None and [norm(a) for a in ap.args] == [leaf_var]
           and isinstance(ap.func.value, ast.Attribute) and _is_top_of_stack(f, ap.func.value.value),
           'the converted leaf is not what gets appended to the top stack entry')
    none_succ = [s2 for s2, lab in t.succ if lab == none_label]
    # the None branch leaves without consuming again
    reach_none = set()
    for s2 in none_succ:
        reach_none |= cfg.reachable(start=s2, labels_blocked=('exc',)) | {s2}
    touched = [n for n in reach_none if n is appends[0] or n is leaf_nodes[0] or n is calls[0]
               or calls_in(n, lambda c: is_method_call(c, 'append') or is_method_call(c, '_pop') or is_method_call(c, 'error_recovery'))]
    rep.ob('PAR-1', BASE, f.qual, 'after "no plan" (%s) the token is not consumed again' % norm(t.ast), not touched,
           'the token was handed to error_recovery by %s and is consumed again: %s' % (h.name, head(touched[0].stmt) if touched else ''))
    # every other way to the exit appends the leaf
    removed = {(t, none_label)}
    seen, todo = {cfg.entry}, [cfg.entry]
    leak = False
    while todo:
        n = todo.pop()
        if n is cfg.exit:
            leak = True
            break
        if n is appends[0]:
            continue
        for s2, lab in n.succ:
            if lab == 'exc' or (n, lab) in removed or s2 in seen:
                continue
            seen.add(s2)
            todo.append(s2)
    rep.ob('PAR-1', BASE, f.qual, 'every normal exit consumes the token', not leak,
           'path to a normal exit that neither appends the leaf nor went through error_recovery in %s' % h.name)
    # the helper is called once, before the append, with the token
    hc = calls[0].ast.value
    rep.ob('PAR-1', BASE, f.qual, norm(hc), any(norm(a) == 'token' for a in hc.args) and appends[0] in cfg.reachable(start=calls[0], labels_blocked=('exc',))
           and calls[0] not in (cfg.reachable(start=appends[0], labels_blocked=('exc',)) - {appends[0]}),
           'the helper is not handed the token, or runs again after the leaf was appended')
    # destructuring + argument roles of convert_leaf (as in the unsplit form)
    unpack = [n for n in walk_own(f.node) if isinstance(n, ast.Assign) and norm(n.value) == 'token' and isinstance(n.targets[0], ast.Tuple)]
    roles_ok = bool(unpack) and [_role(norm(e)) for e in unpack[0].targets[0].elts] == ['type', 'value', 'start_pos', 'prefix']
    rep.ob('PAR-1', BASE, f.qual, norm(unpack[0]) if unpack else 'type_, value, start_pos, prefix = token', roles_ok,
           'token fields are not unpacked in (type, value, start_pos, prefix) order')
    cl = calls_in(leaf_nodes[0], lambda c: is_method_call(c, 'convert_leaf'))[0]
    for callee in ctx.cg._methods_in_hierarchy(ctx.prog.cls(BASE, 'BaseParser'), 'convert_leaf'):
        b = _bind_call(cl, callee)
        good = b is not None and all(isinstance(v, ast.Name) and _role(v.id) == _role(k) for k, v in b.items()) and len(b) == 4
        rep.ob('PAR-1', callee.mod.rel, callee.qual, norm(cl), good,
               'argument/parameter roles differ: %s' % ({k: norm(v) for k, v in (b or {}).items()},))
    return True


def par_1(ctx, rep):
    rep.rule('PAR-1', 'every token is consumed exactly once on every non-raising path of _add_token / error_recovery: '
                      'as one leaf appended to the top stack entry, by one re-feed through _add_token, or as one error '
                      'leaf; the token fields reach the leaf constructors in the positions their __init__ binds')
    prog = ctx.prog
    # ---- BaseParser._add_token ------------------------------------------------
    f = prog.func(BASE, 'BaseParser._add_token')
    cfg = ctx.cfg(f)
    leaf_nodes = nodes_calling(cfg, lambda c: is_method_call(c, 'convert_leaf'))
    appends = [n for n in cfg.nodes if n.kind == 'stmt' and calls_in(n, lambda c: is_method_call(c, 'append') and norm(c.func.value).endswith('.nodes'))]
    recov = nodes_calling(cfg, lambda c: is_method_call(c, 'error_recovery'))
    if not recov:
        for k in sorted(ctx.parts_of([f.key])):
            h = prog.funcs[k]
            if any(isinstance(c, ast.Call) and is_method_call(c, 'error_recovery') for c in walk_own(h.node)):
                if _par_1_split(ctx, rep, f, cfg, h, leaf_nodes, appends):
                    recov = 'in-helper'
                    break
                raise AnalysisError('PAR-1: the call of error_recovery moved from _add_token into its helper %s in a shape '
                                    'that is not modelled' % h.qual)
    if recov == 'in-helper':
        ok = False          # the obligations of the split form have been recorded by _par_1_split
    else:
        ok = None
    if ok is None:
        ok = len(leaf_nodes) == 1 and len(appends) == 1 and len(recov) == 1
        rep.ob('PAR-1', BASE, f.qual, 'one convert_leaf, one append to .nodes, one error_recovery call', ok,
               'found %d convert_leaf, %d appends, %d error_recovery calls' % (len(leaf_nodes), len(appends), len(recov)))
    if ok:
        leaf_var = None
        st = leaf_nodes[0].ast
        if isinstance(st, ast.Assign) and isinstance(st.targets[0], ast.Name):
            leaf_var = st.targets[0].id
        ap = calls_in(appends[0], lambda c: is_method_call(c, 'append'))[0]
        rep.ob('PAR-1', BASE, f.qual, norm(ap), leaf_var is not None and [norm(a) for a in ap.args] == [leaf_var]
               and isinstance(ap.func.value, ast.Attribute) and _is_top_of_stack(f, ap.func.value.value),
               'the converted leaf is not what gets appended to the top stack entry')
        consume = {appends[0], recov[0]}
        p = find_path(cfg, [cfg.entry], lambda n: n is cfg.exit, lambda n: n in consume)
        rep.ob('PAR-1', BASE, f.qual, 'every normal exit consumes the token', p is None,
               'path to a normal exit that neither appends the leaf nor calls error_recovery: %s'
               % (' -> '.join(path_text(p)) if p else ''), witness=path_text(p) if p else None)
        # at most once: from a consuming node no other consuming node is reachable
        twice = None
        for c in consume:
            reach = cfg.reachable(start=c, labels_blocked=('exc',))
            others = [o for o in consume if o in reach and (o is not c or any(s is c for s in _succ_closure(c)))]
            if others:
                twice = (c, others[0])
        rep.ob('PAR-1', BASE, f.qual, 'the token is consumed at most once', twice is None,
               'token can be consumed twice: %s then %s' % ((head(twice[0].stmt), head(twice[1].stmt)) if twice else ('', '')))
        # recovery call passes the token and is followed by return
        rc = calls_in(recov[0], lambda c: is_method_call(c, 'error_recovery'))[0]
        rep.ob('PAR-1', BASE, f.qual, norm(rc), [norm(a) for a in rc.args] == ['token'],
               'error_recovery is not handed the offending token')
        # destructuring + argument roles of convert_leaf
        unpack = [n for n in walk_own(f.node) if isinstance(n, ast.Assign) and norm(n.value) == 'token'
                  and isinstance(n.targets[0], ast.Tuple)]
        roles_ok = bool(unpack) and [_role(norm(e)) for e in unpack[0].targets[0].elts] == ['type', 'value', 'start_pos', 'prefix']
        rep.ob('PAR-1', BASE, f.qual, norm(unpack[0]) if unpack else 'type_, value, start_pos, prefix = token', roles_ok,
               'token fields are not unpacked in (type, value, start_pos, prefix) order')
        cl = calls_in(leaf_nodes[0], lambda c: is_method_call(c, 'convert_leaf'))[0]
        for callee in ctx.cg._methods_in_hierarchy(prog.cls(BASE, 'BaseParser'), 'convert_leaf'):
            b = _bind_call(cl, callee)
            good = b is not None and all(isinstance(v, ast.Name) and _role(v.id) == _role(k) for k, v in b.items()) and len(b) == 4
            rep.ob('PAR-1', callee.mod.rel, callee.qual, norm(cl), good,
                   'argument/parameter roles differ: %s' % ({k: norm(v) for k, v in (b or {}).items()},))
    # ---- leaf constructors inside convert_leaf / error_recovery -----------------
    root, classes = tree_hierarchy(ctx)
    for rel, qual in ((BASE, 'BaseParser.convert_leaf'), (PY, 'Parser.convert_leaf'),
                      (BASE, 'BaseParser.error_recovery'), (PY, 'Parser.error_recovery')):
        g = prog.func(rel, qual)
        for site in ctx.cg.sites[g.key]:
            call = site.node
            ctx.cg.resolve_call(g, call)
            built = [c for c in ctx.cg._last_ctor_classes if root in c.mro]
            r = ctx.cg.callee_object(g, call.func)
            if isinstance(r, Cls) and root in r.mro:
                built = [r]
            for c in built:
                init = c.lookup('__init__')
                if init is None:
                    continue
                b = _bind_call(call, init)
                want = {'value', 'start_pos', 'prefix'}
                good = b is not None and want <= set(b) and all(
                    _role(k) == _role(_leafname(v)) for k, v in b.items() if k in want | {'type', 'token_type'})
                rep.ob('PAR-1', rel, qual, '%s -> %s.__init__' % (norm(call), c.name), good,
                       'token field reaches the wrong leaf attribute: %s' % ({k: norm(v) for k, v in (b or {}).items()},))
    # ---- Parser.error_recovery ----------------------------------------------------
    f = prog.func(PY, 'Parser.error_recovery')
    cfg = ctx.cfg(f)
    tokp = f.params()[1]
    summaries = _consumer_summaries(ctx, f, tokp)
    direct = {}
    for n in cfg.nodes:
        for c in calls_in(n, lambda c: True):
            if (is_method_call(c, '_add_token') or (is_method_call(c, 'error_recovery') and 'super()' in norm(c.func))) \
                    and [norm(a) for a in c.args] == [tokp]:
                direct[n] = c
            elif is_method_call(c, '_add_token') or (is_method_call(c, 'error_recovery') and 'super()' in norm(c.func)):
                rep.ob('PAR-1', PY, f.qual, norm(c), False, 're-feed / strict exit does not pass the same token')
        if n.kind == 'stmt' and calls_in(n, lambda c: is_method_call(c, 'append') and norm(c.func.value).endswith('.nodes')):
            ap = calls_in(n, lambda c: is_method_call(c, 'append'))[0]
            arg = ap.args[0] if ap.args else None
            # the appended object is an error leaf built from the four token fields
            if isinstance(arg, ast.Name) and _is_error_leaf_of(f, arg.id, tokp):
                direct[n] = ap
                rep.ob('PAR-1', PY, f.qual, norm(ap), isinstance(ap.func.value, ast.Attribute) and _is_top_of_stack(f, ap.func.value.value),
                       'error leaf is not appended to the top stack entry')
    cond = {}        # test node -> label under which the helper consumed the token
    for n in cfg.nodes:
        if n.kind == 'test' and isinstance(n.ast, ast.Call) and isinstance(n.ast.func, ast.Attribute) \
                and norm(n.ast.func.value) == 'self' and n.ast.func.attr in summaries:
            if [norm(a) for a in n.ast.args][:1] == [tokp] or tokp in [norm(a) for a in n.ast.args]:
                cond[n] = summaries[n.ast.func.attr]
    # helper calls outside a test position cannot be accounted for
    for n in cfg.nodes:
        if n.kind != 'test':
            for c in calls_in(n, lambda c: isinstance(c.func, ast.Attribute) and norm(c.func.value) == 'self'
                              and c.func.attr in summaries):
                if summaries[c.func.attr] == 'always':
                    direct[n] = c
                else:
                    rep.ob('PAR-1', PY, f.qual, norm(c), False,
                           'helper that consumes the token conditionally is called without testing its result')
    rep.ob('PAR-1', PY, f.qual, 'consumption sites: re-feed / strict exit / error leaf', len(direct) + len(cond) >= 3,
           'found only %d sites' % (len(direct) + len(cond)))
    flow = FactFlow(cfg)
    start = (cfg.entry, frozenset(), 0)
    seen = {start: None}
    todo = [start]
    dropped = twice = None
    while todo:
        st = todo.pop(0)
        node, facts, cnt = st
        if node is cfg.exit:
            if cnt == 0 and dropped is None:
                dropped = st
            continue
        for s2, lab, f2 in flow.successors(node, facts):
            c2 = cnt
            if node in direct:
                c2 = cnt + 1
            elif node in cond and cond[node] == lab:
                c2 = cnt + 1
            if c2 >= 2:
                if twice is None:
                    twice = (st, s2)
                continue
            nxt = (s2, f2, c2)
            if nxt not in seen:
                seen[nxt] = st
                todo.append(nxt)

    def trail(st):
        out = []
        while st is not None:
            out.append(st[0])
            st = seen.get(st)
        return path_text(list(reversed(out)))
    rep.ob('PAR-1', PY, f.qual, 'every normal exit consumes the token', dropped is None,
           'recovery path that drops the token: %s' % (' -> '.join(trail(dropped)) if dropped else ''),
           witness=trail(dropped) if dropped else None)
    rep.ob('PAR-1', PY, f.qual, 'the token is consumed at most once', twice is None,
           'token consumed twice on the path %s' % (' -> '.join(trail(twice[0])) if twice else ''))
    rep.minimum('PAR-1', 14)


def _is_error_leaf_of(f, name, tokp):
    """Local ``name`` is assigned exactly from <ErrorLeaf class>(typ[.name], value, start_pos, prefix) where the
    four names are unpacked from the token."""
    vals = [n.value for n in walk_own(f.node) if isinstance(n, ast.Assign)
            and any(isinstance(t, ast.Name) and t.id == name for t in n.targets)]
    if len(vals) != 1 or not isinstance(vals[0], ast.Call) or not norm(vals[0].func).endswith('ErrorLeaf'):
        return False
    unpack = [n for n in walk_own(f.node) if isinstance(n, ast.Assign) and norm(n.value) == tokp
              and isinstance(n.targets[0], ast.Tuple) and len(n.targets[0].elts) == 4]
    if not unpack:
        return False
    names = [norm(e) for e in unpack[0].targets[0].elts]
    args = [_leafname(a) for a in vals[0].args]
    return args == names


def _consumer_summaries(ctx, f, tokp):
    """Helper methods of the same class that re-feed the token: name -> 'T' | 'F' (consumes exactly when it
    returns a true / false constant) | 'always'.  Helpers that cannot be summarised are reported by the caller
    because they are not in the result (their calls are ordinary nodes and the token count stays unchanged)."""
    cls = ctx.cg.owner_class(f)
    out = {}
    if cls is None:
        return out
    for name, m in cls.methods.items():
        if m is f or name in ('_add_token', 'error_recovery', 'parse'):
            continue
        calls = [c for c in walk_own(m.node) if isinstance(c, ast.Call) and is_method_call(c, '_add_token')]
        if not calls:
            continue
        cfg = ctx.cfg(m)
        consuming = set(nodes_calling(cfg, lambda c: is_method_call(c, '_add_token')))
        rets = [n for n in cfg.nodes if n.kind == 'stmt' and isinstance(n.ast, ast.Return)]
        verdict = {}
        ok = True
        for r in rets:
            v = r.ast.value
            truth = bool(v.value) if isinstance(v, ast.Constant) else (False if v is None else None)
            if truth is None:
                ok = False
                break
            # does every path to this return pass through exactly one consuming node?
            without = r in cfg.reachable(blocked=consuming, labels_blocked=('exc',))
            through = any(r in cfg.reachable(start=c, labels_blocked=('exc',)) for c in consuming)
            if without and through:
                ok = False
                break
            verdict.setdefault(truth, set()).add(through)
        falls_off = cfg.exit in cfg.reachable(blocked=rets, labels_blocked=('exc',))
        if falls_off:
            verdict.setdefault(False, set()).add(cfg.exit in cfg.reachable(blocked=consuming, labels_blocked=('exc',)) is False)
        if not ok:
            continue
        if verdict.get(True) == {True} and verdict.get(False, {False}) == {False}:
            out[name] = 'T'
        elif verdict.get(False) == {True} and verdict.get(True, {False}) == {False}:
            out[name] = 'F'
        elif all(v == {True} for v in verdict.values()) and verdict:
            out[name] = 'always'
    return out


def _leafname(v):
    # typ.name -> typ ; plain names unchanged
    if isinstance(v, ast.Attribute) and v.attr == 'name':
        return norm(v.value)
    return norm(v)


def _succ_closure(n):
    seen = set()
    todo = [s for s, lab in n.succ if lab != 'exc']
    while todo:
        x = todo.pop()
        if x in seen:
            continue
        seen.add(x)
        todo.extend(s for s, lab in x.succ if lab != 'exc')
    return seen


def expand_test(fn_node, test):
    from ..model import expand_aliases
    return expand_aliases(fn_node, test)


def pop_shape(ctx, rep):
    rep.rule('PAR-0', '_pop passes a single child through and otherwise puts every gathered child into one node '
                      'that is appended to the new top of the stack')
    f = ctx.prog.func(BASE, 'BaseParser._pop')
    popped = None
    for n in walk_own(f.node):
        if isinstance(n, ast.Assign) and isinstance(n.value, ast.Call) and is_method_call(n.value, 'pop') \
                and norm(n.value.func.value).endswith('stack') and not n.value.args and isinstance(n.targets[0], ast.Name):
            popped = n.targets[0].id
    appends = [n for n in walk_own(f.node) if isinstance(n, ast.Call) and is_method_call(n, 'append')
               and norm(n.func.value).endswith('stack[-1].nodes')]
    ok = popped is not None and len(appends) == 1 and len(appends[0].args) == 1 and isinstance(appends[0].args[0], ast.Name)
    detail = 'stack pop / single append to the new top not found'
    if ok:
        v = appends[0].args[0].id
        for n in walk_own(f.node):
            if isinstance(n, ast.Assign) and any(isinstance(t, ast.Name) and t.id == v for t in n.targets):
                val = n.value
                from ..model import xnorm
                if isinstance(val, ast.IfExp):
                    # x = A if c else B: both arms, each under its half of the condition
                    arms = [(val.body, norm(expand_test(f.node, val.test)), True), (val.orelse, norm(expand_test(f.node, val.test)), False)]
                    eqs = ('len(%s.nodes) == 1' % popped, '1 == len(%s.nodes)' % popped)
                    nes = ('len(%s.nodes) != 1' % popped, '1 != len(%s.nodes)' % popped)
                    for arm, test_text, pos in arms:
                        at = xnorm(f.node, arm)
                        single_here = (pos and test_text in eqs) or (not pos and test_text in nes)
                        if at == '%s.nodes[0]' % popped:
                            if not single_here:
                                ok, detail = False, 'first child passed through without a test that it is the only child'
                        elif isinstance(arm, ast.Call) and is_method_call(arm, 'convert_node') \
                                and xnorm(f.node, arm.args[-1]) == '%s.nodes' % popped:
                            pass
                        else:
                            ok, detail = False, 'new node built from %s instead of all children of the reduced entry' % norm(arm)
                    continue
                if xnorm(f.node, val) == '%s.nodes[0]' % popped:
                    # must be under len(popped.nodes) == 1
                    p_ = getattr(n, '_parent', None)
                    eq = ('len(%s.nodes) == 1' % popped, '1 == len(%s.nodes)' % popped)
                    ne = ('len(%s.nodes) != 1' % popped, '1 != len(%s.nodes)' % popped, 'not len(%s.nodes) == 1' % popped)
                    good = isinstance(p_, ast.If) and ((n in p_.body and xnorm(f.node, p_.test) in eq)
                                                       or (n in p_.orelse and xnorm(f.node, p_.test) in ne))
                    if not good:
                        ok, detail = False, 'first child passed through without a test that it is the only child'
                elif isinstance(val, ast.Call) and is_method_call(val, 'convert_node') \
                        and xnorm(f.node, val.args[-1]) == '%s.nodes' % popped:
                    pass
                else:
                    ok, detail = False, 'new node built from %s instead of all children of the reduced entry' % norm(val)
    rep.ob('PAR-0', BASE, f.qual, 'reduce: single child passed through, else one node from all children', ok, detail)


def par_10(ctx, rep):
    rep.rule('PAR-10', 'error nodes are attached only to a file_input or suite stack entry: the search for the recovery '
                       'point stops (break) only at such an entry, and the error node goes to the entry just below the '
                       'discarded slice')
    f = ctx.prog.func(PY, 'Parser.error_recovery')
    cs = f.nested.get('current_suite')
    if cs is None:
        # the search may have been inlined, renamed or moved out: the function whose result becomes the index the stack is
        # cut at (the argument of _stack_removal), else error_recovery itself
        cs = f
        cut_names = set()
        for n in walk_own(f.node):
            if isinstance(n, ast.Call) and is_method_call(n, '_stack_removal') and n.args:
                cut_names |= {x.id for x in ast.walk(n.args[0]) if isinstance(x, ast.Name)}
        for n in walk_own(f.node):
            if isinstance(n, ast.Assign) and any(isinstance(t, ast.Name) and t.id in cut_names for t in n.targets) \
                    and isinstance(n.value, ast.Call):
                targets, _how = ctx.cg.resolve_call(f, n.value)
                if len(targets) == 1:
                    cs = targets[0]
    cfg = ctx.cfg(cs)
    breaks = [n for n in cfg.nodes if n.kind == 'stmt' and isinstance(n.ast, ast.Break)]
    if not breaks:
        raise AnalysisError('PAR-10: recovery-point search (loop with break) not found')
    for b in breaks:
        ok = guarded_by_eq(cfg, b, 'nonterminal', 'file_input') or guarded_by_eq(cfg, b, 'nonterminal', 'suite')
        rep.ob('PAR-10', PY, cs.qual, 'break of the recovery-point search', ok,
               'the recovery point can be a stack entry that is neither file_input nor suite: an error node would end up '
               'inside an expression or statement node')
    loops = [n for n in walk_own(cs.node) if isinstance(n, ast.For)]
    import re as _re
    ok = any(('reversed(' in norm(lp.iter) and 'enumerate(' in norm(lp.iter))
             or _re.fullmatch(r'range\(len\(\w+\) - 1, -1, -1\)', norm(lp.iter)) for lp in loops)
    rep.ob('PAR-10', PY, cs.qual, 'search runs from the top of the stack downwards', ok,
           'the recovery point is not the innermost open block')


# ---------------------------------------------------------------------------
# PAR-11: reserved-word lookups are keyed by the token's own text
# ---------------------------------------------------------------------------
def _stores_to(fn_node, name):
    out = []
    for n in walk_own(fn_node):
        if isinstance(n, ast.Name) and n.id == name and isinstance(n.ctx, (ast.Store, ast.Del)):
            out.append(n)
    return out


def _param_origin(f, expr, depth=0):
    """expr is (an alias of) a parameter of f that f never rebinds -> parameter name, else None."""
    if not isinstance(expr, ast.Name) or depth > 3:
        return None
    stores = _stores_to(f.node, expr.id)
    if expr.id in f.params():
        return expr.id if not stores else None
    if len(stores) == 1:
        st = getattr(stores[0], '_parent', None)
        if isinstance(st, ast.Assign) and len(st.targets) == 1 and st.targets[0] is stores[0]:
            return _param_origin(f, st.value, depth + 1)
    return None


def _token_field_index(f, expr):
    """expr is a local bound exactly once, by unpacking a parameter of f (the token tuple) -> its index."""
    if not isinstance(expr, ast.Name):
        return None
    stores = _stores_to(f.node, expr.id)
    if len(stores) != 1:
        return None
    tup = getattr(stores[0], '_parent', None)
    st = getattr(tup, '_parent', None)
    if isinstance(tup, ast.Tuple) and isinstance(st, ast.Assign) and isinstance(st.value, ast.Name) \
            and st.value.id in f.params() and not _stores_to(f.node, st.value.id):
        return [e is stores[0] for e in tup.elts].index(True)
    return None


def par_11(ctx, rep):
    rep.rule('PAR-11', 'every read of the reserved-word table in the parser is keyed by the token\'s own text: the key is a '
                       'parameter the function never rebinds, and every call site passes the second field of the token '
                       'tuple, unmodified (a normalised / case-folded / stripped key makes some non-keyword spell a keyword)')
    sites = 0
    for rel in (BASE, PY):
        mod = ctx.prog.mod(rel)
        for f in mod.funcs.values():
            aliases = set()
            for n in walk_own(f.node):
                if isinstance(n, ast.Assign) and len(n.targets) == 1 and isinstance(n.targets[0], ast.Name) \
                        and isinstance(n.value, ast.Attribute) and n.value.attr == 'reserved_syntax_strings':
                    aliases.add(n.targets[0].id)

            def is_table(e):
                return (isinstance(e, ast.Attribute) and e.attr == 'reserved_syntax_strings') \
                    or (isinstance(e, ast.Name) and e.id in aliases)
            for n in walk_own(f.node):
                key = None
                if isinstance(n, ast.Subscript) and isinstance(n.ctx, ast.Load) and is_table(n.value):
                    key = n.slice
                elif isinstance(n, ast.Compare) and len(n.ops) == 1 and isinstance(n.ops[0], (ast.In, ast.NotIn)) \
                        and is_table(n.comparators[0]):
                    key = n.left
                elif isinstance(n, ast.Call) and isinstance(n.func, ast.Attribute) and n.func.attr == 'get' and n.args \
                        and is_table(n.func.value):
                    key = n.args[0]
                if key is None:
                    continue
                sites += 1
                p = _param_origin(f, key)
                if p is None and _token_field_index(f, key) == 1:
                    # the lookup sits in the function that unpacks the token itself
                    rep.ob('PAR-11', rel, f.qual, norm(n), True, reason='key is the value field of the token tuple, unmodified')
                    continue
                if p is None:
                    rep.ob('PAR-11', rel, f.qual, norm(n), False,
                           'the key %s is not the unmodified text parameter of %s' % (norm(key), f.qual))
                    continue
                # call sites in the parser modules
                idx = f.params().index(p)
                callers = []
                for rel2 in (BASE, PY):
                    mod2 = ctx.prog.mod(rel2)
                    for g in mod2.funcs.values():
                        for c in walk_own(g.node):
                            if not isinstance(c, ast.Call):
                                continue
                            is_meth = isinstance(c.func, ast.Attribute) and c.func.attr == f.name and f.cls is not None
                            is_fn = isinstance(c.func, ast.Name) and c.func.id == f.name and f.cls is None
                            if not (is_meth or is_fn):
                                continue
                            i = idx - 1 if is_meth else idx
                            arg = None
                            if i < len(c.args) and not any(isinstance(a, ast.Starred) for a in c.args[:i + 1]):
                                arg = c.args[i]
                            for kw in c.keywords:
                                if kw.arg == p:
                                    arg = kw.value
                            callers.append((rel2, g, c, arg))
                bad = [(r2, g, c, a) for r2, g, c, a in callers if a is None or _token_field_index(g, a) != 1]
                for r2, g, c, a in bad:
                    rep.ob('PAR-11', r2, g.qual, norm(c), False,
                           'argument %s for the text parameter %r of %s is not the unmodified value field of the token'
                           % (norm(a) if a is not None else '<missing>', p, f.qual))
                if not callers and f.name.startswith('_'):
                    rep.skip('PAR-11', rel, f.qual, norm(n), 'private function without a call site in the parser modules (dead code)')
                    continue
                rep.ob('PAR-11', rel, f.qual, norm(n), bool(callers) and not bad,
                       'no call site of %s found in the parser modules' % f.qual if not callers else '',
                       reason='key is parameter %r; %d call site(s) pass the token value field' % (p, len(callers)))
    rep.minimum('PAR-11', 2, 'reads of reserved_syntax_strings in parser.py / python/parser.py')


# ---------------------------------------------------------------------------
# PAR-12: convert_node names every node after the rule that was reduced
# ---------------------------------------------------------------------------
def par_12(ctx, rep):
    rep.rule('PAR-12', 'whatever convert_node returns is built for the nonterminal it was called with: through the '
                       'node_map entry of that nonterminal, through default_node(nonterminal, ...), or as an explicitly '
                       'named tree class whose type equals the nonterminal the enclosing tests pin down')
    from ..model import Cls
    from ..facts import facts_at
    from .gr import class_type
    import re as _re
    n_funcs = 0
    for rel in (BASE, PY):
        mod = ctx.prog.mod(rel)
        for f in mod.funcs.values():
            if f.name != 'convert_node' or f.cls is None:
                continue
            n_funcs += 1
            params = f.params()
            if len(params) < 3:
                raise AnalysisError('PAR-12: unexpected signature of %s' % f.qual)
            nt = params[1]
            rebound = _stores_to(f.node, nt)
            rep.ob('PAR-12', rel, f.qual, 'parameter %s is never rebound' % nt, not rebound,
                   'convert_node rebinds the nonterminal it names the node after')
            # every construction whose result can be returned
            returned = set()
            for n in walk_own(f.node):
                if isinstance(n, ast.Return) and n.value is not None:
                    if isinstance(n.value, ast.Name):
                        returned.add(n.value.id)
                    else:
                        returned.add(id(n.value))
            sites = []
            for n in walk_own(f.node):
                if isinstance(n, ast.Assign) and any(isinstance(t, ast.Name) and t.id in returned for t in n.targets):
                    sites.append(n.value)
                if isinstance(n, ast.Return) and n.value is not None and id(n.value) in returned:
                    sites.append(n.value)
            for v in sites:
                ok, why = False, 'the returned value is not a node construction the rule understands'
                if isinstance(v, ast.Call):
                    fn = v.func
                    if isinstance(fn, ast.Subscript) and isinstance(fn.value, ast.Attribute) and fn.value.attr == 'node_map':
                        ok = isinstance(fn.slice, ast.Name) and fn.slice.id == nt
                        why = 'the node class is looked up under %s, not under the reduced nonterminal' % norm(fn.slice)
                    elif isinstance(fn, ast.Attribute) and fn.attr == 'default_node':
                        ok = bool(v.args) and isinstance(v.args[0], ast.Name) and v.args[0].id == nt
                        why = 'default_node is given %s as type, not the reduced nonterminal' % (norm(v.args[0]) if v.args else None)
                    else:
                        c = ctx.prog.resolve_class_expr(f.mod, fn)
                        if isinstance(c, Cls):
                            t = class_type(c)
                            pinned = set()
                            for text, positive in facts_at(v, f.node):
                                m = _re.fullmatch(_re.escape(nt) + r" == '([^']*)'", text)
                                if m and positive:
                                    pinned.add(m.group(1))
                            ok = bool(t) and t[0] == 'const' and pinned == {t[1]}
                            why = ('a %s node (type %s) is created while %s was reduced (the tests around it pin the nonterminal to %s)'
                                   % (c.name, t[1] if t else '?', nt, sorted(pinned) or 'nothing'))
                rep.ob('PAR-12', rel, f.qual, norm(v), ok, why)
    rep.minimum('PAR-12', 5)


# ---------------------------------------------------------------------------
# PAR-13: the engine spends no Python frame per reduction
# ---------------------------------------------------------------------------
def par_13(ctx, rep):
    rep.rule('PAR-13', 'the table engine is iterative: every call cycle through BaseParser._add_token passes through an '
                       'error_recovery method (one re-feed per error), never through the reduce / shift path itself - '
                       'otherwise one token that completes n nested rules needs n interpreter frames and deep but valid '
                       'sentences die with RecursionError')
    cg = ctx.cg
    add = ctx.prog.func(BASE, 'BaseParser._add_token')
    recov = {k for k, f in ctx.prog.funcs.items() if f.name == 'error_recovery'}
    # can _add_token reach itself without entering an error_recovery method?
    seen = set()
    todo = [t for t in cg.edges.get(add.key, ()) if t not in recov]
    prev = {}
    hit = None
    while todo:
        k = todo.pop()
        if k == add.key:
            hit = k
            break
        if k in seen:
            continue
        seen.add(k)
        for t in cg.edges.get(k, ()):
            if t not in recov and t not in seen:
                prev.setdefault(t, k)
                todo.append(t)
    direct = add.key in cg.edges.get(add.key, ())
    rep.ob('PAR-13', BASE, add.qual, 'no recursion through the shift / reduce path', not (hit or direct),
           '_add_token can call itself without an error in between (%s): one interpreter frame per reduced rule'
           % ('directly' if direct else 'through %s' % '%s:%s' % prev.get(add.key, ('?', '?'))))
    # the same for the driver loop
    parse = ctx.prog.func(BASE, 'BaseParser.parse')
    rep.ob('PAR-13', BASE, parse.qual, 'parse does not recurse', parse.key not in cg.reachable(list(cg.edges.get(parse.key, ()))) ,
           'the driver loop is re-entered recursively')
    rep.minimum('PAR-13', 2)


# ---------------------------------------------------------------------------------------------------------------
# PAR-14  the INDENT / DEDENT bookkeeping of the recovering parser sees every token of the stream exactly once
def par_14(ctx, rep):
    rep.rule('PAR-14', 'the function that counts INDENT / DEDENT tokens for error recovery (self.<counter> += 1 / -= 1 under a test '
                       'of the token type) is not reachable from Parser.error_recovery: recovery feeds tokens to the engine a '
                       'second time (self._add_token(token)), and a token counted twice desynchronises the list of dedents to omit')
    prog = ctx.prog
    er = prog.func(PY, 'Parser.error_recovery')
    counters = []
    for f in prog.funcs.values():
        if f.mod.rel != PY:
            continue
        ups = downs = 0
        from ..model import reaching_values
        for n in walk_own(f.node):
            if isinstance(n, ast.AugAssign) and isinstance(n.target, ast.Attribute) and norm(n.target.value) == 'self' \
                    and isinstance(n.value, ast.Constant) and n.value.value == 1:
                ups += isinstance(n.op, ast.Add)
                downs += isinstance(n.op, ast.Sub)
            if isinstance(n, ast.Assign) and len(n.targets) == 1 and isinstance(n.targets[0], ast.Attribute) \
                    and norm(n.targets[0].value) == 'self' and isinstance(n.value, ast.BinOp) and norm(n.value.right) == '1':
                left = n.value.left
                same = norm(left) == norm(n.targets[0])
                if not same and isinstance(left, ast.Name):       # through a local copy of the attribute
                    vals = reaching_values(f.node, left)
                    same = bool(vals) and all(norm(v) == norm(n.targets[0]) for v in vals)
                if same:
                    ups += isinstance(n.value.op, ast.Add)
                    downs += isinstance(n.value.op, ast.Sub)
        mentions = {norm(x) for x in walk_own(f.node) if isinstance(x, (ast.Name, ast.Attribute))}
        if ups and downs and any(m.split('.')[-1] in ('INDENT', 'DEDENT') for m in mentions):
            counters.append(f)
    if not counters:
        raise AnalysisError('PAR-14: no INDENT / DEDENT counting function found in parso/python/parser.py')
    reach = ctx.cg.reachable([er])
    for f in counters:
        rep.ob('PAR-14', PY, f.qual, 'INDENT / DEDENT counting is outside the reach of error_recovery', f.key not in reach,
               '%s counts INDENT / DEDENT tokens and is called (directly or indirectly) by error_recovery, which re-feeds the '
               'token it recovered on: that token is counted a second time' % f.qual)
    rep.stat('par14_counting_functions', [f.qual for f in counters])


# ---------------------------------------------------------------------------------------------------------------
def par_6c(ctx, rep):
    """The strict / recovering switch reaches the parser and nothing in front of it (seed rt14-C07: the flag handed to the
    tokenizer, which then tokenizes a multi-line replacement field differently in the two modes)."""
    rep.rule('PAR-6c', 'in Grammar.parse the error_recovery argument is used only as the keyword of the parser constructor '
                       'and in argument validation that raises: the token stream and the text are the same in both modes')
    GRAMMAR = 'parso/grammar.py'
    f = ctx.view(ctx.prog.func(GRAMMAR, 'Grammar.parse'))      # the steps parse was split into are read in place
    if 'error_recovery' not in f.all_params():
        raise AnalysisError('PAR-6c: Grammar.parse has no error_recovery parameter')
    n = 0
    cfg = ctx.cfg(f)
    for x in walk_own(f.node):
        if not (isinstance(x, ast.Name) and x.id == 'error_recovery' and isinstance(x.ctx, ast.Load)):
            continue
        n += 1
        par = getattr(x, '_parent', None)
        ok, why = False, ''
        if isinstance(par, ast.keyword) and par.arg == 'error_recovery':
            call = getattr(par, '_parent', None)
            callee = norm(call.func) if isinstance(call, ast.Call) else ''
            ok = callee in ('self._parser', 'p', 'parser') or callee.endswith('._parser')
            why = 'the flag is handed to %s' % callee
        else:
            # a validation test: what runs only when the flag has one particular value is nothing but raising (and further
            # tests) - whatever the layout (`if a and b: raise`, nested ifs, the rest of the function in an else branch)
            st = x
            while st is not None and not isinstance(st, ast.stmt):
                st = getattr(st, '_parent', None)
            tests = [n_ for n_ in cfg.nodes if n_.kind == 'test' and any(y is x for y in ast.walk(n_.ast))]
            ok = bool(tests)
            for tn in tests:
                a_side, b_side = set(), set()
                for s2, lab in tn.succ:
                    if lab == 'T':
                        a_side |= cfg.reachable(start=s2, labels_blocked=('exc',)) | {s2}
                    elif lab == 'F':
                        b_side |= cfg.reachable(start=s2, labels_blocked=('exc',)) | {s2}
                for only in (a_side - b_side) | (b_side - a_side):
                    if only.kind == 'test' or only in (cfg.raise_exit, cfg.exit) or isinstance(only.ast, ast.Raise) or only.ast is None:
                        continue
                    ok = False
            why = 'the flag is read in `%s`' % head(st) if st is not None else ''
        rep.ob('PAR-6c', GRAMMAR, f.qual, 'use of error_recovery: %s' % norm(getattr(x, '_parent', x))[:80], ok,
               '%s: something other than the parser depends on the mode, so the strict and the recovering parse no longer '
               'see the same tokens / text' % why)
    rep.minimum('PAR-6c', 2)


# ---------------------------------------------------------------------------------------------------------------
# PAR-15  the parser does not walk the tree it is building
def par_15(ctx, rep):
    """The engine is iterative (PAR-13) and so is recovery: the only recursive tree method the parser modules call is
    get_last_leaf (it follows the chain of last children only).  A rendering / searching traversal that recurses once or
    more per nesting level (get_code: three frames per level) overflows the interpreter stack on input well inside the
    100 levels the property allows - also when it is only evaluated as the argument of a logging call (seed rt14-C02)."""
    rep.rule('PAR-15', 'the parser modules call no recursive method of the tree classes other than get_last_leaf: building and '
                       'recovering never need interpreter stack in proportion to the depth of the tree')
    cg = ctx.cg
    tree_funcs = {k for k, f in ctx.prog.funcs.items() if k[0] in (TREE, PYTREE) and f.cls is not None}
    # methods on a call cycle inside the tree modules
    recursive = set()
    for k in tree_funcs:
        seen, todo = set(), [t for t in cg.edges.get(k, ()) if t in tree_funcs]
        while todo:
            x = todo.pop()
            if x == k:
                recursive.add(k)
                break
            if x in seen:
                continue
            seen.add(x)
            todo += [t for t in cg.edges.get(x, ()) if t in tree_funcs and t not in seen]
    rep.stat('recursive_tree_methods', sorted({k[1].split('.')[-1] for k in recursive}))
    allowed = {'get_last_leaf': 'follows the chain of last children only; used to look at the last leaf before an error'}
    n = 0
    for key, f in sorted(ctx.prog.funcs.items()):
        if key[0] not in (BASE, PY):
            continue
        for site in cg.sites[key]:
            hits = sorted({t.name for t in site.targets if t.key in recursive})
            if not hits:
                continue
            n += 1
            bad = [h for h in hits if h not in allowed]
            rep.ob('PAR-15', key[0], f.qual, norm(site.node), not bad,
                   'the parser calls the recursive tree method %s: one or more interpreter frames per nesting level while a '
                   'tree is being built or recovered - deep input inside the supported bound raises RecursionError' % bad,
                   reason=allowed.get(hits[0], ''))
    rep.minimum('PAR-15', 1)
