"""Grammar-side rules GR-1 .. GR-9, GR-11 (engine E4)."""
import ast
import hashlib
import re

from .. import gram, rx
from ..model import AnalysisError, norm, walk_own

PYPARSER = 'parso/python/parser.py'
PYTREE = 'parso/python/tree.py'
TOKEN_PY = 'parso/python/token.py'


def _gfile(g):
    return 'parso/python/' + g.name


def token_types(ctx):
    """Members of PythonTokenTypes read from token.py: name -> contains_syntax."""
    mod = ctx.prog.mod(TOKEN_PY)
    cls = mod.classes.get('PythonTokenTypes')
    if cls is None:
        raise AnalysisError('anchor vanished: PythonTokenTypes in %s' % TOKEN_PY)
    out = {}
    for name, v in cls.attrs.items():
        if isinstance(v, ast.Call):
            cs = False
            for kw in v.keywords:
                if kw.arg == 'contains_syntax':
                    cs = bool(getattr(kw.value, 'value', False))
            if len(v.args) > 1:
                cs = bool(getattr(v.args[1], 'value', False))
            out[name] = cs
    if not out:
        raise AnalysisError('no members found in PythonTokenTypes')
    return out


# ---------------------------------------------------------------------------
def gr_1_4(ctx, rep, with_follow=True):
    """GR-1 dialect/tokens, GR-2 left recursion + nullable, GR-3 FIRST/FIRST, GR-4 FIRST/FOLLOW."""
    rep.rule('GR-1', 'every symbol of every grammar is a rule or a member of PythonTokenTypes; file_input exists')
    rep.rule('GR-2', 'no rule is left-recursive or nullable (the generator computes FIRST without epsilon)')
    rep.rule('GR-3', 'no DFA state of any rule has two arcs sharing a first terminal (LL(1))')
    if with_follow:
        rep.rule('GR-4', 'no accepting state with outgoing arcs can continue on a token that may also follow '
                         'the rule (greedy shift loses no sentence)')
    types = token_types(ctx)
    nrules = nstates = 0
    for g in ctx.grammars:
        f = _gfile(g)
        r = g.result
        nrules += len(g.rules)
        bad_named = sorted(t for t in g.named_tokens() if t not in types)
        rep.ob('GR-1', f, '<grammar>', 'named tokens %s' % sorted(g.named_tokens()),
               not bad_named and 'file_input' in g.nts,
               'symbols that are neither rules nor token types: %s' % bad_named if bad_named
               else ('no file_input rule' if 'file_input' not in g.nts else ''))
        if bad_named:
            continue
        lr = {c[0] for c in r['left_recursion']}
        ff = {}
        for (n, st, t, a, b) in r['first_first']:
            ff.setdefault(n, []).append((t, a, b))
        fo = {}
        for (n, st, toks) in r['first_follow']:
            fo.setdefault(n, []).append(toks)
        nstates += r.get('states', 0)
        for n in g.rules:
            cyc = [c for c in r['left_recursion'] if n in c]
            rep.ob('GR-2', f, n, 'rule %s' % n, not cyc and n not in r['nullable'],
                   ('left recursion %s' % ' -> '.join(cyc[0])) if cyc else
                   ('rule is nullable' if n in r['nullable'] else ''))
            if r['left_recursion']:
                continue
            rep.ob('GR-3', f, n, 'rule %s' % n, n not in ff,
                   'token %s starts both %s and %s' % ff[n][0] if n in ff else '',
                   witness=ff.get(n))
            if with_follow:
                rep.ob('GR-4', f, n, 'rule %s' % n, n not in fo,
                       'accepting state can shift %s which is also in FOLLOW(%s)' % (fo[n][0], n) if n in fo else '',
                       witness=fo.get(n))
    rep.stat('grammar_files', len(ctx.grammars))
    rep.stat('grammar_rules', nrules)
    rep.stat('grammar_dfa_states', nstates)
    rep.minimum('GR-2', 9 * 80, 'nine grammars with >= 80 rules each')


# ---------------------------------------------------------------------------
def gr_5(ctx, rep):
    """Terminal producibility: every literal terminal of grammar V is one token of tokenizer V,
    of a token type for which the parser consults the reserved strings."""
    rep.rule('GR-5', "every quoted terminal of grammar V is produced by the version-V tokenizer as one "
                     "NAME/OP token ('<>' is the exception the property excludes)")
    types = token_types(ctx)
    syntax_types = {t for t, cs in types.items() if cs}
    rep.ob('GR-5', TOKEN_PY, 'PythonTokenTypes', 'contains_syntax token types',
           syntax_types == {'NAME', 'OP'},
           'token types consulted for reserved strings are %s, expected NAME and OP' % sorted(syntax_types))
    # the engine consults reserved_syntax_strings only under <type>.value.contains_syntax: every read of the table in
    # parso/parser.py (subscript, .get, membership - directly or through a local bound to the table)
    from ..model import xnorm
    from ..facts import guards_of
    pmod = ctx.prog.mod('parso/parser.py')
    n_reads = 0
    for f in pmod.funcs.values():
        for n in walk_own(f.node):
            read = None
            if isinstance(n, ast.Subscript) and isinstance(n.ctx, ast.Load) and 'reserved_syntax_strings' in xnorm(f.node, n.value):
                read = n
            elif isinstance(n, ast.Call) and isinstance(n.func, ast.Attribute) and n.func.attr == 'get' \
                    and 'reserved_syntax_strings' in xnorm(f.node, n.func.value):
                read = n
            if read is None:
                continue
            n_reads += 1
            from ..facts import facts_at as _facts_at
            ok = any(pol and 'contains_syntax' in t and '|' not in t for t, pol in _facts_at(read, f.node))
            rep.ob('GR-5', 'parso/parser.py', f.qual, 'reserved lookup %s under contains_syntax' % norm(read),
                   ok, 'reserved-string lookup is no longer guarded by contains_syntax')
    if not n_reads:
        raise AnalysisError('GR-5: no read of reserved_syntax_strings found in parso/parser.py')
    exceptions = {'<>'}
    for g in ctx.grammars:
        env = ctx.token_collection(g.version)
        pseudo = env.get('PseudoToken')
        name_rx = env.get('Name')
        number_rx = env.get('Number')
        if not all(isinstance(x, str) for x in (pseudo, name_rx, number_rx)):
            raise AnalysisError('cannot fold PseudoToken/Name/Number for version %s' % (g.version,))
        for lit in sorted(g.literal_terminals()):
            if lit in exceptions:
                rep.skip('GR-5', _gfile(g), '<grammar>', repr(lit), "'<>' cannot be produced (excluded by the property)")
                continue
            if re.fullmatch(r'[A-Za-z_][A-Za-z_0-9]*', lit):
                n = rx.bt_match(pseudo, lit)
                ok = n == len(lit) and rx.bt_match(name_rx, lit) == len(lit) and lit.isidentifier() \
                    and rx.bt_match(number_rx, lit) is None
                detail = 'keyword %r is not tokenized as one NAME (pseudo-token match length %r)' % (lit, n)
            else:
                n = rx.bt_match(pseudo, lit)
                ok = n == len(lit) and rx.bt_match(name_rx, lit) is None \
                    and rx.bt_match(number_rx, lit) is None and lit[0] not in '#\'"\\\r\n'
                detail = 'operator %r is not one maximal OP token for %s (match length %r)' % (lit, g.version, n)
            rep.ob('GR-5', _gfile(g), '<grammar>', 'terminal %r' % lit, ok, '' if ok else detail)
    rep.minimum('GR-5', 9 * 60)


def gr_5_gate(ctx, rep):
    """The only version gate of the tokenizer (':=') coincides with the first grammar mentioning it."""
    rep.rule('GR-5g', "':=' is a single token for exactly the versions whose grammar mentions ':='")
    for g in ctx.grammars:
        env = ctx.token_collection(g.version)
        one = rx.bt_match(env['PseudoToken'], ':=') == 2
        has = ':=' in g.literal_terminals()
        rep.ob('GR-5g', _gfile(g), '<grammar>', "':=' gate for %d.%d" % g.version, one == has,
               "tokenizer %s ':=' as one token but grammar %s it"
               % ('produces' if one else 'does not produce', 'mentions' if has else 'does not mention'))


# ---------------------------------------------------------------------------
def gr_6(ctx, rep):
    rep.rule('GR-6', 'INDENT/DEDENT occur in no rule but suite; in suite INDENT is child 1 and DEDENT the last child')
    for g in ctx.grammars:
        f = _gfile(g)
        users = sorted(n for n, d in g.dfas.items() if {'INDENT', 'DEDENT'} & d.labels())
        rep.ob('GR-6', f, '<grammar>', 'rules mentioning INDENT/DEDENT: %s' % users, users == ['suite'],
               'INDENT/DEDENT used outside suite: %s' % users)
        if 'suite' not in g.dfas:
            rep.ob('GR-6', f, 'suite', 'rule suite', False, 'no suite rule')
            continue
        d = g.dfas['suite']
        # depth sets (capped) per state
        depths = {d.start: {0}}
        todo = [d.start]
        while todo:
            s = todo.pop()
            for lab, t in d.arcs[s].items():
                new = {min(x + 1, 3) for x in depths[s]}
                if not new <= depths.get(t, set()):
                    depths.setdefault(t, set()).update(new)
                    todo.append(t)
        problems = []
        inside = set()
        for s, arcs in d.arcs.items():
            for lab, t in arcs.items():
                if lab == 'INDENT':
                    if depths.get(s) != {1}:
                        problems.append('INDENT not at child index 1')
                    inside.add(t)
                if lab == 'DEDENT':
                    if t not in d.finals or d.arcs[t]:
                        problems.append('DEDENT is not the last child')
        todo = list(inside)
        seen = set(inside)
        while todo:
            s = todo.pop()
            if s in d.finals:
                problems.append('a suite can end after INDENT without DEDENT')
            for lab, t in d.arcs[s].items():
                if lab == 'INDENT':
                    problems.append('nested INDENT inside one suite')
                if lab != 'DEDENT' and t not in seen:
                    seen.add(t)
                    todo.append(t)
        rep.ob('GR-6', f, 'suite', 'rule suite', not problems, '; '.join(sorted(set(problems))))


def par_8(ctx, rep):
    """convert_node('suite') drops exactly child 1 and the last child."""
    rep.rule('PAR-8', "convert_node('suite') removes exactly children[1] and children[-1] (the INDENT/DEDENT of GR-6)")
    from ..fold import Folder, UNKNOWN
    f = ctx.prog.func(PYPARSER, 'Parser.convert_node')
    found = 0
    for n in ast.walk(f.node):
        if isinstance(n, ast.If) and isinstance(n.test, ast.Compare) and "'suite'" in norm(n.test):
            for st in n.body:
                if isinstance(st, ast.Assign) and len(st.targets) == 1 and isinstance(st.targets[0], ast.Name):
                    var = st.targets[0].id
                    found += 1
                    ok = True
                    detail = ''
                    expr, evar = st.value, var
                    # `children = self._helper(children)`: a private one-expression helper stands for its expression
                    if isinstance(expr, ast.Call) and len(expr.args) == 1 and not expr.keywords and norm(expr.args[0]) == var:
                        hname = expr.func.attr if isinstance(expr.func, ast.Attribute) else expr.func.id if isinstance(expr.func, ast.Name) else None
                        h = None
                        if hname and hname.startswith('_'):
                            h = (f.cls.lookup(hname) if f.cls is not None and isinstance(expr.func, ast.Attribute) else None) \
                                or f.mod.funcs.get(hname)
                        if h is not None:
                            body = [b for b in h.node.body if not (isinstance(b, ast.Expr) and isinstance(b.value, ast.Constant))]
                            ps = [a.arg for a in h.node.args.args]
                            if h.cls is not None and 'staticmethod' not in h.decorators() and ps:
                                ps = ps[1:]
                            if len(body) == 1 and isinstance(body[0], ast.Return) and body[0].value is not None and len(ps) == 1:
                                expr, evar = body[0].value, ps[0]
                    for size in range(3, 9):
                        fo = Folder(ast.Module(body=[], type_ignores=[]))
                        val = fo.ev(expr, {evar: list(range(size))})
                        want = [0] + list(range(2, size - 1))
                        if val is UNKNOWN or list(val) != want:
                            ok = False
                            detail = 'for %d children the kept indexes are %r, expected %r' % (size, val, want)
                            break
                    rep.ob('PAR-8', PYPARSER, 'Parser.convert_node', norm(st), ok, detail)
    if not found:
        rep.ob('PAR-8', PYPARSER, 'Parser.convert_node', "if nonterminal == 'suite': children = ...", False,
               'suite branch that drops INDENT/DEDENT not found')


# ---------------------------------------------------------------------------
LEGACY_NODE_MAP_KEYS = {
    'print_stmt': 'Python 2 statement, in no shipped grammar (dead key, harmless)',
    'nonlocal_stmt': None,
}


def node_map(ctx):
    cls = ctx.prog.cls(PYPARSER, 'Parser')
    v = cls.attrs.get('node_map')
    if not isinstance(v, ast.Dict):
        raise AnalysisError('anchor vanished: Parser.node_map dict literal')
    out = {}
    for k, val in zip(v.keys, v.values):
        if not (isinstance(k, ast.Constant) and isinstance(k.value, str)):
            raise AnalysisError('non-literal key in Parser.node_map')
        c = ctx.prog.resolve_name_expr(cls.mod, val)
        out[k.value] = c
    return out


def _format_parts(e):
    """[('lit', text) | ('expr', source)] of a string built by %-formatting, an f-string, str.format or +; None if unknown"""
    def unstr(x):
        if isinstance(x, ast.Call) and norm(x.func) == 'str' and len(x.args) == 1:
            return x.args[0]
        return x
    if isinstance(e, ast.JoinedStr):
        out = []
        for v in e.values:
            if isinstance(v, ast.Constant):
                out.append(('lit', v.value))
            elif isinstance(v, ast.FormattedValue) and v.format_spec is None and v.conversion in (-1, 115):
                out.append(('expr', norm(unstr(v.value))))
            else:
                return None
        return out
    if isinstance(e, ast.BinOp) and isinstance(e.op, ast.Mod) and isinstance(e.left, ast.Constant) and isinstance(e.left.value, str):
        args = e.right.elts if isinstance(e.right, ast.Tuple) else [e.right]
        parts = e.left.value.split('%s')
        if len(parts) != len(args) + 1 or '%' in ''.join(parts):
            return None
        out = []
        for i, p in enumerate(parts):
            if p:
                out.append(('lit', p))
            if i < len(args):
                out.append(('expr', norm(unstr(args[i]))))
        return out
    if isinstance(e, ast.BinOp) and isinstance(e.op, ast.Add):
        l, r = _format_parts(e.left), _format_parts(e.right)
        return l + r if l is not None and r is not None else None
    if isinstance(e, ast.Call) and isinstance(e.func, ast.Attribute) and e.func.attr == 'format' \
            and isinstance(e.func.value, ast.Constant) and isinstance(e.func.value.value, str) and not e.keywords:
        parts = e.func.value.value.split('{}')
        if len(parts) != len(e.args) + 1 or '{' in ''.join(parts):
            return None
        out = []
        for i, p in enumerate(parts):
            if p:
                out.append(('lit', p))
            if i < len(e.args):
                out.append(('expr', norm(unstr(e.args[i]))))
        return out
    if isinstance(e, ast.Constant) and isinstance(e.value, str):
        return [('lit', e.value)]
    return [('expr', norm(unstr(e)))]


def class_type(cls):
    """Static ``type`` of a tree class: ('const', str) | ('keyword_stmt',) | None."""
    from ..model import Cls, Func
    owner, v = cls.lookup_attr('type')
    if isinstance(v, ast.Constant) and isinstance(v.value, str):
        return ('const', v.value)
    if isinstance(v, Func):
        for r in walk_own(v.node):
            if isinstance(r, ast.Return) and r.value is not None:
                if _format_parts(r.value) == [('expr', 'self.keyword'), ('lit', '_stmt')]:
                    return ('keyword_stmt',)
        src = norm(v.node)
        if "'%s_stmt' % self.keyword" in src:
            return ('keyword_stmt',)
    return None


def gr_7(ctx, rep):
    rep.rule('GR-7', 'node_map keys are grammar rules and the mapped class reports that rule name as its type')
    from ..model import Cls
    nm = node_map(ctx)
    all_rules = set()
    for g in ctx.grammars:
        all_rules |= g.nts
    aliases = {'lambdef_nocond': 'lambdef'}
    for k, c in sorted(nm.items()):
        construct = 'node_map[%r]' % k
        if not isinstance(c, Cls):
            rep.ob('GR-7', PYPARSER, 'Parser', construct, False, 'value does not resolve to a parso class')
            continue
        if k not in all_rules:
            if k in LEGACY_NODE_MAP_KEYS:
                rep.skip('GR-7', PYPARSER, 'Parser', construct, LEGACY_NODE_MAP_KEYS[k] or 'legacy key')
                continue
            rep.ob('GR-7', PYPARSER, 'Parser', construct, False, '%r is a rule of no shipped grammar' % k)
            continue
        t = class_type(c)
        if t is None:
            rep.ob('GR-7', PYPARSER, 'Parser', construct, False, 'class %s has no static type' % c.name)
        elif t[0] == 'const':
            want = aliases.get(k, k)
            rep.ob('GR-7', PYPARSER, 'Parser', construct, t[1] == want,
                   'class %s has type %r but is created for rule %r' % (c.name, t[1], k))
        else:
            # KeywordStatement: type is '<first keyword>_stmt'
            bad = []
            for g in ctx.grammars:
                if k not in g.nts:
                    continue
                first = set(g.first(k))
                kws = {ast.literal_eval(x) for x in first if x.startswith("'")}
                if len(first) != 1 or len(kws) != 1 or next(iter(kws)) + '_stmt' != k:
                    bad.append((g.name, sorted(first)))
            rep.ob('GR-7', PYPARSER, 'Parser', construct, not bad,
                   'FIRST(%s) is not the single keyword %r in %s' % (k, k[:-5], bad[:2]))
    rep.minimum('GR-7', 20)


# ---------------------------------------------------------------------------
def shape_appearance(g):
    """App(X): the node types / terminals a grammar symbol X can appear as in the tree
    (single-child collapse applied)."""
    if hasattr(g, '_app'):
        return g._app
    app = {}

    def min_len2(n):
        d = g.dfas[n]
        # does the rule accept a word of length >= 2 ?
        frontier = {d.start}
        for L in range(0, 40):
            if L >= 2 and frontier & d.finals:
                return True
            frontier = {t for s in frontier for t in d.arcs[s].values()}
            if not frontier:
                return False
        return False

    def singles(n):
        d = g.dfas[n]
        return [lab for lab, t in d.arcs[d.start].items() if t in d.finals]

    g._node_rules = {n for n in g.nts if min_len2(n)}

    def go(x, stack=()):
        if x not in g.nts:
            return {x}
        if x in app:
            return app[x]
        if x in stack:
            return set()
        r = set()
        if x in g._node_rules:
            r.add(x)
        for y in singles(x):
            r |= go(y, stack + (x,))
        if not stack:
            app[x] = r
        return r
    # fixpoint because of the stack cut-off
    for _ in range(3):
        for n in sorted(g.nts):
            app[n] = go(n)
    g._app = app
    return app


def direct_children(g):
    if hasattr(g, '_direct'):
        return g._direct
    app = shape_appearance(g)
    direct = {}
    for n in g.nts:
        s = set()
        for lab in g.dfas[n].labels():
            s |= app[lab] if lab in g.nts else {lab}
        direct[n] = s
    g._direct = direct
    return direct


SCOPES = {'funcdef', 'classdef', 'lambdef', 'lambdef_nocond'}


def containers(g, targets, stop=SCOPES):
    """Node types (reachable from file_input, not scopes) from which a target node type is
    reachable through child edges without crossing a scope node."""
    direct = direct_children(g)
    reach_nts = g.reachable('file_input')
    reach = {n: bool(direct[n] & targets) for n in g.nts}
    changed = True
    while changed:
        changed = False
        for n in g.nts:
            if reach[n]:
                continue
            for c in direct[n]:
                if c in g.nts and c not in stop and reach.get(c):
                    reach[n] = True
                    changed = True
                    break
    return {n for n in g.nts if reach[n] and n in g._node_rules and n not in stop
            and n in reach_nts and n != 'file_input'}


def module_set(ctx, rel, name):
    """Fold a module-level set/tuple of strings."""
    v = ctx.folder(rel).get(name)
    if not isinstance(v, (set, frozenset, tuple, list)):
        raise AnalysisError('%s.%s does not fold to a collection' % (rel, name))
    return set(v)


def gr_8a(ctx, rep):
    rep.rule('GR-8a', 'the container tables of python/tree.py equal the container node types computed from every grammar')
    tables = {
        '_FUNC_CONTAINERS': {'funcdef', 'classdef', 'import_name', 'import_from'},
        '_RETURN_STMT_CONTAINERS': {'return_stmt', 'raise_stmt', "'return'", "'raise'"},
    }
    for name, targets in tables.items():
        table = module_set(ctx, PYTREE, name)
        computed = set()
        per = {}
        for g in ctx.grammars:
            c = containers(g, targets) - targets
            per[g.name] = c
            computed |= c
        missing = computed - table
        extra = table - computed
        rep.ob('GR-8a', PYTREE, '<module>', name, not missing and not extra,
               ('node types that can contain %s but are missing: %s' % (sorted(targets)[0], sorted(missing))
                if missing else 'entries no grammar justifies: %s' % sorted(extra)),
               witness={'missing': sorted(missing), 'extra': sorted(extra)})
    # by role: every search of a scope for node types T descends through a table that contains every node type from
    # which a T is reachable without crossing a scope (whatever the table is called, also one passed per call)
    scope = ctx.prog.cls(PYTREE, 'Scope')
    search = scope.methods.get('_search_in_scope') if scope is not None else None
    if search is not None:
        default_tables = set()
        for g_ in [search] + list(search.nested.values()):
            for n in walk_own(g_.node):
                if isinstance(n, ast.Compare) and len(n.ops) == 1 and isinstance(n.ops[0], ast.In) \
                        and isinstance(n.left, ast.Attribute) and n.left.attr == 'type' and isinstance(n.comparators[0], ast.Name) \
                        and n.comparators[0].id in search.mod.globals:
                    default_tables.add(n.comparators[0].id)
        for f in ctx.prog.funcs.values():
            if f.mod.rel != PYTREE:
                continue
            for c in walk_own(f.node):
                if not (isinstance(c, ast.Call) and isinstance(c.func, ast.Attribute) and c.func.attr == search.name):
                    continue
                targets = {a.value for a in c.args if isinstance(a, ast.Constant) and isinstance(a.value, str)}
                if not targets or len(targets) != len(c.args):
                    continue
                names = [k.value.id for k in c.keywords if isinstance(k.value, ast.Name) and k.value.id in f.mod.globals] \
                    or sorted(default_tables)
                for tname in names:
                    try:
                        table = module_set(ctx, PYTREE, tname)
                    except AnalysisError:
                        continue
                    computed = set()
                    for g in ctx.grammars:
                        computed |= containers(g, targets) - targets
                    missing = computed - table
                    rep.ob('GR-8a', PYTREE, f.qual, 'search for %s descends through %s' % ('/'.join(sorted(targets)), tname), not missing,
                           'a %s can sit inside %s, which the table %s does not contain: such a node is not found'
                           % (sorted(targets)[0], sorted(missing), tname), witness=sorted(missing))
    # _FLOW_CONTAINERS must be the statement-level subset: every member is in both other tables
    flow = module_set(ctx, PYTREE, '_FLOW_CONTAINERS')
    ret = module_set(ctx, PYTREE, '_RETURN_STMT_CONTAINERS')
    rep.ob('GR-8a', PYTREE, '<module>', '_FLOW_CONTAINERS', flow <= ret,
           'flow containers not contained in return containers: %s' % sorted(flow - ret))


# ---------------------------------------------------------------------------
VERSION_MODULES = ['parso/python/tokenize.py', 'parso/parser.py', 'parso/python/parser.py',
                   'parso/python/tree.py', 'parso/tree.py', 'parso/python/diff.py', 'parso/python/prefix.py']


def version_predicates(ctx):
    """Comparisons of a version value with a tuple literal in tree-construction modules."""
    out = []
    for rel in VERSION_MODULES:
        mod = ctx.prog.mod(rel)
        for n in ast.walk(mod.tree):
            if isinstance(n, ast.Compare) and len(n.ops) == 1:
                l, r = n.left, n.comparators[0]
                for a, b, flip in ((l, r, False), (r, l, True)):
                    if 'version' in norm(a) and isinstance(b, ast.Tuple) \
                            and all(isinstance(e, ast.Constant) and isinstance(e.value, int) for e in b.elts):
                        out.append((rel, n, tuple(e.value for e in b.elts), type(n.ops[0]), flip))
    return out


def _eval_pred(version, const, op, flip):
    a, b = (const, version) if flip else (version, const)
    return {ast.GtE: a >= b, ast.Gt: a > b, ast.LtE: a <= b, ast.Lt: a < b,
            ast.Eq: a == b, ast.NotEq: a != b}.get(op)


def gr_9(ctx, rep):
    rep.rule('GR-9', 'grammar files with identical text (hence one cache key) get identical values for every '
                     'version predicate that influences tokenizing / tree construction')
    groups = {}
    for g in ctx.grammars:
        groups.setdefault(hashlib.sha256(g.text.encode()).hexdigest(), []).append(g)
    preds = version_predicates(ctx)
    shared = [gs for gs in groups.values() if len(gs) > 1]
    rep.stat('grammars_sharing_a_hash', [[g.name for g in gs] for gs in shared])
    for rel, node, const, op, flip in preds:
        from ..model import qual_of
        mod = ctx.prog.mod(rel)
        q = qual_of(mod, node)
        if not shared:
            rep.ob('GR-9', rel, q, norm(node), True)
        for gs in shared:
            vals = {g.name: _eval_pred(g.version, const, op, flip) for g in gs}
            ok = len(set(vals.values())) == 1 and None not in vals.values()
            rep.ob('GR-9', rel, q, '%s for %s' % (norm(node), '/'.join(g.name for g in gs)), ok,
                   'predicate differs between versions that share one grammar hash: %s' % vals)
    if not preds:
        rep.note('GR-9: no version predicate found in tree-construction modules')
    # the hash itself must be computed from the grammar text
    cls = ctx.prog.cls('parso/grammar.py', 'Grammar')
    init = cls.methods.get('__init__')
    ok = False
    if init is not None:
        for n in ast.walk(init.node):
            if isinstance(n, ast.Assign) and '_hashed' in norm(n.targets[0]) and 'sha256(text.encode' in norm(n.value):
                ok = True
    rep.ob('GR-9', 'parso/grammar.py', 'Grammar.__init__', 'self._hashed = sha256(text)', ok,
           'grammar hash is no longer the sha256 of the grammar text')


# ---------------------------------------------------------------------------
def gr_11(ctx, rep):
    rep.rule('GR-11', 'for consecutive versions a<b<c and every rule in all three, L_a(R) & L_c(R) is a subset of L_b(R)')
    gs = ctx.grammars
    for a, b, c in zip(gs, gs[1:], gs[2:]):
        f = _gfile(b)
        for r in sorted(set(a.dfas) & set(c.dfas)):
            if r not in b.dfas:
                rep.ob('GR-11', f, r, 'rule %s between %s and %s' % (r, a.name, c.name), False,
                       'rule exists in both neighbours but not in %s' % b.name)
                continue
            own = b.dfas[r].labels() - a.dfas[r].labels() - c.dfas[r].labels()
            if own:
                rep.skip('GR-11', f, r, 'rule %s between %s and %s' % (r, a.name, c.name),
                         'middle version uses symbols %s neither neighbour uses (restructuring)' % sorted(own))
                continue
            w = gram.inter_included(a.dfas[r], c.dfas[r], b.dfas[r])
            rep.ob('GR-11', f, r, 'rule %s between %s and %s' % (r, a.name, c.name), w is None,
                   'sentence accepted by %s and %s but not by %s' % (a.name, c.name, b.name) if w is not None else '',
                   witness=' '.join(w) if w is not None else None)
    # identical-by-design pair at the end: the last grammar may not be narrower than its predecessor
    a, b = gs[-2], gs[-1]
    for r in sorted(set(a.dfas) & set(b.dfas)):
        w = gram.included(a.dfas[r], b.dfas[r])
        rep.ob('GR-11', _gfile(b), r, 'rule %s: %s within %s' % (r, a.name, b.name), w is None,
               'sentence accepted by %s but not by the newest grammar' % a.name if w is not None else '',
               witness=' '.join(w) if w is not None else None)
    rep.assume("CPython's syntax is convex over 3.6-3.14 at production level: what V-1 and V+1 both accept, V accepts")
    rep.minimum('GR-11', 500)


# ---------------------------------------------------------------------------
BINDING_TERMINALS = ("':='", "'for'", "'del'", "'import'", "'as'")
# rule -> the table type whose get_defined_names() looks into it (one line of reason each)
DELEGATED = {
    'with_item': ('with_stmt', "WithStmt.get_defined_names reads the 'as' target of every with_item"),
    'import_as_name': ('import_from', 'ImportFrom._as_name_tuples reads the alias'),
    'import_as_names': ('import_from', 'list of import_as_name'),
    'dotted_as_name': ('import_name', 'ImportName._dotted_as_names reads the alias'),
    'dotted_as_names': ('import_name', 'list of dotted_as_name'),
    'comp_for': ('sync_comp_for', "wrapper ['async'] sync_comp_for; the 'for' target lives in sync_comp_for"),
    'async_stmt': ('for_stmt', "wrapper 'async' (funcdef | with_stmt | for_stmt)"),
}
SPECIAL_CASED = {
    'except_clause': "Name.get_definition tests `type_ == 'except_clause'` explicitly",
}


def gr_8b(ctx, rep):
    rep.rule('GR-8b', 'every grammar rule whose right-hand side contains a binding operator (:=, for, del, import, as) is '
                      'a definition type, is delegated to one, or is special-cased in Name.get_definition')
    table = module_set(ctx, PYTREE, '_GET_DEFINITION_TYPES')
    gd = ctx.view(ctx.prog.func(PYTREE, 'Name.get_definition'))      # private helpers it was split into are read in place
    src = norm(gd.node, 5000)
    for k in SPECIAL_CASED:
        rep.ob('GR-8b', PYTREE, gd.qual, 'special case %r' % k, ("'%s'" % k) in src,
               'the explicit test for %s vanished from Name.get_definition' % k)
    uses_table = '_GET_DEFINITION_TYPES' in src
    rep.ob('GR-8b', PYTREE, gd.qual, 'consults _GET_DEFINITION_TYPES', uses_table, 'definition lookup no longer uses the table')
    seen = set()
    for g in ctx.grammars:
        shape_appearance(g)
        for r, d in sorted(g.dfas.items()):
            labels = d.labels()
            for b in BINDING_TERMINALS:
                if b not in labels:
                    continue
                if r not in g._node_rules:
                    continue
                key = (r, b)
                construct = 'rule %s binds with %s' % (r, b)
                if r in table:
                    ok, why = True, ''
                elif r in DELEGATED and DELEGATED[r][0] in table:
                    ok, why = True, DELEGATED[r][1]
                elif r in SPECIAL_CASED:
                    ok, why = True, SPECIAL_CASED[r]
                else:
                    ok = False
                    why = ('names bound by %s inside a %s node (grammar %s and later) are not reported as definitions: '
                           '%s is not in _GET_DEFINITION_TYPES and no definition type looks into it' % (b, r, g.name, r))
                if key in seen and ok:
                    continue
                if key in seen:
                    continue
                seen.add(key)
                rep.ob('GR-8b', PYTREE, '<module>', construct, ok, why, witness=g.name if not ok else None)
    # every table entry is a real node type (or the synthetic 'param')
    all_rules = set()
    for g in ctx.grammars:
        shape_appearance(g)
        all_rules |= g._node_rules
    for t in sorted(table):
        rep.ob('GR-8b', PYTREE, '<module>', '_GET_DEFINITION_TYPES entry %r' % t, t in all_rules or t == 'param',
               'table entry is not a node type of any grammar')
        # and its class implements get_defined_names
    nm = node_map(ctx)
    for t in sorted(table):
        cls = nm.get(t)
        if t == 'param':
            cls = ctx.prog.cls(PYTREE, 'Param')
        from ..model import Cls as _Cls
        ok = isinstance(cls, _Cls) and cls.lookup('get_defined_names') is not None
        rep.ob('GR-8b', PYPARSER, 'Parser', 'node class of %r has get_defined_names' % t, ok,
               'definition type %r is built as %s, which has no get_defined_names' % (t, getattr(cls, 'name', cls)))
    rep.minimum('GR-8b', 20)


def gr_8c(ctx, rep):
    rep.rule('GR-8c', 'the node types Function.iter_yield_exprs refuses to descend into are exactly the scope-creating '
                      'node types (classes derived from Scope other than the module)')
    from ..model import Cls
    prog = ctx.prog
    scope = prog.cls(PYTREE, 'Scope')
    want = set()
    for c in prog.subclasses(scope):
        t = class_type(c)
        if t and t[0] == 'const' and t[1] != 'file_input':
            want.add(t[1])
    fn = prog.cls(PYTREE, 'Function').methods.get('iter_yield_exprs')
    if fn is None:
        raise AnalysisError('anchor vanished: Function.iter_yield_exprs')
    found = 0
    funcs = [fn] + list(fn.nested.values())
    # the scanning function may live at module level (a closure that was moved out)
    for n in walk_own(fn.node):
        if isinstance(n, ast.Call) and isinstance(n.func, ast.Name):
            t = prog.resolve_global(fn.mod, n.func.id)
            if hasattr(t, 'node') and t not in funcs and getattr(t, 'mod', None) is fn.mod and any(
                    isinstance(c, ast.Call) and isinstance(c.func, ast.Name) and c.func.id == t.name for c in walk_own(t.node)):
                funcs.append(t)
    import re as _re
    from ..facts import facts_at
    for g in funcs:
        # the descent: the recursive call of the scanning function; the node types it is *not* reached for are
        # the negative facts `<element>.type in (...)` / `<element>.type == ...` that hold at the call
        for n in walk_own(g.node):
            if not (isinstance(n, ast.Call) and isinstance(n.func, ast.Name) and n.func.id == g.name):
                continue
            excluded = set()
            texts = []
            for text, positive in facts_at(n, g.node):
                m = _re.fullmatch(r'[\w.]+\.type (?:in \((.*)\)|== (.*))', text)
                if m and not positive and ' | ' not in text:
                    lits = _re.findall(r"'([^']*)'", m.group(1) or m.group(2))
                    excluded |= set(lits)
                    texts.append(text)
            found += 1
            rep.ob('GR-8c', PYTREE, g.qual, 'scope boundary of the yield scan: not descending when %s' % ' / '.join(sorted(texts)),
                   excluded == want,
                   'the yield scan stops at %s, the scope-creating node types are %s: a yield that belongs to the '
                   'function is missed or a foreign one is counted' % (sorted(excluded), sorted(want)))
    if not found:
        rep.ob('GR-8c', PYTREE, fn.qual, 'scope boundary of the yield scan', False, 'the scan no longer stops at nested scopes')


def gr_8d(ctx, rep):
    rep.rule('GR-8d', 'Name.get_definition gives up early (returns None without having reached a definition node) only '
                      'under node types that cannot lie between a bound name and its definition: the types the sibling '
                      '_defined_names descends through (tuple / list / parenthesis / star / attribute-chain targets) are '
                      'never among them')
    import re as _re
    from ..facts import facts_at
    from . import tc
    dn = ctx.prog.func(PYTREE, '_defined_names')
    gd = ctx.view(ctx.prog.func(PYTREE, 'Name.get_definition'))     # private helpers it was split into are read in place
    # the target path: every node type literal _defined_names tests its argument against
    param = dn.params()[0]
    path_types = set()
    type_texts = {'%s.type' % param}
    for n in walk_own(dn.node):
        if isinstance(n, ast.Assign) and len(n.targets) == 1 and isinstance(n.targets[0], ast.Name) \
                and norm(n.value) == '%s.type' % param:
            type_texts.add(n.targets[0].id)
    # ... in a branch that hands a *child* of that node back to _defined_names (so a Name directly below it is a target)
    for n in walk_own(dn.node):
        if not isinstance(n, ast.If):
            continue
        recurses = any(isinstance(x, ast.Call) and isinstance(x.func, ast.Name) and x.func.id == dn.name
                       for b in n.body for x in ast.walk(b))
        t = n.test
        if recurses and isinstance(t, ast.Compare) and len(t.ops) == 1 and isinstance(t.ops[0], (ast.In, ast.Eq)) \
                and norm(t.left) in type_texts:
            vals = tc._const_strs(ctx, dn.mod, t.comparators[0])
            if vals:
                path_types |= set(vals)
    if len(path_types) < 4:
        raise AnalysisError('GR-8d: target path of _defined_names not recognised (%s)' % sorted(path_types))
    rep.stat('definition_target_path_types', sorted(path_types))
    table = module_set(ctx, PYTREE, '_GET_DEFINITION_TYPES')
    n_ret = 0
    for n in walk_own(gd.node):
        if not (isinstance(n, ast.Return) and (n.value is None or (isinstance(n.value, ast.Constant) and n.value.value is None))):
            continue
        n_ret += 1
        pinned = set()
        for text, positive in facts_at(n, gd.node):
            if not positive or ' | ' in text:
                continue
            m = _re.fullmatch(r'[\w.]+ (?:in|==) (.*)', text)
            if not m or not _re.match(r'[\w.]*type_?\b|[\w.]+\.type\b', text):
                continue
            lits = set(_re.findall(r"'([^']*)'", m.group(1)))
            if not lits:
                # a named table: resolve through the module
                name = m.group(1).strip()
                try:
                    lits = set(module_set(ctx, PYTREE, name))
                except Exception:
                    lits = set()
            pinned |= lits
        pinned -= set(table)          # reaching a definition type is the regular exit
        bad = sorted(pinned & path_types)
        rep.ob('GR-8d', PYTREE, gd.qual, 'return None under node types %s' % (sorted(pinned) or 'not pinned'), not bad,
               'the definition lookup gives up when the name sits directly in %s, but _defined_names looks for targets '
               'through exactly these node types: `(x) = 1`, `[y] = z`, `for (i) in r` bind names there' % bad)
    rep.minimum('GR-8d', 3)
