"""Tree rules TREE-0 .. TREE-7 (engines E0 / E7)."""
import ast

from ..model import AnalysisError, norm, head, walk_own, Cls, Func, qual_of, concat_terms
from .par import only_via, calls_in, is_method_call, tree_hierarchy, _bind_call

TREE = 'parso/tree.py'
PYTREE = 'parso/python/tree.py'
DIFF = 'parso/python/diff.py'
NORMALIZER = 'parso/normalizer.py'


# ---------------------------------------------------------------------------
def tree_0(ctx, rep):
    rep.rule('TREE-0', 'code of a leaf is prefix + value; code of a node is the in-order concatenation of the code of '
                       'every child; nobody else overrides get_code (Param only strips a trailing comma on request)')
    prog = ctx.prog
    root, classes = tree_hierarchy(ctx)
    leaf = prog.cls(TREE, 'Leaf')
    base = prog.cls(TREE, 'BaseNode')
    g = leaf.methods.get('get_code')
    if g is None:
        raise AnalysisError('anchor vanished: Leaf.get_code')
    p = g.params()
    flag = p[1] if len(p) > 1 else None
    rets = [n for n in walk_own(g.node) if isinstance(n, ast.Return)]
    cfg = ctx.cfg(g)
    ok = False
    def full(n):
        return n.ast.value is not None and concat_terms(n.ast.value) == ['self.prefix', 'self.value']
    rets_cfg = [n for n in cfg.nodes if n.kind == 'stmt' and isinstance(n.ast, ast.Return)]
    # under include_prefix == True every reachable return yields prefix + value
    from .par import reachable_with_edges_removed
    flag_tests = [t for t in cfg.nodes if t.kind == 'test' and norm(t.ast) == flag]
    reach_true = reachable_with_edges_removed(cfg, {(t, 'F') for t in flag_tests})
    ok = bool(flag_tests) and any(full(n) for n in rets_cfg) and all(full(n) for n in rets_cfg if n in reach_true)
    rep.ob('TREE-0', TREE, g.qual, 'return self.prefix + self.value', ok,
           'the code of a leaf (with prefix) is not exactly prefix + value')
    # the default of include_prefix is True
    d = dict(zip(reversed(p), reversed(g.node.args.defaults)))
    rep.ob('TREE-0', TREE, g.qual, 'include_prefix defaults to True',
           flag in d and isinstance(d[flag], ast.Constant) and d[flag].value is True, 'default changed')
    h = base.methods.get('_get_code_for_children')
    if h is None:
        raise AnalysisError('anchor vanished: BaseNode._get_code_for_children')
    joins = []
    for n in walk_own(h.node):
        if isinstance(n, ast.Call) and is_method_call(n, 'join') and isinstance(n.func.value, ast.Constant) \
                and n.func.value.value == '' and n.args and isinstance(n.args[0], (ast.GeneratorExp, ast.ListComp)):
            joins.append(n.args[0])
    cparam = h.params()[1] if len(h.params()) > 1 else 'children'
    ok = bool(joins)
    for j in joins:
        gen = j.generators[0]
        full = norm(gen.iter) == cparam
        tail = norm(gen.iter) == '%s[1:]' % cparam
        if len(j.generators) != 1 or gen.ifs or not (full or tail) or norm(j.elt) != '%s.get_code()' % norm(gen.target):
            ok = False
    rep.ob('TREE-0', TREE, h.qual, "''.join(c.get_code() for c in children)", ok,
           'children are filtered, reordered or rendered by something else than their own get_code()')
    bg = base.methods.get('get_code')
    ok = bg is not None and any(
        isinstance(n, ast.Return) and isinstance(n.value, ast.Call) and is_method_call(n.value, '_get_code_for_children')
        and norm(n.value.args[0]) == 'self.children' for n in walk_own(bg.node))
    rep.ob('TREE-0', TREE, 'BaseNode.get_code', 'return self._get_code_for_children(self.children, ...)', ok,
           'node code is not computed from all of self.children')
    allowed = {(TREE, 'NodeOrLeaf'), (TREE, 'Leaf'), (TREE, 'BaseNode'), (PYTREE, 'Param')}
    for c in classes:
        for m in ('get_code', '_get_code_for_children'):
            if m in c.methods:
                rep.ob('TREE-0', c.mod.rel, c.qual, 'def %s' % m, c.key in allowed,
                       'class %s overrides %s' % (c.name, m))
    par = prog.cls(PYTREE, 'Param').methods.get('get_code')
    if par is not None:
        cfg = ctx.cfg(par)
        sup = [n for n in cfg.nodes if n.kind == 'stmt' and isinstance(n.ast, ast.Return) and 'super().get_code' in norm(n.ast)]
        ok = bool(sup) and all(only_via(cfg, n, lambda e: norm(e) == 'include_comma', 'T') for n in sup)
        d = dict(zip(reversed(par.params()), reversed(par.node.args.defaults)))
        ok = ok and isinstance(d.get('include_comma'), ast.Constant) and d['include_comma'].value is True
        rep.ob('TREE-0', PYTREE, par.qual, 'include_comma=True => super().get_code', ok,
               'Param.get_code alters the code without being asked to')
    rep.minimum('TREE-0', 6)


# ---------------------------------------------------------------------------
def _children_writes(ctx):
    """[(mod, func, stmt_or_call, owner_expr, value_expr, kind)]"""
    out = []
    for rel, mod in ctx.prog.mods.items():
        for n in ast.walk(mod.tree):
            f = None
            if isinstance(n, ast.Assign):
                for t in n.targets:
                    if isinstance(t, ast.Attribute) and t.attr == 'children':
                        out.append((mod, n, t.value, n.value, 'assign'))
                    elif isinstance(t, ast.Subscript) and isinstance(t.value, ast.Attribute) and t.value.attr == 'children':
                        out.append((mod, n, t.value.value, n.value, 'slice' if isinstance(t.slice, ast.Slice) else 'item'))
            elif isinstance(n, ast.AugAssign) and isinstance(n.target, ast.Attribute) and n.target.attr == 'children':
                out.append((mod, n, n.target.value, n.value, 'aug'))
            elif isinstance(n, ast.Call) and isinstance(n.func, ast.Attribute) and n.func.attr in ('append', 'insert', 'extend') \
                    and isinstance(n.func.value, ast.Attribute) and n.func.value.attr == 'children':
                out.append((mod, n, n.func.value.value, n.args[-1] if n.args else None, n.func.attr))
    return out


def tree_1(ctx, rep, only=None):
    rep.rule('TREE-1', 'every statement that places elements into a children list sets the parent of the placed '
                       'elements to the owner of that list in the same function (or obtains them from _create_params(owner, ...))')
    prog = ctx.prog
    n_sites = 0
    for mod, n, owner, value, kind in _children_writes(ctx):
        if only and mod.rel not in only:
            continue
        f = prog.enclosing_func(mod, n)
        if f is None:
            continue
        n_sites += 1
        o = norm(owner)
        ok = False
        why = 'no assignment `<element>.parent = %s` for the placed elements in %s' % (o, f.qual)
        if isinstance(value, ast.Call) and isinstance(value.func, ast.Name) and value.func.id == '_create_params':
            ok = bool(value.args) and norm(value.args[0]) == o
            why = '_create_params is given %s as parent, the list belongs to %s' % (norm(value.args[0]) if value.args else None, o)
        elif isinstance(value, ast.Name):
            v = value.id
            if kind in ('append', 'insert'):
                ok = any(isinstance(s, ast.Assign) and norm(s.targets[0]) == '%s.parent' % v and norm(s.value) == o
                         for s in walk_own(f.node))
            else:
                for s in walk_own(f.node):
                    if isinstance(s, ast.For) and norm(s.iter) == v and isinstance(s.target, ast.Name):
                        if any(isinstance(b, ast.Assign) and norm(b.targets[0]) == '%s.parent' % s.target.id
                               and norm(b.value) == o for b in s.body):
                            ok = True
        rep.ob('TREE-1', mod.rel, f.qual, norm(n), ok, why)
    # _create_params: everything it returns has its parent set to the given parent
    cp = prog.func(PYTREE, '_create_params')
    parent = cp.params()[0]
    param_cls = prog.cls(PYTREE, 'Param')
    for n in walk_own(cp.node):
        if isinstance(n, ast.Call) and isinstance(n.func, ast.Name) and n.func.id == 'Param':
            b = _bind_call(n, param_cls.lookup('__init__'))
            rep.ob('TREE-1', PYTREE, cp.qual, norm(n), b is not None and norm(b.get('parent', ast.Constant(None))) == parent,
                   'Param created without the parent it is placed under')
        if isinstance(n, ast.AugAssign) and isinstance(n.op, ast.Add) and isinstance(n.value, ast.Name):
            v = n.value.id
            from ..model import block_of
            body = block_of(n)
            ok = any(isinstance(s, ast.For) and norm(s.iter) == v and any(
                isinstance(b, ast.Assign) and norm(b.targets[0]) == '%s.parent' % norm(s.target) and norm(b.value) == parent
                for b in s.body) for s in body)
            rep.ob('TREE-1', PYTREE, cp.qual, norm(n), ok, 'elements moved under a new owner without resetting their parent')
    pinit = param_cls.methods.get('__init__')
    ok = pinit is not None and any(isinstance(s, ast.Assign) and norm(s.targets[0]) == 'self.parent' and norm(s.value) == 'parent'
                                   for s in walk_own(pinit.node)) and any('super().__init__(children)' in norm(s) for s in pinit.node.body)
    rep.ob('TREE-1', PYTREE, 'Param.__init__', 'self.parent = parent after super().__init__(children)', ok,
           'Param does not record its parent / does not adopt its children')
    if not only:
        rep.minimum('TREE-1', 6)


# ---------------------------------------------------------------------------
def tree_2(ctx, rep):
    rep.rule('TREE-2', 'no tree class defines an __eq__ that can hold between two distinct nodes, so list.index on '
                       'children is an identity lookup; sibling navigation compares with `is`')
    prog = ctx.prog
    root, classes = tree_hierarchy(ctx)
    seen = set()
    for c in classes:
        for k in c.mro:
            if isinstance(k, Cls) and '__eq__' in k.methods and k.key not in seen:
                seen.add(k.key)
                m = k.methods['__eq__']
                other = m.params()[1]
                cfg = ctx.cfg(m)
                ok = True
                for n in cfg.nodes:
                    if n.kind == 'stmt' and isinstance(n.ast, ast.Return):
                        v = norm(n.ast.value) if n.ast.value is not None else 'None'
                        if v in ('self is %s' % other, '%s is self' % other, 'False', 'NotImplemented'):
                            continue
                        if not only_via(cfg, n, lambda e: norm(e) == 'isinstance(%s, str)' % other, 'T'):
                            ok = False
                rep.ob('TREE-2', k.mod.rel, m.qual, 'def __eq__', ok,
                       'two distinct nodes can compare equal: list.index / `in` on children no longer identify a node')
    if not seen:
        rep.ob('TREE-2', PYTREE, '_StringComparisonMixin.__eq__', 'def __eq__', False, 'anchor vanished')
    nol = prog.cls(TREE, 'NodeOrLeaf')
    for name in ('get_next_sibling', 'get_previous_sibling'):
        m = nol.methods.get(name)
        if m is None:
            raise AnalysisError('anchor vanished: NodeOrLeaf.%s' % name)
        m = ctx.view(m)                      # a shared "index by identity" helper is read in place
        cmps = [n for n in walk_own(m.node) if isinstance(n, ast.Compare) and 'self' in (norm(n.left), norm(n.comparators[0]))
                and not (isinstance(n.comparators[0], ast.Constant))]
        ok = bool(cmps) and all(isinstance(c.ops[0], (ast.Is, ast.IsNot)) for c in cmps)
        idx = [n for n in walk_own(m.node) if isinstance(n, ast.Call) and is_method_call(n, 'index')]
        rep.ob('TREE-2', TREE, m.qual, 'child is self', ok and not idx, 'sibling lookup compares nodes with == / index()')
    for name, step in (('get_next_leaf', '+'), ('get_previous_leaf', '-')):
        m = nol.methods.get(name)
        if m is None:
            raise AnalysisError('anchor vanished: NodeOrLeaf.%s' % name)
        m = ctx.view(m)                      # a direction-parameterised helper is read in place, its constants folded
        idx = [n for n in walk_own(m.node) if isinstance(n, ast.Call) and is_method_call(n, 'index')]
        ok = len(idx) == 1 and isinstance(idx[0].args[0], ast.Name)
        var = idx[0].args[0].id if ok else None
        # the step goes to the neighbour in the right direction and then descends to first/last child
        nb = [n for n in walk_own(m.node) if isinstance(n, ast.Assign) and norm(n.targets[0]) == var
              and isinstance(n.value, ast.Subscript) and isinstance(n.value.slice, ast.BinOp)]
        ok = ok and len(nb) == 1 and isinstance(nb[0].value.slice.op, ast.Add if step == '+' else ast.Sub) \
            and norm(nb[0].value.slice.right) == '1'
        desc = [n for n in walk_own(m.node) if isinstance(n, ast.Assign) and norm(n.targets[0]) == var
                and norm(n.value) == ('%s.children[0]' % var if step == '+' else '%s.children[-1]' % var)]
        rep.ob('TREE-2', TREE, m.qual, 'climb to an ancestor with a further sibling, step %s1, descend' % step,
               ok and len(desc) == 1, 'leaf stepping no longer moves to the adjacent sibling and descends to its first/last leaf')
    rep.minimum('TREE-2', 5)


# ---------------------------------------------------------------------------
def constructible_classes(ctx):
    """Tree classes the parser / diff parser can instantiate."""
    prog = ctx.prog
    root, classes = tree_hierarchy(ctx)
    out = set()
    for f in prog.funcs.values():
        for site in ctx.cg.sites[f.key]:
            ctx.cg.resolve_call(f, site.node)
            for c in ctx.cg._last_ctor_classes:
                if root in c.mro:
                    out.add(c)
            r = ctx.cg.callee_object(f, site.node.func)
            if isinstance(r, Cls) and root in r.mro:
                out.add(r)
    return out


def dump_formatter(ctx):
    """The recursive function that renders one node for dump(): the closure of NodeOrLeaf.dump, or - when it was moved
    out - the recursive module-level function dump() calls.  Small helpers it was split into are read in place."""
    prog = ctx.prog
    d = prog.func(TREE, 'NodeOrLeaf.dump')
    cands = list(d.nested.values())
    for n in walk_own(d.node):
        if isinstance(n, ast.Call) and isinstance(n.func, ast.Name):
            t = prog.resolve_global(d.mod, n.func.id)
            if isinstance(t, Func) and t.mod is d.mod and t not in cands:
                cands.append(t)
    rec = [g for g in cands if any(isinstance(c, ast.Call) and isinstance(c.func, ast.Name) and c.func.id == g.name
                                   for c in walk_own(g.node))]
    if len(rec) != 1:
        raise AnalysisError('anchor vanished: the recursive formatter of NodeOrLeaf.dump (%d candidates)' % len(rec))
    return ctx.view(rec[0], keep=(rec[0].name,))


def tree_3(ctx, rep):
    rep.rule('TREE-3', 'for every tree class the parser can instantiate, the argument list dump() prints for its '
                       'category binds against the MRO-resolved __init__, and the class name is public in parso.python.tree')
    prog = ctx.prog
    dump = dump_formatter(ctx)
    src = norm(dump.node, 5000)
    anchors = ['isinstance(node, Leaf)', 'isinstance(node, ErrorLeaf)', 'isinstance(node, TypedLeaf)',
               'isinstance(node, BaseNode)', 'isinstance(node, Node)', 'node.token_type', 'node.value', 'node.start_pos',
               'prefix=', 'node.children', 'type(node).__name__']
    missing = [a for a in anchors if a not in src]
    if missing:
        # not a finding about the tree classes: the rule no longer recognises how dump() prints a node
        raise AnalysisError('TREE-3: the formatter of dump() is not recognised any more (missing %s): the agreement between '
                            'what it prints and the constructors cannot be checked' % missing)
    rep.ob('TREE-3', TREE, dump.qual, 'category branches of _format_dump', True)
    leaf = prog.cls(TREE, 'Leaf')
    eleaf = prog.cls(TREE, 'ErrorLeaf')
    tleaf = prog.cls(TREE, 'TypedLeaf')
    bnode = prog.cls(TREE, 'BaseNode')
    node = prog.cls(TREE, 'Node')
    pymod = prog.mod(PYTREE)
    for c in sorted(constructible_classes(ctx), key=lambda c: c.name):
        if leaf in c.mro:
            pos = (['token_type'] if eleaf in c.mro else ['type'] if tleaf in c.mro else []) + ['value', 'start_pos']
            kws = ['prefix']
        elif bnode in c.mro:
            pos = (['type'] if node in c.mro else []) + ['children']
            kws = []
        else:
            continue
        init = c.lookup('__init__')
        if init is None:
            rep.ob('TREE-3', c.mod.rel, c.qual, 'class %s' % c.name, False, 'no __init__ in the MRO')
            continue
        a = init.node.args
        params = [x.arg for x in a.posonlyargs + a.args][1:]
        n_required = len(params) - len(a.defaults)
        ok = n_required <= len(pos) <= len(params) or (a.vararg is not None and n_required <= len(pos))
        # positional roles must line up
        roles_ok = all(params[i] == pos[i] for i in range(min(len(pos), len(params))))
        kw_ok = all(k in params or a.kwarg is not None for k in kws)
        public = not c.name.startswith('_') and (c.name in pymod.classes or prog.resolve_global(pymod, c.name) is c)
        rep.ob('TREE-3', c.mod.rel, c.qual, '%s(%s%s)' % (c.name, ', '.join(pos), ', prefix=...' if kws else ''),
               ok and roles_ok and kw_ok and public,
               'dump() prints %s(%s) but %s is def __init__(self, %s)%s' % (
                   c.name, ', '.join(pos + [k + '=' for k in kws]), init.qual, ', '.join(params),
                   '' if public else '; name not public in parso.python.tree'))
    rep.minimum('TREE-3', 24)


# ---------------------------------------------------------------------------
def tree_4(ctx, rep):
    rep.rule('TREE-4', 'every instance attribute a tree class assigns is a declared slot (or the class has a __dict__); '
                       'no __getstate__/__setstate__/__reduce__ overrides default pickling')
    prog = ctx.prog
    root, classes = tree_hierarchy(ctx)
    # include mixins that occur in the MRO of tree classes
    allc = []
    for c in classes:
        for k in c.mro:
            if isinstance(k, Cls) and k not in allc:
                allc.append(k)
    concrete = [c for c in classes]
    for k in allc:
        for bad in ('__getstate__', '__setstate__', '__reduce__', '__reduce_ex__', '__getnewargs__'):
            if bad in k.methods:
                rep.ob('TREE-4', k.mod.rel, k.qual, 'def %s' % bad, False, 'custom pickling hook in the tree hierarchy')
    for c in sorted(concrete, key=lambda c: c.qual):
        has_dict = c.has_dict()
        slots = c.all_slots()
        props = set()
        for k in c.mro:
            if isinstance(k, Cls):
                for name, m in k.methods.items():
                    if any('setter' in d for d in m.decorators()) or 'property' in m.decorators():
                        props.add(name)
                # a second def with the same name (setter) is indexed under name#2
        assigned = {}
        for k in c.mro:
            if not isinstance(k, Cls):
                continue
            for m in k.methods.values():
                sn = ctx.cg.self_name(m)
                for n in walk_own(m.node):
                    if isinstance(n, (ast.Assign, ast.AugAssign, ast.AnnAssign)):
                        tg = n.targets if isinstance(n, ast.Assign) else [n.target]
                        for t in tg:
                            if isinstance(t, ast.Attribute) and isinstance(t.value, ast.Name) and t.value.id == sn:
                                assigned.setdefault(t.attr, m.qual)
        bad = sorted(a for a in assigned if a not in slots and a not in props and not has_dict)
        rep.ob('TREE-4', c.mod.rel, c.qual, 'class %s: attributes %s' % (c.name, sorted(assigned)), not bad,
               'attribute(s) %s assigned in %s are neither slots nor properties and the class has no __dict__ '
               '(AttributeError at construction / lost on pickling)' % (bad, [assigned[b] for b in bad]))
    rep.minimum('TREE-4', 40)


# ---------------------------------------------------------------------------
def tree_7(ctx, rep):
    rep.rule('TREE-7', 'parameter grouping is idempotent: each _create_params call in a constructor is reachable only '
                       'when no child is a Param yet')
    prog = ctx.prog
    n_sites = 0
    for f in prog.funcs.values():
        if f.mod.rel != PYTREE or f.name == '_create_params':
            continue            # constructors, or the helper they share for the grouping
        if not any(isinstance(c, ast.Call) and isinstance(c.func, ast.Name) and c.func.id == '_create_params' for c in walk_own(f.node)):
            continue
        cfg = ctx.cfg(f)
        for n in cfg.nodes:
            for c in calls_in(n, lambda c: isinstance(c.func, ast.Name) and c.func.id == '_create_params'):
                n_sites += 1
                ok = only_via(cfg, n, lambda e: isinstance(e, ast.Call) and norm(e.func) == 'any'
                              and 'isinstance' in norm(e) and 'Param' in norm(e), 'F')
                rep.ob('TREE-7', PYTREE, f.qual, norm(c), ok,
                       'constructing the class from already grouped children (dump()/eval, unpickling helpers) groups the '
                       'parameters a second time')
    rep.minimum('TREE-7', 1)


# ---------------------------------------------------------------------------
def tree_5(ctx, rep):
    rep.rule('TREE-5', 'RefactoringNormalizer does not chain to Normalizer.__init__: every self attribute read by the '
                       'methods reachable from walk() is class-level or set by its own __init__; visit/visit_leaf return '
                       'the mapped string or exactly prefix + value / the joined children')
    prog = ctx.prog
    cls = prog.cls(NORMALIZER, 'RefactoringNormalizer')
    init = cls.methods.get('__init__')
    own = set()
    chains = False
    if init is not None:
        for n in walk_own(init.node):
            if isinstance(n, ast.Assign):
                for t in n.targets:
                    if isinstance(t, ast.Attribute) and norm(t.value) == 'self':
                        own.add(t.attr)
            if isinstance(n, ast.Call) and 'super()' in norm(n.func) and is_method_call(n, '__init__'):
                chains = True
    if chains or init is None:
        rep.note('TREE-5: RefactoringNormalizer chains to the base constructor; attribute rule holds trivially')
    # methods reachable from walk through self-calls
    todo = ['walk']
    seen = {}
    while todo:
        name = todo.pop()
        if name in seen:
            continue
        m = cls.lookup(name)
        if m is None:
            continue
        seen[name] = m
        for n in walk_own(m.node):
            if isinstance(n, ast.Call) and isinstance(n.func, ast.Attribute):
                if norm(n.func.value) == 'self':
                    todo.append(n.func.attr)
                elif norm(n.func.value) == 'super()':
                    # super().x from a method defined in class K -> next in MRO after K
                    k = m.cls
                    mro = cls.mro
                    for c in mro[mro.index(k) + 1:]:
                        if isinstance(c, Cls) and n.func.attr in c.methods:
                            sm = c.methods[n.func.attr]
                            seen.setdefault('%s@%s' % (n.func.attr, c.name), sm)
                            for n2 in walk_own(sm.node):
                                if isinstance(n2, ast.Call) and isinstance(n2.func, ast.Attribute) and norm(n2.func.value) == 'self':
                                    todo.append(n2.func.attr)
                            break
    classlevel = set()
    for c in cls.mro:
        if isinstance(c, Cls):
            classlevel |= set(c.attrs) | set(c.methods)
    # metaclass-provided attributes
    classlevel |= {'rule_value_classes', 'rule_type_classes'}
    for name, m in sorted(seen.items()):
        reads = set()
        for n in walk_own(m.node):
            if isinstance(n, ast.Attribute) and isinstance(n.ctx, ast.Load) and norm(n.value) == 'self':
                reads.add(n.attr)
        bad = sorted(r for r in reads if r not in own and r not in classlevel and not chains)
        rep.ob('TREE-5', m.mod.rel, m.qual, 'self attributes read: %s' % sorted(reads), not bad,
               'attribute(s) %s are only set by Normalizer.__init__, which RefactoringNormalizer does not call' % bad)
    # return values
    norm_cls = prog.cls(NORMALIZER, 'Normalizer')
    vl = norm_cls.methods.get('visit_leaf')
    ok = vl is not None and [concat_terms(r.value) for r in walk_own(vl.node) if isinstance(r, ast.Return)] == \
        [['%s.prefix' % vl.params()[1], '%s.value' % vl.params()[1]]]
    rep.ob('TREE-5', NORMALIZER, 'Normalizer.visit_leaf', 'return leaf.prefix + leaf.value', ok,
           'the default leaf rendering is not prefix + value')
    v = norm_cls.methods.get('visit')
    ok = False
    if v is not None:
        for r in walk_own(v.node):
            if isinstance(r, ast.Return) and isinstance(r.value, ast.Call) and is_method_call(r.value, 'join') \
                    and isinstance(r.value.func.value, ast.Constant) and r.value.func.value.value == '':
                g = r.value.args[0]
                if isinstance(g, (ast.GeneratorExp, ast.ListComp)) and len(g.generators) == 1 and not g.generators[0].ifs \
                        and norm(g.elt) == 'self.visit(%s)' % norm(g.generators[0].target):
                    it = g.generators[0].iter
                    node_param = v.params()[1]
                    if norm(it) == '%s.children' % node_param:
                        ok = True
                    elif isinstance(it, ast.Name):
                        vals = [norm(a.value) for a in walk_own(v.node) if isinstance(a, ast.Assign)
                                and any(isinstance(t, ast.Name) and t.id == it.id for t in a.targets)]
                        ok = vals == ['%s.children' % node_param]
    rep.ob('TREE-5', NORMALIZER, 'Normalizer.visit', "return ''.join(self.visit(child) for child in children)", ok,
           'the default node rendering is not the in-order join of all children')
    # ... and nothing else: every return of the default visit is the leaf rendering or that join (a shortcut that renders some
    # node type as a constant belongs in the subclass that wants it; here it would cut the text out of refactor())
    if v is not None:
        node_param = v.params()[1]
        other = []
        for r in walk_own(v.node):
            if not isinstance(r, ast.Return):
                continue
            val = r.value
            if isinstance(val, ast.Call) and is_method_call(val, 'join'):
                continue
            if isinstance(val, ast.Call) and norm(val.func) == 'self.visit_leaf' and [norm(a) for a in val.args] == [node_param]:
                continue
            other.append(norm(val) if val is not None else 'None')
        rep.ob('TREE-5', NORMALIZER, 'Normalizer.visit', 'every return is the leaf rendering or the join of the children', not other,
               'the default traversal renders some nodes as %s: RefactoringNormalizer falls back to it for every unmapped node, so '
               'the text of such a node is dropped by refactor()' % other)
    # the map lookup: a mapped node / leaf returns its string *whatever that string is* (also ''), everything
    # else falls through to the default rendering.  Accepted forms: try/except KeyError around map[x], or
    # `if x in map: return map[x]`.  A truthiness test on the looked-up value (x.get(..) or ..) is wrong for ''.
    vm = cls.methods.get('visit')
    if vm is None:
        rep.ob('TREE-5', NORMALIZER, 'RefactoringNormalizer.visit', 'def visit', False, 'the map lookup vanished')
    for name in ('visit', 'visit_leaf'):
        m = cls.methods.get(name)
        if m is None:
            continue
        arg = m.params()[1]
        rets = [r.value for r in walk_own(m.node) if isinstance(r, ast.Return) and r.value is not None]
        mapped = [r for r in rets if isinstance(r, ast.Subscript) and norm(r) == 'self._node_to_str_map[%s]' % arg]
        default = [r for r in rets if norm(r) == 'super().%s(%s)' % (name, arg)]
        other = [r for r in rets if r not in mapped and r not in default]
        tr = [n for n in walk_own(m.node) if isinstance(n, ast.Try)]
        guarded = (len(tr) == 1 and any('KeyError' in norm(h.type) for h in tr[0].handlers if h.type is not None)) or any(
            isinstance(n, ast.If) and isinstance(n.test, ast.Compare) and isinstance(n.test.ops[0], ast.In)
            and norm(n.test.left) == arg and norm(n.test.comparators[0]) == 'self._node_to_str_map' for n in walk_own(m.node))
        ok = bool(mapped) and bool(default) and not other and guarded
        rep.ob('TREE-5', NORMALIZER, m.qual, 'mapped string (whatever it is), else the default rendering', ok,
               'refactoring returns %s%s' % ([norm(r) for r in rets],
                                           ': a truthiness test on the mapped string drops empty replacements' if any(
                                               isinstance(r, ast.BoolOp) for r in other) else ''))
    rep.minimum('TREE-5', 7)


# ---------------------------------------------------------------------------
STRUCTURAL_ATTRS = {'parent', 'children', 'value', 'line', 'column', 'prefix', 'type', 'token_type', 'start_pos'}


def memo_slots(ctx):
    """Derived-data slots of tree classes: slots that are not structural and are assigned by a method other
    than a constructor / property setter (of the declaring class or a subclass), e.g. lazily under an
    `is None` test.  -> [(declaring class, slot, assigning method)]"""
    prog = ctx.prog
    root, classes = tree_hierarchy(ctx)
    out = []
    seen = set()
    for c in classes:
        slots = set()
        for k in c.mro:
            if isinstance(k, Cls) and k.slots:
                slots |= set(k.slots)
        for m in c.methods.values():
            if m.name == '__init__' or any('setter' in d for d in m.decorators()):
                continue
            sn = ctx.cg.self_name(m)
            for n in walk_own(m.node):
                if isinstance(n, (ast.Assign, ast.AugAssign, ast.AnnAssign)):
                    for t in (n.targets if isinstance(n, ast.Assign) else [n.target]):
                        for sub in ([t] if not isinstance(t, (ast.Tuple, ast.List)) else t.elts):
                            if isinstance(sub, ast.Attribute) and isinstance(sub.value, ast.Name) and sub.value.id == sn \
                                    and sub.attr not in STRUCTURAL_ATTRS and (sub.attr in slots or c.has_dict()):
                                decl = next((k for k in c.mro if isinstance(k, Cls) and k.slots and sub.attr in k.slots), c)
                                if (decl.key, sub.attr) not in seen:
                                    seen.add((decl.key, sub.attr))
                                    out.append((decl, sub.attr, m))
    return out


def tree_6(ctx, rep):
    rep.rule('TREE-6', 'every derived-data slot of a tree class (non-structural attribute assigned outside constructors) is reset by '
                       'DiffParser.update before anything else happens; update returns only after _nodes_tree.close()')
    prog = ctx.prog
    memos = memo_slots(ctx)
    up = prog.func(DIFF, 'DiffParser.update')
    cfg = ctx.cfg(up)
    dom = cfg.dominators()
    callnodes = [n for n in cfg.nodes if calls_in(n, lambda c: isinstance(c.func, ast.Attribute) and norm(c.func.value).startswith('self'))]
    for c, slot, m in memos:
        resets = [n for n in cfg.nodes if n.kind == 'stmt' and isinstance(n.ast, ast.Assign)
                  and any(isinstance(t, ast.Attribute) and t.attr == slot for t in n.ast.targets)
                  and isinstance(n.ast.value, ast.Constant) and n.ast.value.value is None]
        ok = bool(resets) and all(any(r in dom[x] for r in resets) for x in callnodes)
        rep.ob('TREE-6', DIFF, up.qual, 'reset of memo %s.%s (filled in %s)' % (c.name, slot, m.qual), ok,
               'the incremental parser mutates the tree without invalidating %s.%s first: stale derived data is served'
               % (c.name, slot))
    rep.minimum('TREE-6', 1, 'Module._used_names')
    close = [n for n in cfg.nodes if calls_in(n, lambda c: is_method_call(c, 'close') and '_nodes_tree' in norm(c.func.value))]
    rets = [n for n in cfg.nodes if n.kind == 'stmt' and isinstance(n.ast, ast.Return)]
    ok = len(close) == 1 and bool(rets) and all(close[0] in dom[r] for r in rets)
    rep.ob('TREE-6', DIFF, up.qual, 'self._nodes_tree.close() dominates every return', ok,
           'update can return the module before the collected nodes were written back into the tree')
    rep.ob('TREE-6', DIFF, up.qual, 'returns self._module', bool(rets) and all(norm(r.ast.value) == 'self._module' for r in rets),
           'update does not return the updated module')


# ---------------------------------------------------------------------------
# TREE-9: whatever is stored in a slot of a tree class can be pickled
# ---------------------------------------------------------------------------
UNPICKLABLE_CALLS = {
    'MappingProxyType': 'mappingproxy objects cannot be pickled',
    'types.MappingProxyType': 'mappingproxy objects cannot be pickled',
    'iter': 'iterators cannot be pickled reliably', 'zip': 'zip objects cannot be relied on', 'map': 'map objects are lazy iterators',
    'filter': 'filter objects are lazy iterators', 'reversed': 'reverse iterators', 'enumerate': 'enumerate objects',
    'open': 'file objects cannot be pickled', 'threading.Lock': 'locks cannot be pickled', 'threading.RLock': 'locks cannot be pickled',
    'Lock': 'locks cannot be pickled', 'RLock': 'locks cannot be pickled',
    'weakref.ref': 'weak references cannot be pickled', 'weakref.proxy': 'weak references cannot be pickled',
    'itertools.chain': 'lazy iterator', 'itertools.count': 'lazy iterator',
}


def _unpicklable(f, e, depth=0):
    """reason when expression ``e`` evaluates to a value the pickle module rejects (or only accepts by accident)"""
    if depth > 2:
        return None
    if isinstance(e, ast.Lambda):
        return 'lambda functions cannot be pickled'
    if isinstance(e, ast.GeneratorExp):
        return 'generator objects cannot be pickled'
    if isinstance(e, ast.Call):
        name = norm(e.func)
        if name in UNPICKLABLE_CALLS:
            return UNPICKLABLE_CALLS[name]
        if isinstance(e.func, ast.Attribute) and e.func.attr in ('keys', 'values', 'items') and not e.args:
            return 'dict views cannot be pickled'
    if isinstance(e, ast.Name):
        # a nested function / a local assigned from something unpicklable
        for n in walk_own(f.node):
            if isinstance(n, (ast.FunctionDef, ast.AsyncFunctionDef)) and n.name == e.id and n is not f.node:
                return 'locally defined functions cannot be pickled'
        vals = [n.value for n in walk_own(f.node) if isinstance(n, ast.Assign)
                and any(isinstance(t, ast.Name) and t.id == e.id for t in n.targets)]
        for v in vals:
            r = _unpicklable(f, v, depth + 1)
            if r:
                return r
    if isinstance(e, ast.IfExp):
        return _unpicklable(f, e.body, depth + 1) or _unpicklable(f, e.orelse, depth + 1)
    return None


def tree_9(ctx, rep):
    rep.rule('TREE-9', 'every value stored in an instance attribute of a tree class (a slot that is pickled with the tree) is of '
                       'a picklable kind: no mappingproxy, generator, lambda, local function, iterator, dict view, lock, file')
    root, classes = tree_hierarchy(ctx)
    slots = set()
    for c in classes:
        for k in c.mro:
            if isinstance(k, Cls) and k.slots:
                slots |= set(k.slots)
    n_sites = 0
    for rel in (TREE, PYTREE, DIFF, 'parso/parser.py', 'parso/python/parser.py'):
        mod = ctx.prog.mod(rel)
        for f in mod.funcs.values():
            for n in walk_own(f.node):
                if not isinstance(n, ast.Assign):
                    continue
                for t in n.targets:
                    for sub in ([t] if not isinstance(t, (ast.Tuple, ast.List)) else t.elts):
                        if isinstance(sub, ast.Attribute) and sub.attr in slots and sub.attr not in ('parent',):
                            owner = f.cls
                            in_tree_class = owner is not None and owner in classes
                            if rel in (TREE, PYTREE) and not in_tree_class and not isinstance(sub.value, ast.Name):
                                continue
                            n_sites += 1
                            why = _unpicklable(f, n.value)
                            rep.ob('TREE-9', rel, f.qual, norm(n), why is None,
                                   'the value stored in slot %s is pickled with the tree: %s' % (sub.attr, why))
    rep.minimum('TREE-9', 10)


# ---------------------------------------------------------------------------
# TREE-10: the position lookup returns what its descent located
# ---------------------------------------------------------------------------
def tree_10(ctx, rep):
    rep.rule('TREE-10', 'BaseNode.get_leaf_for_position returns only None, a child it selected from self.children by its '
                        'search bounds, or the result of the same lookup on that child; no sibling / leaf navigation '
                        '(get_next_leaf, get_previous_leaf, get_first_leaf ...) substitutes another leaf for the located one')
    f = ctx.prog.func(TREE, 'BaseNode.get_leaf_for_position')
    funcs = [f] + list(f.nested.values())
    # the search may be a private method of the class instead of a closure
    sn = ctx.cg.self_name(f)
    for n in walk_own(f.node):
        if isinstance(n, ast.Call) and isinstance(n.func, ast.Attribute) and isinstance(n.func.value, ast.Name) \
                and n.func.value.id == sn and n.func.attr.startswith('_') and f.cls is not None:
            h = f.cls.lookup(n.func.attr)
            if h is not None and h not in funcs and h.mod is f.mod:
                funcs.append(h)
    names = {g.name for g in funcs}
    n_ret = 0
    # names (of the method itself, visible in its closures) that hold the children list
    child_lists = {'%s.children' % sn}
    for n in walk_own(f.node):
        if isinstance(n, ast.Assign) and len(n.targets) == 1 and isinstance(n.targets[0], ast.Name) \
                and norm(n.value) == '%s.children' % sn:
            child_lists.add(n.targets[0].id)
    for g in funcs:
        # locals that hold a child selected by index
        located = set()
        for n in walk_own(g.node):
            if isinstance(n, ast.Assign) and len(n.targets) == 1 and isinstance(n.targets[0], ast.Name) \
                    and isinstance(n.value, ast.Subscript) and norm(n.value.value) in child_lists:
                located.add(n.targets[0].id)
        for n in walk_own(g.node):
            if not isinstance(n, ast.Return) or n.value is None:
                continue
            v = n.value
            n_ret += 1
            ok = False
            if isinstance(v, ast.Constant) and v.value is None:
                ok = True
            elif isinstance(v, ast.Name) and v.id in located:
                ok = True
            elif isinstance(v, ast.Subscript) and norm(v.value) in child_lists:
                ok = True
            elif isinstance(v, ast.Call):
                fn = v.func
                if isinstance(fn, ast.Name) and fn.id in names:
                    ok = True                                   # the search recursing on narrower bounds
                elif isinstance(fn, ast.Attribute) and fn.attr in names and fn.attr != f.name and isinstance(fn.value, ast.Name) \
                        and fn.value.id == sn:
                    ok = True                                   # ... the search being a method
                elif isinstance(fn, ast.Attribute) and fn.attr == f.name and isinstance(fn.value, ast.Name) and fn.value.id in located:
                    ok = True                                   # the same lookup on the located child
            rep.ob('TREE-10', TREE, g.qual, 'return %s' % norm(v), ok,
                   'the lookup hands out %s instead of the child its search located (or that child\'s own lookup result)' % norm(v))
    rep.minimum('TREE-10', 5)


# ---------------------------------------------------------------------------
# TREE-11: node types are looked up in collections, never in a string
# ---------------------------------------------------------------------------
def tree_11(ctx, rep):
    rep.rule('TREE-11', 'in the tree modules a node type is tested for membership (`x.type in C`) only in a collection: a '
                        'tuple / list / set display, a module-level collection, or the *args tuple itself (never rebound): '
                        'if C can be a plain string the test becomes a substring test (`"expr" in "expr_stmt"`)')
    n_sites = 0
    for rel in (TREE, PYTREE):
        mod = ctx.prog.mod(rel)
        folder = None
        for f in mod.funcs.values():
            a = f.node.args
            vararg = a.vararg.arg if a.vararg else None
            for n in walk_own(f.node):
                if not (isinstance(n, ast.Compare) and len(n.ops) == 1 and isinstance(n.ops[0], (ast.In, ast.NotIn))
                        and isinstance(n.left, ast.Attribute) and n.left.attr == 'type'):
                    continue
                c = n.comparators[0]
                n_sites += 1
                ok, why = False, 'the container %s is not known to be a collection' % norm(c)
                if isinstance(c, (ast.Tuple, ast.List, ast.Set)):
                    ok = True
                elif isinstance(c, ast.Constant) and isinstance(c.value, str):
                    ok, why = False, 'the container is a string literal: substring test'
                elif isinstance(c, ast.Name):
                    stores = [x for x in walk_own(f.node) if isinstance(x, ast.Name) and x.id == c.id and isinstance(x.ctx, ast.Store)]
                    # a closure variable: the *args of an enclosing function
                    g = f.outer
                    own_vararg = vararg
                    while g is not None and c.id != own_vararg and not stores and c.id not in f.all_params():
                        ga = g.node.args
                        if ga.vararg and ga.vararg.arg == c.id:
                            own_vararg = c.id
                            stores = [x for x in walk_own(g.node) if isinstance(x, ast.Name) and x.id == c.id and isinstance(x.ctx, ast.Store)]
                            break
                        g = g.outer
                    if c.id == own_vararg:
                        ok = not stores
                        why = 'the *%s tuple is rebound in %s (to one of its elements?): a single type name turns the test into ' \
                              'a substring test' % (c.id, f.qual)
                    elif not stores and c.id not in f.all_params():
                        vals = [v for v in mod.globals.get(c.id, []) or [] if v is not None]
                        ok = bool(vals) and all(isinstance(v, (ast.Tuple, ast.List, ast.Set, ast.Call, ast.BinOp)) for v in vals)
                    elif stores:
                        vals = [s_._parent.value for s_ in stores if isinstance(getattr(s_, '_parent', None), ast.Assign)]
                        ok = bool(vals) and len(vals) == len(stores) and all(isinstance(v, (ast.Tuple, ast.List, ast.Set, ast.SetComp, ast.ListComp)) for v in vals)
                    else:
                        rep.skip('TREE-11', rel, f.qual, norm(n), 'container is a parameter: decided at the call sites, not here')
                        continue
                else:
                    rep.skip('TREE-11', rel, f.qual, norm(n), 'container expression not classified')
                    continue
                rep.ob('TREE-11', rel, f.qual, norm(n), ok, why)
    rep.minimum('TREE-11', 3)
