"""Generator rules GEN-1 .. GEN-3 (engine E7) for parso/pgen2/generator.py."""
import ast

from ..model import AnalysisError, norm, head, walk_own
from .par import only_via, calls_in, reachable_with_edges_removed

GEN = 'parso/pgen2/generator.py'


def _raises_only(cfg, starts):
    """All paths from ``starts`` end in the raise exit (no normal exit, no loop continuation)."""
    seen = set()
    todo = list(starts)
    while todo:
        n = todo.pop()
        if n in seen:
            continue
        seen.add(n)
        if n is cfg.exit or n.kind in ('next', 'next0'):
            return False
        for s, lab in n.succ:
            if lab != 'exc':
                todo.append(s)
    return cfg.raise_exit in seen


def gen_1(ctx, rep):
    rep.rule('GEN-1', 'in _calculate_tree_traversal every store into a transitions table is reachable only through the '
                      'false edge of a membership test on that table whose true edge raises (no silent conflict resolution)')
    f = ctx.prog.func(GEN, '_calculate_tree_traversal')
    cfg = ctx.cfg(f)
    # aliases of <x>.transitions
    aliases = set()
    for n in walk_own(f.node):
        if isinstance(n, ast.Assign) and isinstance(n.value, ast.Attribute) and n.value.attr == 'transitions':
            aliases |= {norm(t) for t in n.targets}
    stores = []
    for n in cfg.nodes:
        if n.kind == 'stmt' and isinstance(n.ast, ast.Assign):
            for t in n.ast.targets:
                if isinstance(t, ast.Subscript) and (norm(t.value) in aliases or norm(t.value).endswith('.transitions')):
                    stores.append((n, t))
    for n, t in stores:
        table, key = norm(t.value), norm(t.slice)

        def is_member_test(e, table=table, key=key):
            return isinstance(e, ast.Compare) and len(e.ops) == 1 and isinstance(e.ops[0], ast.In) \
                and norm(e.left) == key and norm(e.comparators[0]) == table
        ok = only_via(cfg, n, is_member_test, 'F')
        tests = [x for x in cfg.nodes if x.kind == 'test' and is_member_test(x.ast)]
        raises = bool(tests) and all(_raises_only(cfg, [s for s, lab in x.succ if lab == 'T']) for x in tests)
        rep.ob('GEN-1', GEN, f.qual, norm(n.ast), ok and raises,
               'transition table entry can be overwritten: the store is not guarded by `%s in %s` raising on a conflict'
               % (key, table))
    rep.minimum('GEN-1', 1)
    # the loop must visit every state and every nonterminal arc: no continue/break that skips states
    skips = [n for n in walk_own(f.node) if isinstance(n, (ast.Break, ast.Continue))]
    rep.ob('GEN-1', GEN, f.qual, 'no break / continue in the traversal loops', not skips,
           'a break/continue can skip states or arcs when computing the action table')


def gen_2(ctx, rep):
    rep.rule('GEN-2', 'in _calculate_first_plans the left-recursion sentinel is stored before any recursive call and the '
                      'test that finds the sentinel raises')
    f = ctx.prog.func(GEN, '_calculate_first_plans')
    cfg = ctx.cfg(f)
    params = f.params()
    sentinel = [n for n in cfg.nodes if n.kind == 'stmt' and isinstance(n.ast, ast.Assign)
                and isinstance(n.ast.value, ast.Constant) and n.ast.value.value is None
                and isinstance(n.ast.targets[0], ast.Subscript)]
    rec = [n for n in cfg.nodes if calls_in(n, lambda c: isinstance(c.func, ast.Name) and c.func.id == f.name)]
    dom = cfg.dominators(skip_exc=False)
    ok = len(sentinel) == 1 and bool(rec) and all(sentinel[0] in dom[r] for r in rec)
    rep.ob('GEN-2', GEN, f.qual, 'sentinel store dominates the recursive call', ok,
           'recursion can start before the rule is marked as in progress (left recursion would recurse forever)')
    tests = [n for n in cfg.nodes if n.kind == 'test' and isinstance(n.ast, ast.Compare)
             and isinstance(n.ast.ops[0], ast.Is) and isinstance(n.ast.comparators[0], ast.Constant)
             and n.ast.comparators[0].value is None]
    ok = bool(tests) and all(_raises_only(cfg, [s for s, lab in t.succ if lab == 'T']) for t in tests)
    rep.ob('GEN-2', GEN, f.qual, 'sentinel found => raise', ok, 'finding the in-progress sentinel does not raise an error')
    # the final store replaces the sentinel on every normal exit
    final = [n for n in cfg.nodes if n.kind == 'stmt' and isinstance(n.ast, ast.Assign)
             and isinstance(n.ast.targets[0], ast.Subscript) and n not in sentinel
             and sentinel and norm(n.ast.targets[0]) == norm(sentinel[0].ast.targets[0])]
    reach = cfg.reachable(blocked=final, labels_blocked=('exc',))
    rep.ob('GEN-2', GEN, f.qual, 'result stored on every normal exit', bool(final) and cfg.exit not in reach,
           'a normal exit leaves the None sentinel in first_plans')
    # every nonterminal of the grammar gets its first plans: the driver loop has no filter besides `not in`
    g = ctx.prog.func(GEN, '_calculate_tree_traversal')
    calls = [n for n in walk_own(g.node) if isinstance(n, ast.Call) and isinstance(n.func, ast.Name) and n.func.id == f.name]
    rep.ob('GEN-2', GEN, g.qual, 'first plans computed for every nonterminal', len(calls) == 1, 'driver call vanished')


def gen_3(ctx, rep):
    rep.rule('GEN-3', 'DFAState.__eq__ compares finality and the arc maps of both operands before any `return True`; '
                      'is_final is membership of the NFA final state; states are merged only when equal')
    cls = ctx.prog.cls(GEN, 'DFAState')
    eq = cls.methods.get('__eq__')
    if eq is None:
        raise AnalysisError('anchor vanished: DFAState.__eq__')
    cfg = ctx.cfg(eq)
    rets_true = [n for n in cfg.nodes if n.kind == 'stmt' and isinstance(n.ast, ast.Return)
                 and isinstance(n.ast.value, ast.Constant) and n.ast.value.value is True]
    other = eq.params()[1] if len(eq.params()) > 1 else 'other'

    from ..model import xnorm as _xn

    def xn(e):
        return _xn(eq.node, e)

    def final_test(e):
        return isinstance(e, ast.Compare) and len(e.ops) == 1 and {xn(e.left), xn(e.comparators[0])} == \
            {'self.is_final', '%s.is_final' % other}

    def len_test(e):
        return isinstance(e, ast.Compare) and len(e.ops) == 1 and {xn(e.left), xn(e.comparators[0])} == \
            {'len(self.arcs)', 'len(%s.arcs)' % other}
    for r in rets_true:
        t1 = [n for n in cfg.nodes if n.kind == 'test' and final_test(n.ast)]
        lab1 = 'F' if t1 and isinstance(t1[0].ast.ops[0], ast.NotEq) else 'T'
        ok1 = only_via(cfg, r, final_test, lab1)
        t2 = [n for n in cfg.nodes if n.kind == 'test' and len_test(n.ast)]
        lab2 = 'F' if t2 and isinstance(t2[0].ast.ops[0], ast.NotEq) else 'T'
        ok2 = only_via(cfg, r, len_test, lab2)
        # arcs loop: a for over self.arcs.items() whose body returns False when targets differ, and `return True` after it
        loops = [n for n in walk_own(eq.node) if isinstance(n, ast.For) and 'arcs.items()' in xn(n.iter)]
        ok3 = False
        for lp in loops:
            for s in ast.walk(lp):
                if isinstance(s, ast.If) and isinstance(s.test, ast.Compare) and isinstance(s.test.ops[0], (ast.IsNot, ast.NotEq)) \
                        and '%s.arcs' % other in xn(s.test) and any(
                            isinstance(b, ast.Return) and isinstance(b.value, ast.Constant) and b.value.value is False for b in s.body):
                    ok3 = True
        nexts = [n for n in cfg.nodes if n.kind in ('next0', 'next') and loops and n.stmt is loops[0]]
        removed = {(n, 'done') for n in nexts}
        ok4 = bool(nexts) and r not in reachable_with_edges_removed(cfg, removed)
        rep.ob('GEN-3', GEN, eq.qual, 'return True', ok1 and ok2 and ok3 and ok4,
               'two DFA states can compare equal without equal finality (%s), equal arc count (%s) and identical arc '
               'targets (%s, after the loop: %s)' % (ok1, ok2, ok3, ok4))
    # any other way of returning a verdict (an expression instead of the constant True)
    for r in [n for n in walk_own(eq.node) if isinstance(n, ast.Return) and n.value is not None
              and not isinstance(n.value, ast.Constant) and norm(n.value) != 'NotImplemented']:
        v = r.value
        ok, why = False, 'the verdict %s is not a comparison the rule can follow' % norm(v)
        if isinstance(v, ast.Call) and norm(v.func) == 'all' and v.args and isinstance(v.args[0], (ast.GeneratorExp, ast.ListComp)):
            g = v.args[0]
            gen = g.generators[0]
            it = norm(gen.iter)
            if it == 'self.arcs.items()' and isinstance(gen.target, ast.Tuple) and len(gen.target.elts) == 2:
                label, nxt = norm(gen.target.elts[0]), norm(gen.target.elts[1])
                e = g.elt
                sides = {xn(e.left), xn(e.comparators[0])} if isinstance(e, ast.Compare) and len(e.ops) == 1 \
                    and isinstance(e.ops[0], ast.Is) else set()
                ok = sides in ({nxt, '%s.arcs.get(%s)' % (other, label)}, {nxt, '%s.arcs[%s]' % (other, label)})
                why = 'arc targets are not compared label by label: %s' % norm(e)
            else:
                why = ('arc targets are paired by position (%s), not by label: two dicts with the same keys can list them '
                       'in different orders' % it)
            # finality and arc count must still be established before
            ok = ok and any(final_test(n.ast) for n in cfg.nodes if n.kind == 'test')
        rep.ob('GEN-3', GEN, eq.qual, 'return %s' % norm(v)[:100], ok, why)
    rep.minimum('GEN-3', 1)
    init = cls.methods.get('__init__')
    ok = any(isinstance(n, ast.Assign) and norm(n.targets[0]) == 'self.is_final' and isinstance(n.value, ast.Compare)
             and isinstance(n.value.ops[0], ast.In) and norm(n.value.left) == 'final' and norm(n.value.comparators[0]) == 'nfa_set'
             for n in walk_own(init.node))
    rep.ob('GEN-3', GEN, init.qual, 'self.is_final = final in nfa_set', ok, 'finality is not membership of the NFA final state')
    # _simplify_dfas: deletion only under equality, followed by unifystate on every state
    s = ctx.prog.func(GEN, '_simplify_dfas')
    cfg = ctx.cfg(s)
    dels = [n for n in cfg.nodes if n.kind == 'stmt' and isinstance(n.ast, ast.Delete)]
    for d in dels:
        ok = only_via(cfg, d, lambda e: isinstance(e, ast.Compare) and len(e.ops) == 1 and isinstance(e.ops[0], ast.Eq)
                      and isinstance(e.left, ast.Name) and isinstance(e.comparators[0], ast.Name), 'T')
        lst, i = None, None
        p = getattr(d.ast, '_parent', None)
        body = p.body if p is not None and d.ast in getattr(p, 'body', []) else []
        follows = any(isinstance(x, ast.For) and 'unifystate' in norm(x) for x in body[body.index(d.ast):]) if body else False
        rep.ob('GEN-3', GEN, s.qual, norm(d.ast), ok and follows,
               'a DFA state is removed without being equal to the kept one / without redirecting arcs to the kept state')
    rep.minimum('GEN-3', 3)
    # add_arc never overwrites
    a = cls.methods.get('add_arc')
    ok = a is not None and any(isinstance(n, ast.Assert) and 'not in self.arcs' in norm(n.test) for n in walk_own(a.node))
    rep.ob('GEN-3', GEN, 'DFAState.add_arc', 'assert label not in self.arcs', ok, 'arcs can be silently overwritten')


# ---------------------------------------------------------------------------
# GEN-6: no memoised depth-first computation publishes an entry before it is complete
# ---------------------------------------------------------------------------
def gen_6(ctx, rep):
    rep.rule('GEN-6', 'a directly recursive function of the generator never hands out, on its early exit, a value it looked '
                      'up in a container that it itself fills *before* its recursive calls return: NFA / rule graphs have '
                      'cycles (X*, X+, recursion between rules), an entry published early is read back incomplete on a cycle '
                      '(the left-recursion sentinel, whose read raises, is the reasoned exception)')
    mod = ctx.prog.mod(GEN)
    n_rec = 0
    for f in mod.funcs.values():
        calls = [n for n in walk_own(f.node) if isinstance(n, ast.Call)
                 and ((isinstance(n.func, ast.Name) and n.func.id == f.name)
                      or (isinstance(n.func, ast.Attribute) and n.func.attr == f.name and f.cls is not None))]
        if not calls:
            continue
        n_rec += 1
        first_call = min(c.lineno for c in calls)
        # containers stored to before the first recursive call:  M[k] = v,  M.setdefault(k, v),  chained M[k] = x = v
        early_stores = {}
        for n in walk_own(f.node):
            if getattr(n, 'lineno', 10 ** 9) > first_call:
                continue
            if isinstance(n, ast.Assign):
                for t in n.targets:
                    if isinstance(t, ast.Subscript) and isinstance(t.value, ast.Name):
                        early_stores.setdefault(t.value.id, n)
            if isinstance(n, ast.Call) and isinstance(n.func, ast.Attribute) and n.func.attr == 'setdefault' \
                    and isinstance(n.func.value, ast.Name):
                early_stores.setdefault(n.func.value.id, n)
        bad = None
        for n in walk_own(f.node):
            if not (isinstance(n, ast.Return) and n.value is not None and n.lineno <= first_call):
                continue
            # the returned expression reads one of those containers (directly or through a local assigned from it)
            exprs = [n.value]
            if isinstance(n.value, ast.Name):
                exprs = [a.value for a in walk_own(f.node) if isinstance(a, ast.Assign)
                         and any(isinstance(t, ast.Name) and t.id == n.value.id for t in a.targets) and a.lineno <= n.lineno]
            for e in exprs:
                for x in ast.walk(e):
                    if isinstance(x, ast.Subscript) and isinstance(x.ctx, ast.Load) and isinstance(x.value, ast.Name) \
                            and x.value.id in early_stores:
                        bad = (x.value.id, n, early_stores[x.value.id])
                    if isinstance(x, ast.Call) and isinstance(x.func, ast.Attribute) and x.func.attr == 'get' \
                            and isinstance(x.func.value, ast.Name) and x.func.value.id in early_stores:
                        bad = (x.value.id if hasattr(x, 'value') else x.func.value.id, n, early_stores[x.func.value.id])
        if bad:
            # the sentinel pattern: the early store is the constant None and reading it back raises
            store = bad[2]
            sentinel = isinstance(store, ast.Assign) and isinstance(store.value, ast.Constant) and store.value.value is None
            if sentinel:
                rep.ob('GEN-6', GEN, f.qual, 'recursive %s: sentinel %s' % (f.name, norm(store)), True,
                       reason='the early entry is the None sentinel (GEN-2 shows that reading it raises)')
                continue
        rep.ob('GEN-6', GEN, f.qual, 'recursive %s' % f.name, bad is None,
               'entry of %s is stored (%s) before the recursive calls return and handed out by `%s`: on a cycle the '
               'incomplete entry is returned' % (bad[0], norm(bad[2]), norm(bad[1])) if bad else '')
    rep.minimum('GEN-6', 2, 'addclosure and _calculate_first_plans')
