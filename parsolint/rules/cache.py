"""Cache rules: EXC-1 (engine E8, exception escape) and CACHE-1 .. CACHE-4."""
import ast

from ..model import AnalysisError, norm, head, walk_own, Cls, Func, qual_of
from ..paths import only_via_feasible
from .par import only_via, calls_in, is_method_call

CACHE = 'parso/cache.py'
GRAMMAR = 'parso/grammar.py'

# ---------------------------------------------------------------------------
# E8: may-raise table for the standard-library calls used by parso/cache.py
# ---------------------------------------------------------------------------
MAY_RAISE = {
    'pickle.load': ['Exception'],          # documented: UnpicklingError, EOFError, AttributeError, ImportError, IndexError, ...
    'pickle.dump': ['OSError', 'pickle.PicklingError', 'RecursionError'],
    'open': ['OSError'],
    'os.path.getmtime': ['OSError'],
    'os.makedirs': ['OSError'],
    'os.listdir': ['OSError'],
    'os.scandir': ['OSError'],
    'os.remove': ['OSError'],
    'os.utime': ['OSError'],
    'os.replace': ['OSError'],
    'os.rename': ['OSError'],
    'os.unlink': ['OSError'],
    'os.fdopen': ['OSError'],
    'os.stat': ['OSError'],
    'os.path.getatime': ['OSError'],
    'os.path.getsize': ['OSError'],
    'tempfile.mkstemp': ['OSError'],
    'tempfile.NamedTemporaryFile': ['OSError'],
    'shutil.move': ['OSError'],
    'shutil.rmtree': ['OSError'],
    '.stat': ['OSError'],                  # DirEntry.stat / Path.stat
    '.close': [],
}
# builtin exception hierarchy (child -> parent) as far as needed
PARENT = {
    'FileNotFoundError': 'OSError', 'PermissionError': 'OSError', 'IsADirectoryError': 'OSError',
    'NotADirectoryError': 'OSError', 'FileExistsError': 'OSError', 'IOError': 'OSError', 'EnvironmentError': 'OSError',
    'OSError': 'Exception', 'EOFError': 'Exception', 'RecursionError': 'RuntimeError', 'RuntimeError': 'Exception',
    'pickle.PicklingError': 'pickle.PickleError', 'pickle.UnpicklingError': 'pickle.PickleError',
    'pickle.PickleError': 'Exception', 'AttributeError': 'Exception', 'ImportError': 'Exception',
    'IndexError': 'LookupError', 'KeyError': 'LookupError', 'LookupError': 'Exception', 'ValueError': 'Exception',
    'TypeError': 'Exception', 'NotImplementedError': 'RuntimeError', 'Exception': 'BaseException',
    'Warning': 'Exception',
    'UnicodeDecodeError': 'UnicodeError', 'UnicodeEncodeError': 'UnicodeError', 'UnicodeTranslateError': 'UnicodeError',
    'UnicodeError': 'ValueError', 'OverflowError': 'ArithmeticError', 'ArithmeticError': 'Exception',
}
ALIASES = {'IOError': 'OSError', 'EnvironmentError': 'OSError'}


def is_subclass(r, h):
    r = ALIASES.get(r, r)
    h = ALIASES.get(h, h)
    while r is not None:
        if r == h:
            return True
        r = PARENT.get(r)
    return False


def handler_classes(h):
    if h.type is None:
        return ['BaseException']
    if isinstance(h.type, ast.Tuple):
        return [norm(e) for e in h.type.elts]
    return [norm(h.type)]


def _protecting_handlers(node, fn_node):
    """Handler class lists of the try statements whose *body* encloses node, innermost first."""
    out = []
    child = node
    p = getattr(node, '_parent', None)
    while p is not None and p is not fn_node:
        if isinstance(p, ast.Try) and child in p.body:
            out.append([c for h in p.handlers for c in handler_classes(h)])
        child = p
        p = getattr(p, '_parent', None)
    return out


class Escape:
    """Which exception classes raised by file-system / unpickling calls can leave a function."""

    def __init__(self, ctx, modules=(CACHE,)):
        self.ctx = ctx
        self.modules = modules
        self.memo = {}

    def call_name(self, f, call):
        name = norm(call.func)
        root = name.split('.')[0]
        imp = f.mod.imports.get(root)
        if imp and imp[0] == 'obj' and not self.ctx.cg._is_local(f, root):
            return imp[1] + '.' + imp[2] + name[len(root):]
        return name

    def escapes(self, f, stack=()):
        """-> list of (exc class, origin (file, qual, construct), via)"""
        if f.key in self.memo:
            return self.memo[f.key]
        if f.key in stack:
            return []
        out = []
        for n in walk_own(f.node):
            raised = []
            if isinstance(n, ast.Call):
                name = self.call_name(f, n)
                if name in MAY_RAISE:
                    raised = [(r, (f.mod.rel, f.qual, norm(n)), []) for r in MAY_RAISE[name]]
                elif isinstance(n.func, ast.Attribute) and ('.' + n.func.attr) in MAY_RAISE \
                        and not isinstance(n.func.value, ast.Constant):
                    # only for receivers that are not parso objects
                    if not self.ctx.cg.type_of(f, n.func.value) and n.func.attr == 'stat':
                        raised = [(r, (f.mod.rel, f.qual, norm(n)), []) for r in MAY_RAISE['.' + n.func.attr]]
                else:
                    targets, how = self.ctx.cg.resolve_call(f, n)
                    for t in targets:
                        if t.mod.rel in self.modules:
                            for r, origin, via in self.escapes(t, stack + (f.key,)):
                                raised.append((r, origin, [t.qual] + via))
            elif isinstance(n, ast.Raise) and n.exc is not None:
                e = n.exc.func if isinstance(n.exc, ast.Call) else n.exc
                raised = [(norm(e), (f.mod.rel, f.qual, norm(n)), [])]
            for r, origin, via in raised:
                caught = False
                for hs in _protecting_handlers(n, f.node):
                    if any(is_subclass(r, h) for h in hs):
                        caught = True
                        break
                if not caught:
                    out.append((r, origin, via))
        self.memo[f.key] = out
        return out


def exc_1(ctx, rep):
    rep.rule('EXC-1', 'no exception raised by the file system or by unpickling inside load_module / try_to_save_module '
                      '(and the clean-up they trigger) can escape to Grammar.parse')
    esc = Escape(ctx)
    prog = ctx.prog
    total_sites = 0
    seen = set()
    for qual in ('load_module', 'try_to_save_module'):
        f = prog.func(CACHE, qual)
        escaping = esc.escapes(f)
        for r, origin, via in escaping:
            key = (origin, r)
            if key in seen:
                continue
            seen.add(key)
            rep.ob('EXC-1', origin[0], origin[1], '%s may raise %s' % (origin[2], r), False,
                   '%s raised here escapes %s%s: a corrupt / unreadable / unwritable cache entry becomes a failure of parse()'
                   % (r, qual, (' (via %s)' % ' -> '.join(via)) if via else ''), witness=qual)
    # every may-raise site, caught or not, is an obligation
    for f in prog.mod(CACHE).funcs.values():
        for n in walk_own(f.node):
            if isinstance(n, ast.Call):
                name = esc.call_name(f, n)
                rs = MAY_RAISE.get(name)
                if rs is None and isinstance(n.func, ast.Attribute) and n.func.attr == 'stat' and not ctx.cg.type_of(f, n.func.value):
                    rs = MAY_RAISE['.stat']
                if not rs:
                    continue
                for r in rs:
                    total_sites += 1
                    origin = (CACHE, f.qual, norm(n))
                    if (origin, r) not in seen:
                        reach = ctx.cg.reachable([prog.func(CACHE, 'load_module'), prog.func(CACHE, 'try_to_save_module')])
                        if f.key in reach:
                            rep.ob('EXC-1', CACHE, f.qual, '%s may raise %s' % (norm(n), r), True)
                        else:
                            rep.skip('EXC-1', CACHE, f.qual, '%s may raise %s' % (norm(n), r),
                                     'not reachable from load_module / try_to_save_module (explicit maintenance API)')
    rep.stat('may_raise_sites', total_sites)
    rep.minimum('EXC-1', 10)
    rep.assume('may-raise table for %d standard-library calls (pickle.load: any Exception as documented; file '
               'operations: OSError); calls on the FileIO object of the *source* file are outside the claim' % len(MAY_RAISE))


# ---------------------------------------------------------------------------
# roles: GRAMMAR-HASH / PATH / CACHE-DIR / FILE-MTIME
# ---------------------------------------------------------------------------
class Roles:
    def __init__(self, ctx):
        self.ctx = ctx
        self.prog = ctx.prog
        self.param_roles = {}     # (func key, param) -> role or 'MIXED'
        self._infer()

    def seed(self, f, e):
        s = norm(e)
        if s == 'self._hashed':
            return 'HASH'
        if s == 'file_io.path':
            return 'PATH'
        if s in ('cache_path',) and f.key not in self.param_roles_keys('cache_path'):
            return None
        if isinstance(e, ast.Call) and is_method_call(e, 'get_last_modified'):
            return 'FILE-MTIME'
        return None

    def param_roles_keys(self, name):
        return {k[0] for k in self.param_roles if k[1] == name}

    def role(self, f, e, depth=0):
        if depth > 4:
            return None
        r = self.seed(f, e)
        if r:
            return r
        if isinstance(e, ast.Name):
            pr = self.param_roles.get((f.key, e.id))
            if pr:
                # a parameter that the function rebinds (assignment, loop / with target - comprehension variables
                # live in their own scope and do not count) no longer has the role it was called with
                if self._rebound(f, e.id):
                    return 'REBOUND-IN-%s' % f.name
                return pr
            vals = [n.value for n in walk_own(f.node) if isinstance(n, ast.Assign)
                    and any(isinstance(t, ast.Name) and t.id == e.id for t in n.targets)]
            roles = {self.role(f, v, depth + 1) for v in vals}
            roles.discard(None)
            if len(roles) == 1:
                return roles.pop()
        if isinstance(e, ast.IfExp):
            roles = {self.role(f, e.body, depth + 1), self.role(f, e.orelse, depth + 1)} - {None}
            if len(roles) == 1:
                return roles.pop()
        return None

    @staticmethod
    def _rebound(f, name):
        for n in walk_own(f.node):
            if isinstance(n, ast.Name) and n.id == name and isinstance(n.ctx, (ast.Store, ast.Del)):
                p = getattr(n, '_parent', None)
                in_comp = False
                while p is not None and p is not f.node:
                    if isinstance(p, ast.comprehension):
                        in_comp = True
                        break
                    p = getattr(p, '_parent', None)
                if in_comp:
                    continue
                # `path = str(path)`-style conversions keep the role; anything else (loop / with target, a value
                # that does not mention the parameter) replaces it
                st = getattr(n, '_parent', None)
                if isinstance(st, ast.Assign) and len(st.targets) == 1 and st.targets[0] is n \
                        and any(isinstance(x, ast.Name) and x.id == name for x in ast.walk(st.value)):
                    continue
                return True
        return False

    def _infer(self):
        for _ in range(4):
            for f in self.prog.funcs.values():
                if f.mod.rel not in (CACHE, GRAMMAR):
                    continue
                for site in self.ctx.cg.sites[f.key]:
                    for t in site.targets:
                        if t.mod.rel not in (CACHE, GRAMMAR):
                            continue            # (a helper of grammar.py may stand between Grammar.parse and cache.py)
                        params = t.params()
                        if t.cls is not None:
                            params = params[1:]
                        for i, a in enumerate(site.node.args):
                            if i < len(params):
                                self._note(t, params[i], self.role(f, a))
                        for kw in site.node.keywords:
                            if kw.arg:
                                self._note(t, kw.arg, self.role(f, kw.value))

    def _note(self, t, param, role):
        if role is None:
            return
        k = (t.key, param)
        cur = self.param_roles.get(k)
        if cur is None:
            self.param_roles[k] = role
        elif cur != role:
            self.param_roles[k] = 'MIXED'


def cache_1(ctx, rep, grammar_only=False):
    # grammar_only: only the first-level key (which grammar built the tree) is judged - the clause C05 needs
    rep.rule('CACHE-1', 'every access to parser_cache is two-level: first key a grammar hash (flows from sha256 of the '
                        'grammar text), second key the file path')
    prog = ctx.prog
    roles = Roles(ctx)
    rep.stat('parameter_roles', {'%s.%s' % (k[0][1], k[1]): v for k, v in sorted(roles.param_roles.items())})
    n_acc = 0
    for rel in (CACHE, GRAMMAR):
        mod = prog.mod(rel)
        for f in mod.funcs.values():
            for n in walk_own(f.node):
                # pc[A][B]  or  pc.setdefault(A, {})[B]
                if isinstance(n, ast.Subscript):
                    inner = n.value
                    first = None
                    if isinstance(inner, ast.Subscript) and norm(inner.value) == 'parser_cache':
                        first = inner.slice
                    elif isinstance(inner, ast.Call) and is_method_call(inner, 'setdefault') and norm(inner.func.value) == 'parser_cache':
                        first = inner.args[0]
                    elif isinstance(inner, ast.Call) and is_method_call(inner, 'get') and norm(inner.func.value) == 'parser_cache':
                        first = inner.args[0]
                    if first is not None:
                        n_acc += 1
                        r1 = roles.role(f, first)
                        r2 = roles.role(f, n.slice)
                        rep.ob('CACHE-1', rel, f.qual, norm(n), r1 == 'HASH' and (grammar_only or r2 == 'PATH'),
                               'cache entry addressed by (%s, %s) instead of (grammar hash, path): first key %s, second key %s'
                               % (r1, r2, norm(first), norm(n.slice)))
                # single-level accesses other than the eviction rebuild
                if isinstance(n, ast.Subscript) and norm(n.value) == 'parser_cache':
                    par = getattr(n, '_parent', None)
                    if isinstance(par, ast.Subscript) and par.value is n:
                        continue
                    # the first level bound to a local (m = parser_cache[h]  /  m = parser_cache[h] = {}), second level
                    # through that local: the same two-level access written in two steps
                    if isinstance(par, ast.Assign):
                        locals_ = [t.id for t in par.targets if isinstance(t, ast.Name)]
                        if par.value is n or (n in par.targets and isinstance(par.value, ast.Dict) and not par.value.keys):
                            if locals_:
                                m = locals_[0]
                                seconds = [x for x in walk_own(f.node) if isinstance(x, ast.Subscript)
                                           and isinstance(x.value, ast.Name) and x.value.id == m]
                                r1 = roles.role(f, n.slice)
                                bad2 = [x for x in seconds if roles.role(f, x.slice) != 'PATH']
                                n_acc += 1
                                rep.ob('CACHE-1', rel, f.qual, '%s ... %s[<path>]' % (norm(n), m),
                                       r1 == 'HASH' and bool(seconds) and (grammar_only or not bad2),
                                       'cache entry addressed by (%s, %s) instead of (grammar hash, path)'
                                       % (r1, [roles.role(f, x.slice) for x in seconds]))
                                continue
                    # allowed: parser_cache[key] = {...}  where key iterates parser_cache.items() itself
                    ok = False
                    if isinstance(n.ctx, ast.Store) and isinstance(n.slice, ast.Name):
                        lp = par
                        while lp is not None and not isinstance(lp, ast.For):
                            lp = getattr(lp, '_parent', None)
                        if lp is not None and norm(lp.iter) == 'parser_cache.items()' and isinstance(lp.target, ast.Tuple) \
                                and norm(lp.target.elts[0]) == n.slice.id:
                            val = getattr(par, 'value', None)
                            # rebuilt from the same first-level map, keeping (path, item) pairs
                            if isinstance(val, ast.DictComp) and norm(val.generators[0].iter) == '%s.items()' % norm(lp.target.elts[1]) \
                                    and norm(val.key) == norm(val.generators[0].target.elts[0]) \
                                    and norm(val.value) == norm(val.generators[0].target.elts[1]):
                                ok = True
                    n_acc += 1
                    rep.ob('CACHE-1', rel, f.qual, norm(par if isinstance(par, ast.stmt) else n), ok,
                           'parser_cache accessed with a single key outside the eviction rebuild')
    # the hash is the sha256 of the grammar text
    init = prog.func(GRAMMAR, 'Grammar.__init__')
    gen = [n for n in walk_own(init.node) if isinstance(n, ast.Call) and norm(n.func) == 'generate_grammar']
    h = [n for n in walk_own(init.node) if isinstance(n, ast.Assign) and norm(n.targets[0]) == 'self._hashed']
    ok = len(gen) == 1 and len(h) == 1 and gen[0].args and 'sha256(%s.encode' % norm(gen[0].args[0]) in norm(h[0].value)
    rep.ob('CACHE-1', GRAMMAR, init.qual, 'self._hashed = sha256(<text given to generate_grammar>)', ok,
           'the cache key of a grammar is not derived from the text its tables are generated from')
    rep.minimum('CACHE-1', 4)
    return roles


def _depends(f, e, seen=None, depth=0):
    """Names (params / globals / attribute texts) an expression transitively depends on inside f."""
    out = set()
    seen = seen if seen is not None else set()
    for n in ast.walk(e):
        if isinstance(n, ast.Name) and isinstance(n.ctx, ast.Load):
            out.add(n.id)
            if n.id not in seen and depth < 5:
                seen.add(n.id)
                for s in walk_own(f.node):
                    if isinstance(s, ast.Assign) and any(isinstance(t, ast.Name) and t.id == n.id for t in s.targets):
                        out |= _depends(f, s.value, seen, depth + 1)
    return out


# functions the cache rules look up by name: an inlined view of their callers keeps the calls to them
KEEP = ('_get_hashed_path', '_get_cache_directory_path', '_set_cache_item', '_load_from_file_system', '_save_to_file_system',
        '_remove_cache_and_update_lock', '_touch', '_get_default_cache_path')


def cache_4(ctx, rep, roles):
    rep.rule('CACHE-4', 'the pickle path depends on the cache directory, the version tag (implementation, major, minor, '
                        'pickle version), the grammar hash and a hash of the file path; writer and reader use the same '
                        'path expression and the writer truncates')
    prog = ctx.prog
    g = ctx.view(prog.func(CACHE, '_get_hashed_path'), keep=KEEP)      # a helper that builds the file name is read in place
    rets = [n for n in walk_own(g.node) if isinstance(n, ast.Return)]
    deps = set()
    for r in rets:
        deps |= _depends(g, r.value)
    params = g.params()
    hash_p = [p for p in params if roles.param_roles.get((g.key, p)) == 'HASH']
    path_p = [p for p in params if roles.param_roles.get((g.key, p)) == 'PATH']
    ok = bool(hash_p) and bool(path_p) and hash_p[0] in deps and path_p[0] in deps and 'cache_path' in deps
    rep.ob('CACHE-4', CACHE, g.qual, 'return value depends on grammar hash, path and cache directory', ok,
           'pickle file name does not depend on all of (grammar hash %s, path %s, cache_path): depends on %s'
           % (hash_p, path_p, sorted(deps)))
    # the path is hashed, not used verbatim
    ok = any(isinstance(n, ast.Call) and 'sha256' in norm(n.func) and path_p and path_p[0] in norm(n) for n in walk_own(g.node))
    rep.ob('CACHE-4', CACHE, g.qual, 'sha256(str(path))', ok, 'the path component of the pickle name is not a hash of the full path')
    # ... and an injective function of the key the memory cache uses: no normalisation may merge two paths
    INJECTIVE = {'str', 'repr', 'bytes', 'os.fspath', 'hashlib.sha256', 'sha256'}
    INJECTIVE_METHODS = {'encode', 'hexdigest', 'digest', 'as_posix', '__str__', '__fspath__'}
    lossy = []
    if path_p:
        def wraps_path(e):
            return any(isinstance(x, ast.Name) and x.id == path_p[0] for x in ast.walk(e))
        for n in walk_own(g.node):
            if isinstance(n, ast.Call) and any(wraps_path(a) for a in n.args) and norm(n.func) not in INJECTIVE \
                    and not (isinstance(n.func, ast.Attribute) and n.func.attr in INJECTIVE_METHODS) \
                    and norm(n.func) != 'os.path.join' and norm(n.func) != '_get_cache_directory_path':
                lossy.append(norm(n))
            if isinstance(n, ast.Call) and isinstance(n.func, ast.Attribute) and wraps_path(n.func.value) \
                    and n.func.attr not in INJECTIVE_METHODS:
                lossy.append(norm(n))
    rep.ob('CACHE-4', CACHE, g.qual, 'path component is an injective function of the path key', not lossy,
           'the path is normalised by %s before hashing: two different memory-cache keys can share one pickle file '
           '(entries of different paths are confused)' % lossy[:2])
    d = prog.func(CACHE, '_get_cache_directory_path')
    ok = any(isinstance(n, ast.Call) and is_method_call(n, 'joinpath') and '_VERSION_TAG' in norm(n) for n in walk_own(d.node))
    rep.ob('CACHE-4', CACHE, d.qual, 'cache_path.joinpath(_VERSION_TAG)', ok, 'cache directory is not separated per version tag')
    tag = prog.global_value(CACHE, '_VERSION_TAG')
    t = norm(tag, 500)
    need = ['python_implementation()', 'version_info[0]', 'version_info[1]', '_PICKLE_VERSION']
    miss = [x for x in need if x not in t]
    rep.ob('CACHE-4', CACHE, '<module>', '_VERSION_TAG', not miss, 'version tag lacks %s' % miss)
    # writer / reader agreement
    sv = ctx.view(prog.func(CACHE, '_save_to_file_system'), keep=KEEP)
    ld = ctx.view(prog.func(CACHE, '_load_from_file_system'), keep=KEEP)

    def path_calls(f):
        return [n for n in walk_own(f.node) if isinstance(n, ast.Call) and norm(n.func) == '_get_hashed_path']

    def role_sig(f, call):
        out = []
        for a in call.args:
            out.append(roles.role(f, a))
        for kw in call.keywords:
            out.append((kw.arg, norm(kw.value)))
        return out
    a, b = path_calls(sv), path_calls(ld)
    ok = len(a) == 1 and len(b) == 1 and role_sig(sv, a[0]) == role_sig(ld, b[0]) and role_sig(sv, a[0])[:2] == ['HASH', 'PATH']
    rep.ob('CACHE-4', CACHE, sv.qual, '_get_hashed_path(...) in writer and reader', ok,
           'writer and reader compute the pickle path from different arguments: %s vs %s'
           % ([norm(x) for x in a], [norm(x) for x in b]))
    def is_pickle_path(e):
        if isinstance(e, ast.Call) and norm(e.func) == '_get_hashed_path':
            return True
        if isinstance(e, ast.Name):
            vals = [n.value for n in walk_own(sv.node) if isinstance(n, ast.Assign)
                    and any(isinstance(t, ast.Name) and t.id == e.id for t in n.targets)]
            return bool(vals) and all(is_pickle_path(v) for v in vals)
        return False

    def mode_of(c):
        m = c.args[1] if len(c.args) > 1 else next((k.value for k in c.keywords if k.arg == 'mode'), None)
        return m.value if isinstance(m, ast.Constant) else None
    opens_w = [n for n in walk_own(sv.node) if isinstance(n, ast.Call) and norm(n.func) in ('open', 'os.fdopen', 'io.open')]
    direct = [c for c in opens_w if c.args and is_pickle_path(c.args[0])]
    moved = [n for n in walk_own(sv.node) if isinstance(n, ast.Call) and norm(n.func) in ('os.replace', 'os.rename')
             and len(n.args) == 2 and is_pickle_path(n.args[1])]
    if direct:
        ok = len(direct) == 1 and len(opens_w) == 1 and mode_of(direct[0]) == 'wb'
        why = 'the writer does not open the pickle for truncating binary write'
    else:
        # write-to-temporary-then-rename: new content in a 'wb' file that is then moved onto the pickle path
        ok = len(moved) == 1 and len(opens_w) == 1 and mode_of(opens_w[0]) == 'wb'
        why = 'the writer neither truncates the pickle nor moves a freshly written file onto it'
        if ok:
            # the temporary is private to this entry: created by tempfile / a random name, or named after the whole pickle
            # path (which is an injective function of grammar and source path).  A name shared by two entries
            # (<dir>/<pid>.tmp) lets two writers of one process fill each other's file before the rename.
            src = moved[0].args[0]
            private, why_not = _temp_is_private(sv, src, is_pickle_path)
            rep.ob('CACHE-4', CACHE, sv.qual, 'the temporary moved onto the pickle is private to the entry', private,
                   'the name of the temporary file (%s) does not determine the entry it is written for%s: two entries saved at '
                   'the same time (two threads) write into one temporary and one of them is renamed onto the other\'s pickle '
                   'with a fresh mtime' % (norm(src), why_not))
    rep.ob('CACHE-4', CACHE, sv.qual, "pickle written as new content ('wb' on the pickle path, or a 'wb' temporary moved onto it)", ok, why)
    # the reader itself, or the module-level helpers it hands the pickle path to
    readers = [ld]
    for n in walk_own(ld.node):
        if isinstance(n, ast.Call) and isinstance(n.func, ast.Name) and n.func.id in prog.mod(CACHE).funcs \
                and n.func.id not in ('_get_hashed_path', '_set_cache_item'):
            readers.append(prog.mod(CACHE).funcs[n.func.id])
    opens_r = [n for r in readers for n in walk_own(r.node) if isinstance(n, ast.Call) and norm(n.func) == 'open']
    ok = len(opens_r) == 1 and len(opens_r[0].args) > 1 and isinstance(opens_r[0].args[1], ast.Constant) and opens_r[0].args[1].value == 'rb'
    rep.ob('CACHE-4', CACHE, ld.qual, "open(<pickle path>, 'rb')", ok, 'the reader does not open the pickle for binary read')


_UNIQUE_NAME_CALLS = {'tempfile.mkstemp', 'mkstemp', 'tempfile.NamedTemporaryFile', 'NamedTemporaryFile', 'tempfile.mktemp',
                      'uuid.uuid4', 'uuid4', 'uuid.uuid1', 'secrets.token_hex', 'token_hex', 'os.urandom'}
_NAME_KEEPING_CALLS = {'str', 'os.fspath', 'fspath', 'os.path.join', 'Path', 'pathlib.Path', 'os.path.abspath', 'format'}


def _temp_is_private(f, e, is_pickle_path, depth=0):
    """(bool, explanation): does the expression name a file that only this entry's writer uses?"""
    from ..model import reaching_values
    if depth > 4:
        return False, ''
    if isinstance(e, ast.Name):
        vals = reaching_values(f.node, e)
        if not vals:
            # tuple targets: fd, name = mkstemp(...)
            for a in walk_own(f.node):
                if isinstance(a, ast.Assign) and isinstance(a.targets[0], ast.Tuple) and any(
                        isinstance(t, ast.Name) and t.id == e.id for t in a.targets[0].elts):
                    vals.append(a.value)
        if not vals:
            return False, ''
        res = [_temp_is_private(f, v, is_pickle_path, depth + 1) for v in vals]
        return all(r[0] for r in res), next((r[1] for r in res if not r[0]), '')
    # unique by construction
    for c in ast.walk(e):
        if isinstance(c, ast.Call) and norm(c.func) in _UNIQUE_NAME_CALLS:
            return True, ''
        if isinstance(c, ast.Attribute) and c.attr == 'name' and isinstance(c.value, ast.Name):
            ok, _ = _temp_is_private(f, c.value, is_pickle_path, depth + 1)
            if ok:
                return True, ''
    # contains the whole pickle path, not only a part of it
    def whole(x, lossy):
        if is_pickle_path(x):
            return not lossy
        if isinstance(x, ast.Call):
            keep = norm(x.func) in _NAME_KEEPING_CALLS or (isinstance(x.func, ast.Attribute) and x.func.attr in ('format', 'with_suffix', 'with_name', '__add__'))
            parts = list(x.args) + [k.value for k in x.keywords] + ([x.func.value] if isinstance(x.func, ast.Attribute) else [])
            return any(whole(a, lossy or not keep) for a in parts)
        if isinstance(x, ast.BinOp) and isinstance(x.op, (ast.Add, ast.Mod)):
            return whole(x.left, lossy) or whole(x.right, lossy)
        if isinstance(x, (ast.Tuple, ast.List)):
            return any(whole(a, lossy) for a in x.elts)
        if isinstance(x, ast.JoinedStr):
            return any(whole(v.value, lossy) for v in x.values if isinstance(v, ast.FormattedValue))
        return False
    if whole(e, False):
        return True, ''
    parts = sorted({norm(c.func) for c in ast.walk(e) if isinstance(c, ast.Call)})
    return False, ' (built from %s)' % ', '.join(parts) if parts else ''


def _fresh_form(e, roles, f):
    """Classify a freshness comparison: returns (label under which 'file mtime <= other' holds, other-expr) or None."""
    if not (isinstance(e, ast.Compare) and len(e.ops) == 1):
        return None
    l, r, op = e.left, e.comparators[0], e.ops[0]
    rl, rr = roles.role(f, l), roles.role(f, r)
    if rl == 'FILE-MTIME' and rr != 'FILE-MTIME':
        if isinstance(op, ast.LtE):
            return 'T', r
        if isinstance(op, ast.Gt):
            return 'F', r
        return 'BAD', r
    if rr == 'FILE-MTIME' and rl != 'FILE-MTIME':
        if isinstance(op, ast.GtE):
            return 'T', l
        if isinstance(op, ast.Lt):
            return 'F', l
        return 'BAD', l
    return None


def cache_2_3(ctx, rep, roles):
    rep.rule('CACHE-2', 'a cached tree is returned only under a comparison  file mtime <= entry time  (memory) / '
                        'not file mtime > pickle time (disk)')
    rep.rule('CACHE-3', 'the time stored as the freshness reference of an entry is sampled before the file content is read')
    prog = ctx.prog
    for qual in ('load_module', '_load_from_file_system'):
        f = ctx.view(prog.func(CACHE, qual), keep=KEEP)      # helpers the body was split into are read in place
        cfg = ctx.cfg(f)
        rets = [n for n in cfg.nodes if n.kind == 'stmt' and isinstance(n.ast, ast.Return)
                and n.ast.value is not None and norm(n.ast.value).endswith('.node')]
        tests = [(n, _fresh_form(n.ast, roles, f)) for n in cfg.nodes if n.kind == 'test']
        tests = [(n, x) for n, x in tests if x is not None]
        for r in rets:
            ok = False
            detail = 'cached node returned without comparing the file modification time with the entry'
            for t, (lab, other) in tests:
                if lab == 'BAD':
                    detail = 'freshness comparison %s has the wrong direction / strictness' % norm(t.ast)
                    continue
                if only_via(cfg, r, lambda e, t=t: e is t.ast, lab) or only_via_feasible(cfg, r, lambda e, t=t: e is t.ast, lab):
                    ok = True
            rep.ob('CACHE-2', CACHE, f.qual, norm(r.ast), ok, detail)
        if not rets:
            rep.ob('CACHE-2', CACHE, f.qual, 'return <entry>.node', False, 'anchor vanished: no return of a cached node')
        if qual == 'load_module':
            # an in-memory entry that is found but outdated ends the lookup (the caller parses again): the disk entry is
            # judged by a weaker criterion (the pickle's own mtime, known finding F7b) and must not get a second say
            disk = [n for n in cfg.nodes if calls_in(n, lambda c: norm(c.func).split('.')[-1] == '_load_from_file_system')]
            for t, (lab, other) in tests:
                if lab not in ('T', 'F'):
                    continue
                stale = 'F' if lab == 'T' else 'T'
                reach = set()
                for s2, l2 in t.succ:
                    if l2 == stale:
                        reach |= cfg.reachable(start=s2, labels_blocked=('exc',)) | {s2}
                hit = [d for d in disk if d in reach]
                rep.ob('CACHE-2', CACHE, f.qual, 'an outdated in-memory entry ends the lookup (%s)' % norm(t.ast), not hit,
                       'after the in-memory entry was found outdated the on-disk entry is consulted: its freshness is judged by '
                       "the pickle's own modification time, so a file replaced by a version with a preserved (older than the "
                       'pickle) timestamp is served stale')
        # disk variant: what is the file mtime compared with?
        if qual == '_load_from_file_system':
            for t, (lab, other) in tests:
                own_mtime = isinstance(other, ast.Call) and 'getmtime' in norm(other.func)
                rep.ob('CACHE-3', CACHE, f.qual, 'disk freshness: file mtime compared with %s' % (
                    "the pickle file's own mtime" if own_mtime else norm(other)), not own_mtime,
                       "disk freshness is judged by the pickle file's own modification time, which is later than the "
                       "moment the source was read: a source change between read and save is never noticed")
    # memory variant: where is change_time sampled relative to file_io.read()?
    ts = prog.func(CACHE, 'try_to_save_module')
    items = [n for n in walk_own(ts.node) if isinstance(n, ast.Call) and norm(n.func) == '_NodeCacheItem']
    gp = prog.func(GRAMMAR, 'Grammar.parse')
    for c in items:
        cls = prog.cls(CACHE, '_NodeCacheItem')
        init = cls.methods['__init__']
        params = init.params()[1:]
        arg = None
        if 'change_time' in params and params.index('change_time') < len(c.args):
            arg = c.args[params.index('change_time')]
        for kw in c.keywords:
            if kw.arg == 'change_time':
                arg = kw.value
        sampled_here = arg is not None and roles.role(ts, arg) == 'FILE-MTIME' and \
            roles.param_roles.get((ts.key, norm(arg))) is None
        if arg is None:
            rep.ob('CACHE-3', CACHE, ts.qual, norm(c), False, 'entry created without the file modification time (time.time() default)')
            continue
        if not sampled_here:
            # passed in by the caller: must be sampled before file_io.read() in Grammar.parse
            cfg = ctx.cfg(gp)
            reads = [n for n in cfg.nodes if calls_in(n, lambda c: is_method_call(c, 'read'))]
            samples = [n for n in cfg.nodes if calls_in(n, lambda c: is_method_call(c, 'get_last_modified'))]
            ok = bool(samples) and all(not (cfg.reachable(start=r, labels_blocked=('exc',)) & set(samples)) for r in reads)
            rep.ob('CACHE-3', GRAMMAR, gp.qual, 'mtime sampled before file_io.read()', ok,
                   'the modification time handed to the cache is sampled after the content was read')
            # ... and on *every* way to a save of a file that has a path: an entry created with the None default is dated
            # time.time(), i.e. "seen now" - a file restored with an older mtime is never noticed (seed rt13-C16)
            from ..paths import FactFlow
            import re as _re
            flow = FactFlow(cfg)
            saves = [n for n in cfg.nodes if calls_in(n, lambda c: norm(c.func).split('.')[-1] == ts.name)]

            def no_file_branch(node, lab):
                if node.kind != 'test':
                    return False
                t = norm(node.ast)
                if _re.fullmatch(r'(\w+\.)?path is not None', t):
                    return lab == 'F'
                if _re.fullmatch(r'(\w+\.)?path is None', t):
                    return lab == 'T'
                return False
            for sv in saves:
                seen, todo, prev = set(), [(cfg.entry, frozenset())], {}
                prev[(cfg.entry, frozenset())] = None
                hit = None
                while todo:
                    state = todo.pop(0)
                    if state in seen:
                        continue
                    seen.add(state)
                    node, facts = state
                    if node is sv:
                        hit = state
                        break
                    if node in samples:
                        continue
                    for nx, lab, f2 in flow.successors(node, facts, False):
                        if no_file_branch(node, lab):
                            continue
                        k = (nx, f2)
                        if k not in seen and k not in prev:
                            prev[k] = state
                            todo.append(k)
                path = []
                while hit is not None:
                    path.append(hit[0])
                    hit = prev[hit]
                path.reverse()
                from ..paths import path_text as _pt
                rep.ob('CACHE-3', GRAMMAR, gp.qual, 'every way to `%s` of a file with a path samples its mtime' % head(sv.stmt), not path,
                       'a module read from a path can be saved with the default time (time.time() instead of the modification '
                       'time of the file): %s' % ' -> '.join(_pt(path)), witness=_pt(path) if path else None)
        else:
            rep.ob('CACHE-3', CACHE, ts.qual, 'entry change_time sampled inside try_to_save_module (after read and parse)', False,
                   'the modification time stored with the entry is sampled after the file was read and parsed: a write '
                   'that lands in between is recorded as already seen, the stale tree is then served until the next change')
    rep.minimum('CACHE-2', 2)
    rep.minimum('CACHE-3', 2)


def cache_5(ctx, rep):
    rep.rule('CACHE-5', "the modification time of a pickle file is the freshness reference of the on-disk entry: only the "
                        "writer (_save_to_file_system, truncating write of new content) may change it; nothing else may "
                        "touch, append to or re-time a path obtained from _get_hashed_path")
    prog = ctx.prog

    def is_pickle_path(f, e, depth=0):
        if depth > 3:
            return False
        if isinstance(e, ast.Call) and norm(e.func) == '_get_hashed_path':
            return True
        if isinstance(e, ast.Name):
            vals = [n.value for n in walk_own(f.node) if isinstance(n, ast.Assign)
                    and any(isinstance(t, ast.Name) and t.id == e.id for t in n.targets)]
            if vals and any(is_pickle_path(f, v, depth + 1) for v in vals):
                return True
            # parameter: does some caller pass a pickle path?
            if e.id in f.params():
                idx = f.params().index(e.id)
                for g in prog.mod(CACHE).funcs.values():
                    for site in ctx.cg.sites[g.key]:
                        if f in site.targets and idx < len(site.node.args) and is_pickle_path(g, site.node.args[idx], depth + 1):
                            return True
        if isinstance(e, ast.Attribute) and e.attr == 'path':
            return False
        return False
    n_sites = 0
    writers = {'os.utime': None, 'os.truncate': None, 'os.rename': None, 'os.replace': None, 'shutil.copy': None, 'shutil.copyfile': None}
    for f in prog.mod(CACHE).funcs.values():
        for n in walk_own(f.node):
            if not isinstance(n, ast.Call):
                continue
            name = norm(n.func)
            args = list(n.args)
            if name in ('os.replace', 'os.rename') and len(args) == 2 and is_pickle_path(f, args[1]) \
                    and not is_pickle_path(f, args[0]):
                # a freshly written file is moved onto the pickle path: new content, allowed in the writer only
                n_sites += 1
                wrote = any(isinstance(x, ast.Call) and norm(x.func) in ('open', 'os.fdopen', 'io.open')
                            and any(isinstance(a, ast.Constant) and a.value == 'wb' for a in list(x.args) + [k.value for k in x.keywords])
                            for x in walk_own(f.node))
                rep.ob('CACHE-5', CACHE, f.qual, norm(n), f.qual == '_save_to_file_system' and wrote,
                       'a file is moved onto a cache file outside the writer / without new content being written')
                continue
            if name in writers or name.endswith('.touch') or (name in ('_touch',)):
                tgt = args[0] if args else (n.func.value if isinstance(n.func, ast.Attribute) else None)
                if tgt is not None and is_pickle_path(f, tgt):
                    n_sites += 1
                    rep.ob('CACHE-5', CACHE, f.qual, norm(n), False,
                           'the modification time of a cache file is changed without writing new content: a later change of '
                           'the source file may look older than the (stale) entry')
            if name == 'open' and args and is_pickle_path(f, args[0]):
                mode = args[1].value if len(args) > 1 and isinstance(args[1], ast.Constant) else 'r'
                n_sites += 1
                ok = mode in ('rb', 'r') or (mode == 'wb' and f.qual == '_save_to_file_system')
                rep.ob('CACHE-5', CACHE, f.qual, norm(n), ok,
                       'cache file opened with mode %r outside the writer' % mode)
    rep.minimum('CACHE-5', 2)


# ---------------------------------------------------------------------------
# EXC-2: what comes out of pickle.load is an entry before it is used as one
# ---------------------------------------------------------------------------
def exc_2(ctx, rep):
    rep.rule('EXC-2', 'the object returned by pickle.load is used as a cache entry (attribute access, stored in the in-memory '
                      'cache, returned) only where an isinstance test against the entry class holds, or inside a try whose '
                      'handler absorbs Exception: a damaged or foreign file can be a valid pickle of anything')
    from ..facts import facts_at
    import re as _re
    prog = ctx.prog
    n_uses = 0
    loaders = {'pickle.load', 'pickle.loads'}
    # helpers that simply hand back what pickle.load returned
    for f in prog.mod(CACHE).funcs.values():
        rets = [n.value for n in walk_own(f.node) if isinstance(n, ast.Return) and n.value is not None]
        if rets and all(isinstance(v, ast.Call) and norm(v.func) in ('pickle.load', 'pickle.loads') for v in rets):
            loaders.add(f.name)
    for f in prog.mod(CACHE).funcs.values():
        loaded = set()
        for n in walk_own(f.node):
            if isinstance(n, ast.Assign) and isinstance(n.value, ast.Call) and norm(n.value.func) in loaders:
                for t in n.targets:
                    if isinstance(t, ast.Name):
                        loaded.add(t.id)
        for name in sorted(loaded):
            for n in walk_own(f.node):
                if not (isinstance(n, ast.Name) and n.id == name and isinstance(n.ctx, ast.Load)):
                    continue
                par = getattr(n, '_parent', None)
                # the isinstance test itself
                if isinstance(par, ast.Call) and norm(par.func) == 'isinstance':
                    continue
                n_uses += 1
                checked = any(positive and _re.fullmatch(r'isinstance\(%s, [\w.]+\)' % _re.escape(name), text)
                              for text, positive in facts_at(n, f.node))
                # inside a try body whose handlers absorb Exception
                covered = False
                child, p = n, getattr(n, '_parent', None)
                while p is not None and p is not f.node:
                    if isinstance(p, ast.Try) and any(child is b or child in ast.walk(b) for b in p.body):
                        for h in p.handlers:
                            if any(is_subclass('Exception', c) for c in handler_classes(h)):
                                covered = True
                    child, p = p, getattr(p, '_parent', None)
                stmt = n
                while not isinstance(stmt, ast.stmt):
                    stmt = stmt._parent
                rep.ob('EXC-2', CACHE, f.qual, 'use of unpickled %s in `%s`' % (name, head(stmt)), checked or covered,
                       'the unpickled object is used as an entry without a type test and outside a handler for Exception: a '
                       'cache file that is a valid pickle of something else (b"N." is None) makes parse() raise AttributeError',
                       reason='isinstance test holds here' if checked else 'inside a try that absorbs Exception')
    rep.minimum('EXC-2', 1)


# ---------------------------------------------------------------------------
# CACHE-6 / CACHE-7: freshness inputs are live; clean-up looks at the access time
# ---------------------------------------------------------------------------
def cache_6_7(ctx, rep):
    rep.rule('CACHE-6', 'the modification time the cache compares with is read from the file system on every call: '
                        'FileIO.get_last_modified returns os.path.getmtime(...) itself and no method of the file-io classes '
                        'other than a constructor stores anything on the object')
    rep.rule('CACHE-7', 'the clean-up of the cache directory removes an entry only by its access time (loading an entry does '
                        'not change its modification time, so any other time stamp makes an entry that is in use look idle)')
    FILE_IO = 'parso/file_io.py'
    prog = ctx.prog
    mod = prog.mod(FILE_IO)
    n6 = 0
    for f in mod.funcs.values():
        if f.cls is None or f.name == '__init__':
            continue
        stores = [n for n in walk_own(f.node) if isinstance(n, ast.Attribute) and isinstance(n.ctx, (ast.Store, ast.Del))
                  and isinstance(n.value, ast.Name) and n.value.id == (f.params()[0] if f.params() else 'self')]
        n6 += 1
        rep.ob('CACHE-6', FILE_IO, f.qual, 'def %s stores nothing on the object' % f.name, not stores,
               'the file-io object keeps state between calls (%s): the same object used for a later parse reports stale '
               'information about the file' % (norm(stores[0]) if stores else ''))
    glm = prog.cls(FILE_IO, 'FileIO').methods.get('get_last_modified')
    if glm is None:
        raise AnalysisError('anchor vanished: FileIO.get_last_modified')
    rets = [n.value for n in walk_own(glm.node) if isinstance(n, ast.Return) and n.value is not None
            and not (isinstance(n.value, ast.Constant) and n.value.value is None)]
    ok = bool(rets) and all(isinstance(v, ast.Call) and norm(v.func) in ('os.path.getmtime',) or
                            (isinstance(v, ast.Attribute) and v.attr == 'st_mtime' and isinstance(v.value, ast.Call)) for v in rets)
    rep.ob('CACHE-6', FILE_IO, glm.qual, 'returns the live modification time', ok,
           'get_last_modified does not return os.path.getmtime(...) / os.stat(...).st_mtime of this call')
    rep.minimum('CACHE-6', 3)
    # clean-up criterion
    f = prog.func(CACHE, 'clear_inactive_cache')
    funcs = [f] + [g for g in prog.mod(CACHE).funcs.values()
                   if any(isinstance(c, ast.Call) and isinstance(c.func, ast.Name) and c.func.id == g.name for c in walk_own(f.node))]
    removes = []
    for g in funcs:
        for n in walk_own(g.node):
            if isinstance(n, ast.Call) and norm(n.func) in ('os.remove', 'os.unlink'):
                removes.append((g, n))
    if not removes:
        raise AnalysisError('CACHE-7: clear_inactive_cache removes nothing (anchor changed)')
    from ..facts import guards_of
    for g, n in removes:
        stamps = set()
        for test, _pol in guards_of(n, g.node):
            # time-stamp attributes in the test itself and in the locals it mentions
            exprs = [test]
            for x in ast.walk(test):
                if isinstance(x, ast.Name):
                    exprs += [a.value for a in walk_own(g.node) if isinstance(a, ast.Assign)
                              and any(isinstance(t, ast.Name) and t.id == x.id for t in a.targets)]
            for e in exprs:
                for x in ast.walk(e):
                    if isinstance(x, ast.Attribute) and x.attr in ('st_atime', 'st_mtime', 'st_ctime', 'st_atime_ns', 'st_mtime_ns', 'st_ctime_ns'):
                        stamps.add(x.attr.replace('_ns', ''))
                    if isinstance(x, ast.Call) and norm(x.func) in ('os.path.getatime', 'os.path.getmtime', 'os.path.getctime'):
                        stamps.add('st_' + norm(x.func)[-5:])
        rep.ob('CACHE-7', CACHE, g.qual, '%s decided by %s' % (norm(n), sorted(stamps) or 'no time stamp'),
               stamps == {'st_atime'},
               'an entry is removed by %s: loading an entry only updates its access time, an entry in use can be deleted'
               % (sorted(stamps) or 'something else than its access time'))
    rep.minimum('CACHE-7', 1)


# ---------------------------------------------------------------------------
# CACHE-8: cache files are never memory-mapped
# ---------------------------------------------------------------------------
def _mmap_sites(tree):
    out = []
    for n in ast.walk(tree):
        if isinstance(n, ast.Call) and (norm(n.func) in ('mmap.mmap', 'mmap') or (isinstance(n.func, ast.Attribute) and n.func.attr in ('memmap', 'mmap'))):
            out.append(n)
    return out


def cache_8(ctx, rep):
    rep.rule('CACHE-8', 'cache files are read and written through file objects, never memory-mapped: another process truncating '
                        'the file (every save opens it with "wb") turns an access to a mapped page into SIGBUS, which is not an '
                        'exception and cannot become a cache miss')
    probe = ast.parse("with mmap.mmap(f.fileno(), 0, access=mmap.ACCESS_READ) as d:\n    x = pickle.loads(d)\n")
    if len(_mmap_sites(probe)) != 1:
        raise AnalysisError('CACHE-8: the matcher does not report its built-in example')
    n = 0
    for rel, mod in sorted(ctx.prog.mods.items()):
        imported = any(isinstance(st, (ast.Import, ast.ImportFrom)) and 'mmap' in norm(st) for st in ast.walk(mod.tree))
        sites = _mmap_sites(mod.tree)
        n += 1
        rep.ob('CACHE-8', rel, '<module>', 'no memory mapping of files', not sites and not imported,
               'the module maps a file into memory (%s)' % (norm(sites[0]) if sites else 'import mmap'),
               witness=norm(sites[0]) if sites else None)
    rep.minimum('CACHE-8', 5)


# ---------------------------------------------------------------------------
# EXC-3: the codec probes of the string checks cannot raise out of the error listing
# ---------------------------------------------------------------------------
CODEC_MAY_RAISE = {
    # unicode_escape_decode first encodes a str argument to UTF-8: a lone surrogate gives UnicodeEncodeError
    'codecs.unicode_escape_decode': ['UnicodeDecodeError', 'UnicodeEncodeError'],
    'codecs.escape_decode': ['ValueError'],
    'codecs.raw_unicode_escape_decode': ['UnicodeDecodeError', 'UnicodeEncodeError'],
    'codecs.decode': ['ValueError', 'LookupError'],
    'codecs.encode': ['ValueError', 'LookupError'],
    'unicodedata.lookup': ['KeyError'],
    'ast.literal_eval': ['ValueError', 'SyntaxError', 'MemoryError', 'RecursionError'],
}


def exc_3(ctx, rep, modules=('parso/python/errors.py',)):
    rep.rule('EXC-3', 'every exception class a codec probe can raise on text taken from the source (escape decoding of string '
                      'literals) is caught where the probe is made, or around every call of the helper that makes it')
    from ..model import reaching_values
    prog = ctx.prog
    n_sites = 0

    def callee_names(f, call):
        fn = call.func
        if isinstance(fn, ast.Attribute):
            return [norm(fn)]
        if isinstance(fn, ast.Name):
            vals = reaching_values(f.node, fn)
            out = []
            for v in vals:
                if isinstance(v, ast.IfExp):
                    out += [norm(v.body), norm(v.orelse)]
                else:
                    out.append(norm(v))
            # from-imports: `from codecs import escape_decode`
            if not vals:
                t = prog.resolve_global(f.mod, fn.id) if hasattr(prog, 'resolve_global') else None
                out.append(fn.id if t is None else norm(fn))
                for st in f.mod.tree.body:
                    if isinstance(st, ast.ImportFrom) and st.module in ('codecs', 'unicodedata', 'ast'):
                        for a in st.names:
                            if (a.asname or a.name) == fn.id:
                                out.append('%s.%s' % (st.module, a.name))
            return out
        return []

    def uncaught(f, node, classes):
        left = []
        for r in classes:
            if not any(any(is_subclass(r, h) for h in hs) for hs in _protecting_handlers(node, f.node)):
                left.append(r)
        return left

    for f in sorted(prog.funcs.values(), key=lambda f: f.key):
        if f.mod.rel not in modules:
            continue
        for n in walk_own(f.node):
            if not isinstance(n, ast.Call):
                continue
            raised = []
            for name in callee_names(f, n):
                raised += CODEC_MAY_RAISE.get(name, [])
            if not raised:
                continue
            n_sites += 1
            left = uncaught(f, n, sorted(set(raised)))
            where = ''
            if left and f.cls is not None:
                # a helper: every call of it inside the class must sit in a try that covers what is left
                calls = []
                for g in f.cls.methods.values():
                    for c in walk_own(g.node):
                        if isinstance(c, ast.Call) and isinstance(c.func, ast.Attribute) and c.func.attr == f.name \
                                and isinstance(c.func.value, ast.Name) and c.func.value.id == 'self':
                            calls.append((g, c))
                if calls and f.name not in ('is_issue', 'feed_node', 'visit_leaf', 'visit_node'):
                    still = set()
                    for g, c in calls:
                        still |= set(uncaught(g, c, left))
                    left = sorted(still)
                    where = ' (nor around the calls of %s)' % f.name
            rep.ob('EXC-3', f.mod.rel, f.qual, 'codec probe %s' % norm(n), not left,
                   '%s can be raised here and is not caught%s: the error listing fails instead of reporting an issue '
                   '(e.g. a lone surrogate in a string literal makes unicode_escape_decode raise UnicodeEncodeError)'
                   % (', '.join(left), where), witness=left[0] if left else None)
    if not n_sites:
        raise AnalysisError('EXC-3: no codec probe found in %s' % (modules,))
    rep.stat('exc3_codec_probe_sites', n_sites)


# ---------------------------------------------------------------------------
# CACHE-9 / CACHE-10
# ---------------------------------------------------------------------------
def cache_9_10(ctx, rep):
    rep.rule('CACHE-9', 'a cache entry is pickled verbatim: the entry class defines no __getstate__ / __setstate__ / __reduce__ '
                        '(a hook that rebuilds the entry on load replaces the stored freshness reference by load-time defaults)')
    rep.rule('CACHE-10', 'whether try_to_save_module writes the pickle depends only on what the caller asked for and on the '
                         'file having a path / a readable mtime - never on the state of the cache file that is already there '
                         '(a damaged entry with a fresh mtime would never be repaired)')
    prog = ctx.prog
    item = prog.cls(CACHE, '_NodeCacheItem')
    hooks = [m for k in item.mro if isinstance(k, Cls) for m in k.methods
             if m in ('__getstate__', '__setstate__', '__reduce__', '__reduce_ex__', '__getnewargs__', '__getnewargs_ex__')]
    rep.ob('CACHE-9', CACHE, item.qual, 'no custom pickling hook on the entry class', not hooks,
           'the entry class defines %s: what is loaded is not what was stored' % hooks)
    ts0 = prog.func(CACHE, 'try_to_save_module')
    from ..facts import guards_of
    # the write may sit in try_to_save_module itself or in a private helper only it calls (then the guards of the call of
    # that helper count as well)
    parts = ctx.parts_of({ts0.key})
    chain = [ctx.view(ts0, keep=KEEP)] + [prog.funcs[k] for k in sorted(parts)]
    n_calls = 0

    def guards_up(fn, node, depth=0):
        out = list(guards_of(node))
        if fn.key != ts0.key and depth < 4:
            for g in chain:
                for c in walk_own(g.node):
                    if isinstance(c, ast.Call) and isinstance(c.func, (ast.Name, ast.Attribute)) \
                            and (getattr(c.func, 'id', None) == fn.name or getattr(c.func, 'attr', None) == fn.name):
                        out += [(t, pol) for t, pol in guards_up(g, c, depth + 1)]
        return out
    for fn in chain:
        params = set(fn.all_params())
        for n in walk_own(fn.node):
            if isinstance(n, ast.Call) and norm(n.func) == '_save_to_file_system':
                n_calls += 1
                bad = None
                for t, pol in guards_up(fn, n):
                    for sub in ast.walk(t):
                        if isinstance(sub, ast.Call):
                            bad = sub                   # a condition that calls something: looks at state outside the arguments
                        elif isinstance(sub, ast.Attribute) and not isinstance(sub.value, ast.Name):
                            bad = bad or sub
                rep.ob('CACHE-10', CACHE, ts0.qual, 'guards of the pickle write %s' % norm(n)[:60], bad is None,
                       'the save is skipped depending on %s: an existing cache file that only looks fresh (torn by a crash, same '
                       'mtime) is never overwritten, every new process misses the cache again' % (norm(bad) if bad is not None else ''),
                       witness=norm(bad) if bad is not None else None)
    if not n_calls:
        raise AnalysisError('CACHE-10: try_to_save_module no longer reaches _save_to_file_system')
    # the in-memory entry is replaced on every call: the caller hands in the lines / node of *this* parse (the diff parser
    # updates the module object in place, so "same module object, same mtime" does not mean "same lines" - seed rt14-C01)
    v = ctx.view(ts0, keep=KEEP)
    cfg = ctx.cfg(v)
    stores = [n for n in cfg.nodes if calls_in(n, lambda c: norm(c.func).split('.')[-1] == '_set_cache_item')
              or (n.kind == 'stmt' and isinstance(n.ast, ast.Assign) and any('parser_cache' in norm(t) for t in n.ast.targets))]
    if not stores:
        raise AnalysisError('CACHE-10: try_to_save_module no longer stores the in-memory entry')
    from ..paths import find_path as _fp, path_text as _pt
    p = _fp(cfg, [cfg.entry], lambda n: n is cfg.exit, lambda n: n in stores)
    rep.ob('CACHE-10', CACHE, ts0.qual, 'the in-memory entry is stored on every way through try_to_save_module', p is None,
           'try_to_save_module can return without storing the entry it was given: the entry in memory keeps the lines of an '
           'earlier parse while the (in place updated) module moves on; path: %s' % (' -> '.join(_pt(p)) if p else ''),
           witness=_pt(p) if p else None)


def cache_12(ctx, rep):
    """cache.py keeps one piece of module-level state: parser_cache.  Anything else it remembers at module level is a
    belief about the file system that nothing invalidates (seed rt14-C17: the set of cache directories already created -
    a directory removed by someone else is never created again, every later save fails silently)."""
    rep.rule('CACHE-12', 'no function of parso/cache.py writes module-level state other than parser_cache: what the cache '
                         'knows about the file system (directories, files, locks) is looked up when it is needed')
    from .eff import Effects
    eff = Effects(ctx)
    mod = ctx.prog.mod(CACHE)
    n = 0
    for f in mod.funcs.values():
        for node, why in eff.shared_writes(f):
            if 'module global' not in why:
                continue
            n += 1
            ok = 'module global parser_cache' in why
            rep.ob('CACHE-12', CACHE, f.qual, norm(node), ok,
                   'module-level state besides parser_cache is written (%s): a fact about the file system is remembered '
                   'across calls and never checked again' % why)
    rep.minimum('CACHE-12', 2)
