"""Tokenizer path rules TOK-1, TOK-2, TOK-4, TOK-5, TOK-6 (engine E7)."""
import ast

from ..cfg import CFG, node_exprs
from ..model import AnalysisError, norm, head, walk_own
from .rxr import token_constructions, _plus_terms, TOK, DIFF

ZERO_WIDTH = {'INDENT', 'DEDENT', 'ERROR_DEDENT'}


def _tname(e):
    s = norm(e)
    return s.split('.')[-1]


def stmt_list_of(node):
    """(list, index) of the statement list that directly contains the statement enclosing ``node``."""
    n = node
    while n is not None and not isinstance(n, ast.stmt):
        n = getattr(n, '_parent', None)
    p = getattr(n, '_parent', None)
    for field in ('body', 'orelse', 'finalbody'):
        b = getattr(p, field, None)
        if isinstance(b, list) and n in b:
            return b, b.index(n)
    for h in getattr(p, 'handlers', []) or []:
        if n in h.body:
            return h.body, h.body.index(n)
    return None, None


def tok_1_2(ctx, rep, accumulators):
    rep.rule('TOK-1', 'every token construction takes a prefix accumulator as prefix; a constant "" only for the '
                      'zero-width token types and FSTRING_STRING')
    rep.rule('TOK-2', 'INDENT / DEDENT / ERROR_DEDENT tokens are always built with string "" and prefix ""')
    count = 0
    for rel in (TOK, DIFF):
        for f, call, fields in token_constructions(ctx, rel):
            count += 1
            t = fields.get('type')
            tname = _tname(t) if t is not None else '?'
            # conditional type (ERRORTOKEN if x else NAME): take both
            tnames = {tname}
            if isinstance(t, ast.IfExp):
                tnames = {_tname(t.body), _tname(t.orelse)}
            pre = fields.get('prefix')
            s = fields.get('string')
            construct = norm(call)
            if pre is None or s is None or t is None:
                rep.ob('TOK-1', rel, f.qual, construct, False, 'token constructed without type / string / prefix')
                continue
            const_empty = isinstance(pre, ast.Constant) and pre.value == ''
            if const_empty and rel == DIFF and tnames == {'ENDMARKER'}:
                rep.skip('TOK-1', rel, f.qual, construct,
                         'synthetic end of a partial parse: the real token is not consumed, the next part re-tokenizes it')
            elif const_empty:
                ok = tnames <= (ZERO_WIDTH | {'FSTRING_STRING'})
                rep.ob('TOK-1', rel, f.qual, construct, ok,
                       'token of type %s drops the pending prefix (constant "" passed as prefix)' % '/'.join(sorted(tnames)))
            else:
                accs = {'prefix'} if rel == DIFF else set()
                g = f
                while g is not None and rel == TOK:
                    accs |= accumulators.get(g.qual, set())
                    g = g.outer
                names = {x.id for term in _plus_terms(pre) for x in [term] if isinstance(x, ast.Name)}
                if rel == DIFF:
                    # the diff parser deliberately keeps only the complete lines of that prefix (the rest is tokenized
                    # again with the next part): the accumulator may reach the field through a helper / re.sub
                    names |= {x.id for x in ast.walk(pre) if isinstance(x, ast.Name)}
                ok = bool(names & accs)
                rep.ob('TOK-1', rel, f.qual, construct, ok,
                       'prefix argument %s contains no prefix accumulator' % norm(pre))
            if tnames & ZERO_WIDTH:
                ok = isinstance(s, ast.Constant) and s.value == '' and const_empty
                rep.ob('TOK-2', rel, f.qual, construct, ok,
                       'zero-width token carries text (string %s, prefix %s): the parser drops these tokens'
                       % (norm(s), norm(pre)))
    rep.minimum('TOK-1', 18)
    rep.minimum('TOK-2', 4)


def _yield_token_type(stmt):
    """Token type name when ``stmt`` is ``yield PythonToken(T, ...)``, else None."""
    if isinstance(stmt, ast.Expr) and isinstance(stmt.value, ast.Yield) and isinstance(stmt.value.value, ast.Call):
        c = stmt.value.value
        if isinstance(c.func, ast.Name) and c.func.id == 'PythonToken' and c.args:
            return _tname(c.args[0])
    return None


def tok_4(ctx, rep, order=False):
    rep.rule('TOK-4', 'each push on the indentation stack is adjacent to a yield of INDENT, each pop to a yield of '
                      'DEDENT, and a store to the top entry to a yield of ERROR_DEDENT')
    f = ctx.prog.func(TOK, 'tokenize_lines')
    # the indentation stack: the parameter / local named in `indents.append`
    stack0 = 'indents'
    funcs = [(f, stack0)] + [(g, stack0) for g in f.nested.values()]
    # helpers of the module that are handed the stack (a closure that became a function with explicit parameters)
    for g0, _s in list(funcs):
        for c in walk_own(g0.node):
            if isinstance(c, ast.Call) and isinstance(c.func, ast.Name):
                h = f.mod.funcs.get(c.func.id)
                if h is None or h.cls is not None or any(h is x for x, _ in funcs):
                    continue
                ps = h.params()
                for i, a in enumerate(c.args):
                    if isinstance(a, ast.Name) and a.id == stack0 and i < len(ps):
                        funcs.append((h, ps[i]))
                for kw in c.keywords:
                    if isinstance(kw.value, ast.Name) and kw.value.id == stack0 and kw.arg in ps:
                        funcs.append((h, kw.arg))
    n_sites = 0
    for g, stack in funcs:
        for n in walk_own(g.node):
            kind = None
            if isinstance(n, ast.Call) and isinstance(n.func, ast.Attribute) \
                    and isinstance(n.func.value, ast.Name) and n.func.value.id == stack:
                if n.func.attr == 'append':
                    kind = 'INDENT'
                elif n.func.attr == 'pop':
                    kind = 'DEDENT'
                elif n.func.attr in ('insert', 'extend', 'remove', 'clear', 'reverse', 'sort'):
                    rep.ob('TOK-4', TOK, g.qual, norm(n), False, 'unpaired mutation of the indentation stack')
                    continue
            elif isinstance(n, ast.Assign) and any(
                    isinstance(t, ast.Subscript) and isinstance(t.value, ast.Name) and t.value.id == stack
                    for t in n.targets):
                kind = 'ERROR_DEDENT'
            elif isinstance(n, ast.Delete) and any(stack in norm(t) for t in n.targets):
                rep.ob('TOK-4', TOK, g.qual, norm(n), False, 'unpaired deletion from the indentation stack')
                continue
            if kind is None:
                continue
            n_sites += 1
            lst, i = stmt_list_of(n)
            neighbours = []
            if lst is not None:
                if i > 0:
                    neighbours.append(lst[i - 1])
                if i + 1 < len(lst):
                    neighbours.append(lst[i + 1])
            ok = any(_yield_token_type(s) == kind for s in neighbours)
            rep.ob('TOK-4', TOK, g.qual, norm(n), ok,
                   'indentation stack change without an adjacent yield of a %s token' % kind)
            # the order the incremental parser relies on: it shares this list, looks at it when a token arrives
            # (len(indents) at a DEDENT) and abandons the generator at the first token after its stop line
            if order and ok and lst is not None:
                before = i > 0 and _yield_token_type(lst[i - 1]) == kind
                after = i + 1 < len(lst) and _yield_token_type(lst[i + 1]) == kind
                want_yield_first = kind in ('INDENT', 'ERROR_DEDENT')
                ok2 = before if want_yield_first else after
                rep.ob('TOK-4', TOK, g.qual, 'order: %s' % ('yield %s, then %s' % (kind, norm(n)) if want_yield_first
                                                            else '%s, then yield %s' % (norm(n), kind)), ok2,
                       'the %s token is yielded %s the indentation stack is changed: the diff parser, which shares the list '
                       'and may drop the generator at this token, sees the stack in the other state'
                       % (kind, 'after' if want_yield_first else 'before'))
    rep.minimum('TOK-4', 4)


def tok_5(ctx, rep):
    rep.rule('TOK-5', 'tokenize_lines cannot leave before its epilogue: no return/raise, the last statement yields '
                      'the only ENDMARKER, preceded by the DEDENT loop over a copy of the indentation stack')
    f = ctx.prog.func(TOK, 'tokenize_lines')
    if not any(g is f and _tname(fl.get('type', ast.Constant(''))) == 'ENDMARKER' for g, c, fl in token_constructions(ctx, TOK)):
        raise AnalysisError('TOK-5: tokenize_lines does not construct the ENDMARKER itself (another tokenizer architecture): '
                            'the epilogue rule cannot be applied')
    abrupt = [n for n in walk_own(f.node) if isinstance(n, (ast.Return, ast.Raise))]
    rep.ob('TOK-5', TOK, f.qual, 'no return / raise in tokenize_lines', not abrupt,
           'early exit %s skips the DEDENT / ENDMARKER epilogue' % (norm(abrupt[0]) if abrupt else ''))
    last = f.node.body[-1]
    rep.ob('TOK-5', TOK, f.qual, 'last statement: %s' % head(last), _yield_token_type(last) == 'ENDMARKER',
           'the function does not end with the ENDMARKER yield')
    ends = [c for g, c, fl in token_constructions(ctx, TOK)
            if g is f and _tname(fl.get('type', ast.Constant(''))) == 'ENDMARKER']
    rep.ob('TOK-5', TOK, f.qual, 'exactly one ENDMARKER construction', len(ends) == 1,
           '%d ENDMARKER constructions' % len(ends))
    # ENDMARKER prefix is the pending accumulator (not a constant)
    if ends:
        fields = [fl for g, c, fl in token_constructions(ctx, TOK) if c is ends[0]][0]
        pre = fields.get('prefix')
        rep.ob('TOK-5', TOK, f.qual, norm(ends[0]), isinstance(pre, ast.Name),
               'ENDMARKER does not carry the pending prefix accumulator')
    # DEDENT loop
    prev = f.node.body[-2] if len(f.node.body) >= 2 else None
    ok = isinstance(prev, ast.For) and isinstance(prev.iter, ast.Subscript) \
        and isinstance(prev.iter.slice, ast.Slice) and norm(prev.iter.value) == 'indents' \
        and any(_yield_token_type(s) == 'DEDENT' for s in prev.body) \
        and any('indents.pop()' in norm(s) for s in prev.body)
    helper_call = None
    if not ok and isinstance(prev, ast.Expr) and isinstance(prev.value, ast.YieldFrom) and isinstance(prev.value.value, ast.Call) \
            and isinstance(prev.value.value.func, ast.Name):
        # the same through the dedent helper: `yield from <helper>(0)` pops and yields one DEDENT per level above column 0
        c = prev.value.value
        h = f.nested.get(c.func.id) or f.mod.funcs.get(c.func.id)
        if h is not None and any(isinstance(a, ast.Constant) and a.value == 0 for a in c.args) \
                and any(isinstance(w, ast.While) and 'indents[-1]' in norm(w.test)
                        and any(_yield_token_type(x) == 'DEDENT' for x in ast.walk(w) if isinstance(x, ast.stmt))
                        and any('indents.pop()' in norm(x) for x in ast.walk(w) if isinstance(x, ast.stmt))
                        for w in walk_own(h.node)):
            ok = True
            helper_call = (c, h)
    # every token of the epilogue stands at the end of the input: the position of the ENDMARKER (seed rt13-C07: DEDENTs
    # emitted through the per-line helper carry the position of the last token the scan matched)
    if ends:
        end_pos_expr = norm(fields.get('start_pos')) if fields.get('start_pos') is not None else None
        loops = [i for i, st in enumerate(f.node.body) if isinstance(st, ast.For) and any(isinstance(w, ast.While) for w in ast.walk(st))]
        if end_pos_expr is not None and loops:
            epilogue = f.node.body[loops[-1] + 1:]
            in_epilogue = {id(x) for st in epilogue for x in ast.walk(st)}
            for g, c, fl in token_constructions(ctx, TOK):
                pos = fl.get('start_pos')
                string = fl.get('string')
                if pos is None or not (isinstance(string, ast.Constant) and string.value == ''):
                    continue            # tokens that carry text stand where their text is; the zero-width ones are meant
                if g is f and id(c) in in_epilogue:
                    rep.ob('TOK-5', TOK, f.qual, 'epilogue token at the end position: %s' % norm(c), norm(pos) == end_pos_expr,
                           'a token emitted after the last line does not stand at the end of the input (%s)' % end_pos_expr)
                elif helper_call is not None and g is helper_call[1]:
                    call, h = helper_call
                    ps = h.params()
                    actual = norm(pos)
                    if isinstance(pos, ast.Name) and pos.id in ps and ps.index(pos.id) < len(call.args):
                        actual = norm(call.args[ps.index(pos.id)])
                    rep.ob('TOK-5', TOK, f.qual, 'epilogue token (through %s) at the end position: %s' % (h.name, norm(c)),
                           actual == end_pos_expr,
                           'the end-of-file tokens emitted through %s carry the position %s (where the scan matched its last '
                           'token), not the end of the input %s: a strict parse that fails on such a token reports the wrong place'
                           % (h.name, actual, end_pos_expr))
    rep.ob('TOK-5', TOK, f.qual, 'DEDENT loop: %s' % (head(prev) if prev is not None else None), ok,
           'the epilogue does not empty the indentation stack with one DEDENT per level over a copy of the stack')


def _assigned_names(node):
    """Plain names a CFG node binds."""
    out = set()
    a = node.ast
    if node.kind in ('next0', 'next'):
        for n in ast.walk(a):
            if isinstance(n, ast.Name):
                out.add(n.id)
        return out
    if node.kind != 'stmt' or a is None:
        return out
    if isinstance(a, ast.Assign):
        for t in a.targets:
            for n in ast.walk(t):
                if isinstance(n, ast.Name) and isinstance(n.ctx, ast.Store):
                    out.add(n.id)
    elif isinstance(a, (ast.AugAssign, ast.AnnAssign)):
        if isinstance(a.target, ast.Name):
            out.add(a.target.id)
    return out


def tok_6(ctx, rep):
    rep.rule('TOK-6', 'the scan loop cannot return to its head without assigning the scan position; the fallback '
                      'branch (no pattern matched) advances by a positive constant')
    f = ctx.prog.func(TOK, 'tokenize_lines')
    # role: the while loop whose test compares two plain names, the right one assigned from len(<line>)
    loops = []
    for n in walk_own(f.node):
        if isinstance(n, ast.While) and isinstance(n.test, ast.Compare) and len(n.test.ops) == 1 \
                and isinstance(n.test.ops[0], ast.Lt) and isinstance(n.test.left, ast.Name) \
                and isinstance(n.test.comparators[0], ast.Name):
            loops.append(n)
    if len(loops) != 1:
        raise AnalysisError('tokenize_lines: expected one scan loop `while <pos> < <max>`, found %d' % len(loops))
    loop = loops[0]
    pos = loop.test.left.id
    cfg = ctx.cfg(f)
    head_node = [n for n in cfg.nodes if n.kind == 'join' and n.stmt is loop]
    test_node = [n for n in cfg.nodes if n.kind == 'test' and n.stmt is loop and n.ast is loop.test]
    if not head_node or not test_node:
        raise AnalysisError('scan loop not found in CFG')
    head_node, test_node = head_node[0], test_node[0]
    assigning = {n for n in cfg.nodes if pos in _assigned_names(n)}
    # nodes inside the loop body
    body_nodes = set()
    for n in cfg.nodes:
        s = n.stmt
        p = s
        while p is not None and p is not loop:
            p = getattr(p, '_parent', None)
        if p is loop and n is not head_node and n is not test_node:
            body_nodes.add(n)
    # feasible path (truthiness facts) from the true edge of the loop test back to the loop head
    # that does not pass through a node assigning the scan position
    from ..paths import find_path, path_text
    start = [s for s, lab in test_node.succ if lab == 'T']
    p = find_path(cfg, start, lambda n: n is head_node,
                  lambda n: n in assigning or (n not in body_nodes and n is not head_node))
    offender = p
    path = path_text(p) if p else []
    rep.ob('TOK-6', TOK, f.qual, 'while %s: every back edge assigns %s' % (norm(loop.test), pos), offender is None,
           'path back to the loop head without assigning %s: %s' % (pos, ' -> '.join(path[-6:])), witness=path or None)
    # fallback branch: `if not <match>:` whose body ends in continue and updates pos by += positive constant
    found = False
    for n in ast.walk(loop):
        no_match = (isinstance(n, ast.If) and isinstance(n.test, ast.UnaryOp) and isinstance(n.test.op, ast.Not)
                    and isinstance(n.test.operand, ast.Name)) or \
                   (isinstance(n, ast.If) and isinstance(n.test, ast.Compare) and len(n.test.ops) == 1
                    and isinstance(n.test.ops[0], ast.Is) and isinstance(n.test.left, ast.Name)
                    and isinstance(n.test.comparators[0], ast.Constant) and n.test.comparators[0].value is None)
        if no_match and n.body and isinstance(n.body[-1], ast.Continue) \
                and any('ERRORTOKEN' in norm(s) for s in n.body):
            found = True
            updates = [s for s in n.body if isinstance(s, (ast.Assign, ast.AugAssign)) and pos in norm(
                s.targets[0] if isinstance(s, ast.Assign) else s.target)]
            lastu = updates[-1] if updates else None
            # positions at or after the scan position: the scan position itself and the end of a match anchored at it
            match_vars = {a.targets[0].id for a in ast.walk(loop) if isinstance(a, ast.Assign) and len(a.targets) == 1
                          and isinstance(a.targets[0], ast.Name) and isinstance(a.value, ast.Call)
                          and isinstance(a.value.func, ast.Attribute) and a.value.func.attr == 'match'
                          and len(a.value.args) == 2 and norm(a.value.args[1]) == pos}
            forward = {pos}
            for a in ast.walk(loop):
                if isinstance(a, ast.Assign) and len(a.targets) == 1 and isinstance(a.targets[0], ast.Name) \
                        and isinstance(a.value, ast.Call) and isinstance(a.value.func, ast.Attribute) \
                        and a.value.func.attr == 'end' and not a.value.args and isinstance(a.value.func.value, ast.Name) \
                        and a.value.func.value.id in match_vars:
                    others = [b for b in ast.walk(loop) if isinstance(b, ast.Assign) and b is not a
                              and any(isinstance(t, ast.Name) and t.id == a.targets[0].id for t in b.targets)]
                    if all(n not in ast.walk(b) and not any(b is x for x in ast.walk(n)) for b in others):
                        forward.add(a.targets[0].id)

            def positive_const(e):
                return isinstance(e, ast.Constant) and isinstance(e.value, int) and not isinstance(e.value, bool) and e.value > 0
            ok = False
            if isinstance(lastu, ast.AugAssign) and isinstance(lastu.op, ast.Add) and positive_const(lastu.value):
                ok = True
            elif isinstance(lastu, ast.Assign) and isinstance(lastu.value, ast.BinOp) and isinstance(lastu.value.op, ast.Add) \
                    and isinstance(lastu.value.left, ast.Name) and lastu.value.left.id in forward and positive_const(lastu.value.right):
                ok = True           # pos = <position at or after pos> + k
            rep.ob('TOK-6', TOK, f.qual, 'fallback branch: %s' % head(n), ok,
                   'the error-token branch does not advance %s by a positive constant before continuing' % pos)
            # the error token takes exactly the character at pos
            et = [s for s in n.body if 'ERRORTOKEN' in norm(s)]
            char_exprs = {'line[%s]' % v for v in forward}
            char_names = {a.targets[0].id for a in ast.walk(loop) if isinstance(a, ast.Assign) and len(a.targets) == 1
                          and isinstance(a.targets[0], ast.Name) and norm(a.value) in char_exprs}
            ok2 = any(any(c in norm(s) for c in char_exprs) or
                      any(isinstance(x, ast.Name) and x.id in char_names for x in ast.walk(s)) for s in et)
            rep.ob('TOK-6', TOK, f.qual, 'fallback token text: %s' % head(et[0]), ok2,
                   'the error token is not the single character at the scan position')
    if not found:
        raise AnalysisError('tokenize_lines: fallback (ERRORTOKEN) branch not found')


# ---------------------------------------------------------------------------
# TOK-3 : prefix-obligation typestate
# ---------------------------------------------------------------------------
E, P, C = 'EMPTY', 'PENDING', 'CONSUMED'


def _acc_names_in(e, accs):
    return {n.id for n in ast.walk(e) if isinstance(n, ast.Name) and n.id in accs}


def tok_3(ctx, rep, accumulators):
    rep.rule('TOK-3', 'prefix accumulators of tokenize_lines are never overwritten while they hold pending text, never '
                      'emitted twice, and not left pending at the exit (typestate EMPTY / PENDING / CONSUMED, '
                      'path-sensitive on the truthiness of the continued-string and match variables)')
    from ..paths import FactFlow, path_text
    f = ctx.prog.func(TOK, 'tokenize_lines')
    accs = sorted(accumulators.get(f.qual, set()))
    if len(accs) < 2:
        raise AnalysisError('TOK-3: prefix accumulators of tokenize_lines not found (%s)' % accs)
    cfg = ctx.cfg(f)
    flow = FactFlow(cfg, prune=True)
    # axiom: a slice of the current line taken from the start of a matched token is non-empty
    axiom_truthy = set()
    for n in cfg.nodes:
        if n.kind == 'stmt' and isinstance(n.ast, ast.Assign) and len(n.ast.targets) == 1 \
                and isinstance(n.ast.targets[0], ast.Name) and isinstance(n.ast.value, ast.Subscript) \
                and isinstance(n.ast.value.slice, ast.Slice) and n.ast.value.slice.upper is None \
                and n.ast.targets[0].id in flow.fact_vars:
            axiom_truthy.add(n)
    rep.assume('TOK-3 axiom: `<var> = line[start:]` after a token match is a non-empty string (%d site(s))' % len(axiom_truthy))

    def step_state(node, st):
        """-> (new state tuple, problem or None)"""
        st = dict(zip(accs, st))
        problem = None
        a = node.ast
        exprs_uses = []
        if node.kind == 'stmt' and isinstance(a, (ast.Assign, ast.AugAssign)):
            targets = a.targets if isinstance(a, ast.Assign) else [a.target]
            tnames = []
            for t in targets:
                for x in ([t] if not isinstance(t, (ast.Tuple, ast.List)) else t.elts):
                    if isinstance(x, ast.Name) and x.id in accs:
                        tnames.append(x.id)
            used = _acc_names_in(a.value, accs)
            if isinstance(a, ast.AugAssign) and isinstance(a.target, ast.Name) and a.target.id in accs:
                used.add(a.target.id)
            # token constructions inside the value (e.g. token = PythonToken(..., prefix=acc + x)) consume
            if tnames:
                for u in used:
                    if u not in tnames and st[u] == C:
                        problem = 'accumulator %s is transferred after it was already emitted' % u
                for t in tnames:
                    if t not in used and st[t] == P and not (isinstance(a.value, ast.Constant) and a.value.value == '' and False):
                        problem = 'accumulator %s is overwritten while it holds pending text' % t
                for u in used:
                    if u not in tnames:
                        st[u] = C
                for t in tnames:
                    if isinstance(a.value, ast.Constant) and a.value.value == '':
                        st[t] = E
                    else:
                        st[t] = P
                return tuple(st[x] for x in accs), problem
        # consumption: accumulator flows into the prefix field of a token construction
        for e in node_exprs(node):
            for c in ast.walk(e):
                if isinstance(c, ast.Call) and isinstance(c.func, ast.Name) and c.func.id == 'PythonToken':
                    pre = c.args[3] if len(c.args) > 3 else None
                    for kw in c.keywords:
                        if kw.arg == 'prefix':
                            pre = kw.value
                    if pre is not None:
                        for u in _acc_names_in(pre, accs):
                            if st[u] == C:
                                problem = 'accumulator %s is emitted a second time' % u
                            st[u] = C
                elif isinstance(c, ast.Call) and isinstance(c.func, ast.Name) and c.func.id != 'PythonToken':
                    # passed to a helper that emits tokens with it (generator helper) -> consumed
                    if isinstance(getattr(c, '_parent', None), ast.YieldFrom):
                        for arg in c.args:
                            for u in _acc_names_in(arg, accs):
                                if st[u] == C:
                                    problem = 'accumulator %s is emitted a second time' % u
                                st[u] = C
        return tuple(st[x] for x in accs), problem

    start = (cfg.entry, frozenset(), tuple(E for _ in accs))
    seen = {start: None}
    todo = [start]
    problems = {}
    while todo:
        state = todo.pop()
        node, facts, st = state
        st2, problem = step_state(node, st)
        if problem and (node.id, problem) not in problems:
            problems[(node.id, problem)] = (state, node)
            continue
        if node is cfg.exit:
            pend = [a for a, v in zip(accs, st) if v == P]
            if pend and ('exit', tuple(pend)) not in problems:
                problems[('exit', tuple(pend))] = (state, node)
            continue
        for s2, lab, f2 in flow.successors(node, facts):
            if node in axiom_truthy:
                f2 = frozenset(x for x in f2 if x[0] != node.ast.targets[0].id) | {(node.ast.targets[0].id, True)}
            nxt = (s2, f2, st2)
            if nxt not in seen:
                seen[nxt] = state
                todo.append(nxt)
        if len(seen) > 400000:
            raise AnalysisError('TOK-3: state space exceeded')

    def trail(state):
        out = []
        while state is not None:
            out.append(state[0])
            state = seen.get(state)
        return path_text(list(reversed(out)), limit=7)
    rep.stat('tok3_states', len(seen))
    if not problems:
        rep.ob('TOK-3', TOK, f.qual, 'accumulators %s: no overwrite of pending text, no double emission, none pending at exit' % ', '.join(accs), True)
    for key, (state, node) in sorted(problems.items(), key=lambda kv: str(kv[0])):
        what = key[1] if key[0] != 'exit' else 'accumulator(s) %s still hold pending text at the exit' % ', '.join(key[1])
        rep.ob('TOK-3', TOK, f.qual, '%s @ %s' % (what, head(node.stmt) if node.stmt is not None else 'exit'), False,
               'text taken from the input can be lost or duplicated: %s; path: %s' % (what, ' -> '.join(trail(state))),
               witness=trail(state))


# ---------------------------------------------------------------------------
# TOK-7 : the end pattern chosen for a continued string is the one of its opening quote
# ---------------------------------------------------------------------------
def tok_7(ctx, rep):
    rep.rule('TOK-7', 'for every string prefix / quote combination the tokenizer can open, the expression that selects the '
                      'end pattern of a continued string evaluates (constant folding over the finite set of prefixes) to '
                      'the pattern of that very quote')
    from ..fold import Folder, UNKNOWN, Rx
    f = ctx.prog.func(TOK, 'tokenize_lines')
    env0 = ctx.token_collection((3, 8))
    endpats = env0.get('endpats')
    prefixes = env0.get('possible_prefixes')
    if not isinstance(endpats, dict) or not prefixes:
        raise AnalysisError('TOK-7: endpats / possible_prefixes do not fold')
    quotes1 = ['"', "'"]
    quotes3 = ['"""', "'''"]
    want = {}
    for q, name in (("'", 'Single'), ('"', 'Double'), ("'''", 'Single3'), ('"""', 'Double3')):
        want[q] = env0[name]
    # role: the end-pattern variable is the receiver of `.match(line)` in the continued-string branch (`if <contstr>:`)
    endvar = None
    for n in walk_own(f.node):
        if isinstance(n, ast.If) and isinstance(n.test, ast.Name):
            for s_ in n.body[:2]:
                if isinstance(s_, ast.Assign) and isinstance(s_.value, ast.Call) and isinstance(s_.value.func, ast.Attribute) \
                        and s_.value.func.attr == 'match' and isinstance(s_.value.func.value, ast.Name) \
                        and [norm(a) for a in s_.value.args] == ['line'] and endvar is None:
                    endvar = s_.value.func.value.id
    if endvar is None:
        raise AnalysisError('TOK-7: continued-string branch (if <contstr>: <m> = <endprog>.match(line)) not found')
    sites = [n for n in walk_own(f.node) if isinstance(n, ast.Assign)
             and any(isinstance(t, ast.Name) and t.id == endvar for t in n.targets)]
    if not sites:
        raise AnalysisError('TOK-7: no end-pattern selection found in tokenize_lines')
    fo = Folder(ast.Module(body=[], type_ignores=[]))
    for n in sites:
        tests = ' '.join(norm(t.test) for t in _enclosing_ifs(n))
        triple = 'triple_quoted' in tests
        qs = quotes3 if triple else quotes1
        bad = None
        count = 0
        for p in sorted(prefixes):
            for q in qs:
                token = p + q + ('abc' if triple else 'abc\\\n')
                if triple:
                    token = p + q
                env = {'endpats': endpats, 'token': token, 'initial': token[0]}
                val = fo.ev(n.value, env)
                count += 1
                ok = isinstance(val, Rx) and val.source == want[q]
                if not ok and bad is None:
                    bad = (p + q, getattr(val, 'source', repr(val)))
        rep.ob('TOK-7', TOK, f.qual, norm(n), bad is None,
               'for a string opened with %r the selected end pattern is %s' % bad if bad else '',
               witness=bad[0] if bad else None)
        rep.stat('tok7_combinations', count)
    # and the end pattern is only consulted while a continued string is pending
    rep.minimum('TOK-7', 2)


def _enclosing_ifs(node):
    out = []
    child = node
    p = getattr(node, '_parent', None)
    while p is not None and not isinstance(p, (ast.FunctionDef, ast.AsyncFunctionDef)):
        if isinstance(p, ast.If) and child in p.body:
            out.append(p)
        child = p
        p = getattr(p, '_parent', None)
    return out


# ---------------------------------------------------------------------------
# TOK-8 : token text provenance
# ---------------------------------------------------------------------------
def tok_8(ctx, rep):
    rep.rule('TOK-8', 'the text of every token is input text: whatever flows into the string field of a token is built '
                      'from slices of the line, regex match groups, the remembered pieces of a continued string and '
                      'constants by concatenation only - no function transforms it')
    from ..da import function_locals
    from ..model import Func
    mod = ctx.prog.mod(TOK)
    cons = token_constructions(ctx, TOK)
    seen = set()
    work = []
    n_terms = [0]

    def owner_of(f, name):
        g = f
        while g is not None:
            loc, params = function_locals(g.node)
            if name in loc:
                return g
            g = g.outer
        return None

    def term(f, e, site):
        n_terms[0] += 1
        if isinstance(e, ast.Constant):
            return
        if isinstance(e, ast.BinOp) and isinstance(e.op, ast.Add):
            term(f, e.left, site)
            term(f, e.right, site)
            return
        if isinstance(e, ast.IfExp):
            term(f, e.body, site)
            term(f, e.orelse, site)
            return
        if isinstance(e, ast.BoolOp):
            for v in e.values:
                term(f, v, site)
            return
        if isinstance(e, ast.Subscript):
            term(f, e.value, site)          # a slice / index of input text is input text
            return
        if isinstance(e, ast.Attribute):
            return                          # state remembered on the f-string node (quote, previous lines)
        if isinstance(e, ast.Call):
            if isinstance(e.func, ast.Attribute) and e.func.attr in ('group',) and len(e.args) <= 1:
                return                      # text matched by a pattern
            if isinstance(e.func, ast.Name):
                callee = ctx.cg.lookup_name(f, e.func.id)
                if isinstance(callee, Func) and callee.mod.rel == TOK:
                    # helper of the tokenizer: the element returned is analysed in the helper
                    for r in walk_own(callee.node):
                        if isinstance(r, ast.Return) and r.value is not None:
                            vals = r.value.elts if isinstance(r.value, ast.Tuple) else [r.value]
                            for v in vals[:1]:
                                term(callee, v, r)
                    return
            rep.ob('TOK-8', TOK, f.qual, head(_stmt(site)), False,
                   'token text is produced by %s: what the tree reproduces is no longer the input text' % norm(e))
            return
        if isinstance(e, ast.Name):
            if e.id == 'line':
                return
            o = owner_of(f, e.id)
            if o is not None:
                work.append((o, e.id))
            return
        rep.ob('TOK-8', TOK, f.qual, head(_stmt(site)), False, 'token text comes from an unanalysable expression %s' % norm(e))

    def _stmt(n):
        while n is not None and not isinstance(n, ast.stmt):
            n = getattr(n, '_parent', None)
        return n

    for f, call, fields in cons:
        if 'string' in fields:
            term(f, fields['string'], call)
    while work:
        f, name = work.pop()
        if (f.key, name) in seen:
            continue
        seen.add((f.key, name))
        loc, params = function_locals(f.node)
        if name in params:
            idx = f.params().index(name) if name in f.params() else None
            for g in mod.funcs.values():
                for n in walk_own(g.node):
                    if isinstance(n, ast.Call) and isinstance(n.func, ast.Name) and n.func.id == f.name \
                            and ctx.cg.lookup_name(g, f.name) is f and idx is not None and idx < len(n.args):
                        term(g, n.args[idx], n)
        for n in walk_own(f.node):
            if isinstance(n, ast.Assign):
                for tg in n.targets:
                    if isinstance(tg, ast.Name) and tg.id == name:
                        term(f, n.value, n)
                    elif isinstance(tg, ast.Tuple):
                        for i, e in enumerate(tg.elts):
                            if isinstance(e, ast.Name) and e.id == name:
                                v = n.value
                                if isinstance(v, ast.Tuple) and i < len(v.elts):
                                    term(f, v.elts[i], n)
                                elif isinstance(v, ast.Call) and isinstance(v.func, ast.Attribute) and v.func.attr in ('span',):
                                    pass        # positions, not text
                                elif isinstance(v, ast.Call) and isinstance(v.func, ast.Name):
                                    callee = ctx.cg.lookup_name(f, v.func.id)
                                    if isinstance(callee, Func):
                                        for r in walk_own(callee.node):
                                            if isinstance(r, ast.Return) and isinstance(r.value, ast.Tuple) and i < len(r.value.elts):
                                                term(callee, r.value.elts[i], r)
                                else:
                                    term(f, v, n)
            elif isinstance(n, ast.AugAssign) and isinstance(n.target, ast.Name) and n.target.id == name:
                term(f, n.value, n)
            elif isinstance(n, (ast.For, ast.AsyncFor)):
                if any(isinstance(x, ast.Name) and x.id == name for x in ast.walk(n.target)):
                    it = n.iter
                    if isinstance(it, ast.Call) and isinstance(it.func, ast.Name) and it.func.id == 'enumerate' and it.args:
                        it = it.args[0]
                    term(f, it, n)
    rep.stat('tok8_terms', n_terms[0])
    if not any(o.rule == 'TOK-8' and not o.ok for o in rep.obs):
        rep.ob('TOK-8', TOK, 'tokenize_lines', 'string fields of %d token constructions: %d terms, %d traced variables'
               % (len(cons), n_terms[0], len(seen)), True)
    if len(cons) < 15 or n_terms[0] < 25:
        raise AnalysisError('TOK-8: too few token constructions / terms analysed (%d / %d)' % (len(cons), n_terms[0]))


# ---------------------------------------------------------------------------
# TOK-9 : the line cut and the f-string closer range over the same stack entries
# ---------------------------------------------------------------------------
def _quote_domain(fn_node, stack_names):
    """How the function ranges over the f-string stack where it reads ``.quote``:
    'all' (loop over the stack), 'top' (stack[-1]) or None when it does not read quotes at all."""
    loop_vars, top_vars = set(), set()
    for n in walk_own(fn_node):
        if isinstance(n, ast.For):
            it = n.iter
            idx = None
            if isinstance(it, ast.Call) and isinstance(it.func, ast.Name) and it.func.id in ('enumerate', 'reversed') and it.args:
                idx = 1 if it.func.id == 'enumerate' else None
                it = it.args[0]
                if isinstance(it, ast.Call) and isinstance(it.func, ast.Name) and it.func.id in ('enumerate', 'reversed', 'list') and it.args:
                    it = it.args[0]
            if isinstance(it, ast.Name) and it.id in stack_names:
                tg = n.target
                if isinstance(tg, ast.Tuple) and idx is not None and len(tg.elts) == 2:
                    tg = tg.elts[1]
                if isinstance(tg, ast.Name):
                    loop_vars.add(tg.id)
        if isinstance(n, ast.Assign) and len(n.targets) == 1 and isinstance(n.targets[0], ast.Name) \
                and isinstance(n.value, ast.Subscript) and isinstance(n.value.value, ast.Name) and n.value.value.id in stack_names \
                and norm(n.value.slice) == '-1':
            top_vars.add(n.targets[0].id)
    for _ in range(3):       # plain aliases of either kind
        for n in walk_own(fn_node):
            if isinstance(n, ast.Assign) and len(n.targets) == 1 and isinstance(n.targets[0], ast.Name) \
                    and isinstance(n.value, ast.Name):
                if n.value.id in loop_vars:
                    loop_vars.add(n.targets[0].id)
                if n.value.id in top_vars:
                    top_vars.add(n.targets[0].id)
    doms = set()
    for n in walk_own(fn_node):
        if isinstance(n, ast.Attribute) and n.attr == 'quote' and isinstance(n.ctx, ast.Load):
            v = n.value
            if isinstance(v, ast.Name) and v.id in loop_vars:
                doms.add('all')
            elif isinstance(v, ast.Name) and v.id in top_vars:
                doms.add('top')
            elif isinstance(v, ast.Subscript) and isinstance(v.value, ast.Name) and v.value.id in stack_names and norm(v.slice) == '-1':
                doms.add('top')
            else:
                doms.add('other')
    return doms


def tok_9(ctx, rep):
    rep.rule('TOK-9', 'inside f-strings the scanned line is cut at the closing quote of the stack entries the cut loop ranges '
                      'over; the closer that turns such a quote into FSTRING_END ranges over at least the same entries '
                      '(otherwise the scan stops in front of a quote nothing consumes: empty match, assertion, no progress)')
    mod = ctx.prog.mod(TOK)
    tl = mod.funcs.get('tokenize_lines')
    if tl is None:
        raise AnalysisError('anchor vanished: tokenize_lines')
    # the closer: the function that constructs the FSTRING_END token
    closers = [f for (f, call, fields) in token_constructions(ctx, TOK)
               if 'type' in fields and norm(fields['type']) == 'FSTRING_END']
    closers = list({f.key: f for f in closers}.values())
    if len(closers) != 1:
        raise AnalysisError('TOK-9: expected one function constructing FSTRING_END, found %d' % len(closers))
    closer = closers[0]
    # the stack variable: first argument of the call of the closer in tokenize_lines
    stack = None
    for n in walk_own(tl.node):
        if isinstance(n, ast.Call) and isinstance(n.func, ast.Name) and n.func.id == closer.name and n.args \
                and isinstance(n.args[0], ast.Name):
            stack = n.args[0].id
    if closer is tl:
        raise AnalysisError('TOK-9: FSTRING_END is constructed inside tokenize_lines itself (shape not modelled)')
    if stack is None:
        raise AnalysisError('TOK-9: call of %s in tokenize_lines not found' % closer.name)
    # the cut: the loop in tokenize_lines that shortens the text handed to the pseudo-token match
    scanned = set()
    for n in walk_own(tl.node):
        if isinstance(n, ast.Call) and isinstance(n.func, ast.Attribute) and n.func.attr == 'match' \
                and norm(n.func.value) == 'pseudo_token' and n.args and isinstance(n.args[0], ast.Name):
            scanned.add(n.args[0].id)
    cut_loops = []
    for n in walk_own(tl.node):
        if isinstance(n, ast.For) and any(isinstance(x, ast.Assign) and any(isinstance(t, ast.Name) and t.id in scanned and t.id != 'line'
                                                                          for t in x.targets) for x in ast.walk(n)):
            cut_loops.append(n)
    cut_dom = set()
    if cut_loops:
        fake = ast.FunctionDef(name='_', args=ast.arguments(posonlyargs=[], args=[], kwonlyargs=[], kw_defaults=[], defaults=[]),
                               body=cut_loops, decorator_list=[])
        cut_dom = _quote_domain(fake, {stack})
    else:
        # no loop: a cut that reads the top entry's quote directly
        for x in walk_own(tl.node):
            if isinstance(x, ast.Assign) and any(isinstance(t, ast.Name) and t.id in scanned and t.id != 'line' for t in x.targets) \
                    and not isinstance(x.value, ast.Name):
                cut_dom.add('top')
    close_dom = _quote_domain(closer.node, {closer.params()[0]})
    if not close_dom:
        raise AnalysisError('TOK-9: %s does not read the quote of a stack entry' % closer.name)
    if 'other' in cut_dom or 'other' in close_dom:
        raise AnalysisError('TOK-9: a quote is read off something that is neither the loop variable nor the top of the stack')
    ok = not ('all' in cut_dom and 'all' not in close_dom)
    rep.ob('TOK-9', TOK, closer.qual, 'closer ranges over %s; line cut ranges over %s'
           % ('/'.join(sorted(close_dom)), '/'.join(sorted(cut_dom)) or 'nothing'), ok,
           'the scanned line is cut at the quote of every open f-string, but only the innermost one can be closed: after a '
           'cut at an outer quote the pseudo-token match is empty (assert / no progress) and parsing raises')
    rep.minimum('TOK-9', 1)


# ---------------------------------------------------------------------------
# TOK-10 : when the scan of a line is abandoned, the rest of the line is kept
# ---------------------------------------------------------------------------
def tok_10(ctx, rep):
    rep.rule('TOK-10', 'every `break` out of the per-line scan loop either happens at the end of the line (pos == max_ / the '
                       'empty end-of-text match) or is preceded, in the same block, by a statement that stores the rest of '
                       'the *physical* line (an open-ended slice line[k:] of the loop variable itself, not of a shortened '
                       'copy): otherwise the characters after the scan position are in no token and no prefix')
    from ..facts import facts_at, holds
    from ..model import block_of
    mod = ctx.prog.mod(TOK)
    tl = mod.funcs.get('tokenize_lines')
    if tl is None:
        raise AnalysisError('anchor vanished: tokenize_lines')
    # the line loop and the scan loop
    line_loop = None
    for n in walk_own(tl.node):
        if isinstance(n, ast.For) and isinstance(n.iter, ast.Name) and n.iter.id in tl.all_params() and isinstance(n.target, ast.Name):
            line_loop = n
            break
    if line_loop is None:
        raise AnalysisError('TOK-10: the loop over the lines parameter was not found')
    line_var = line_loop.target.id
    scan = [n for n in ast.walk(line_loop) if isinstance(n, ast.While) and isinstance(n.test, ast.Compare)
            and any(isinstance(x, ast.Name) and x.id == 'pos' for x in ast.walk(n.test))]
    if len(scan) != 1:
        raise AnalysisError('TOK-10: expected one scan loop `while pos < max_`, found %d' % len(scan))
    scan = scan[0]
    # names that are plain copies of the line variable
    full = {line_var}
    for n in ast.walk(line_loop):
        if isinstance(n, ast.Assign) and len(n.targets) == 1 and isinstance(n.targets[0], ast.Name) \
                and isinstance(n.value, ast.Name) and n.value.id in full:
            stores = [x for x in ast.walk(line_loop) if isinstance(x, ast.Name) and x.id == n.targets[0].id
                      and isinstance(x.ctx, ast.Store)]
            if len(stores) == 1:
                full.add(n.targets[0].id)

    def owner_loop(node):
        p = getattr(node, '_parent', None)
        while p is not None and not isinstance(p, (ast.While, ast.For)):
            p = getattr(p, '_parent', None)
        return p

    def stores_rest(stmt):
        if not isinstance(stmt, (ast.Assign, ast.AugAssign)):
            return False
        for x in ast.walk(stmt.value):
            if isinstance(x, ast.Subscript) and isinstance(x.slice, ast.Slice) and x.slice.upper is None \
                    and x.slice.step is None and isinstance(x.value, ast.Name) and x.value.id in full:
                return True
        return False
    n_breaks = 0
    for b in ast.walk(scan):
        if not isinstance(b, ast.Break) or owner_loop(b) is not scan:
            continue
        n_breaks += 1
        facts = facts_at(b, tl.node)
        why = None
        if holds(facts, 'pos == max_'):
            why = 'at the end of the line (pos == max_)'
        elif holds(facts, "token == ''"):
            why = 'empty end-of-text match: nothing but the pending prefix is left (closer/cut agreement: TOK-9)'
        else:
            blk = block_of(b)
            idx = [x is b for x in blk].index(True) if blk else 0
            if any(stores_rest(s) for s in blk[:idx]):
                why = 'the rest of the physical line is stored before the break'
        rep.ob('TOK-10', TOK, tl.qual, 'break  [%s]' % '; '.join(sorted(('' if p else 'not ') + t for t, p in facts
                                                                     if any(k in t for k in ('token', 'pos', 'initial'))))[:150],
               why is not None,
               'the scan of the line stops here, but the text after the scan position is neither consumed nor stored '
               '(only a slice of a shortened copy of the line, or nothing, is kept)', reason=why)
    rep.minimum('TOK-10', 4, 'breaks of the scan loop')


# ---------------------------------------------------------------------------------------------------------------
# TOK-11  the start position of f-string text is taken where its first piece is matched
def _attr_of_tos(e):
    """'attr' for an expression <name>.attr, else None."""
    return e.attr if isinstance(e, ast.Attribute) and isinstance(e.value, ast.Name) else None


def _nonempty_on(test, attrs, attr_of=None):
    """'T' / 'F': the outcome of ``test`` under which one of the attributes ``attrs`` holds non-empty text; None when
    the test says nothing about them."""
    attr_of = attr_of or _attr_of_tos

    def is_attr(e):
        if isinstance(e, ast.Call) and isinstance(e.func, ast.Name) and e.func.id == 'len' and len(e.args) == 1:
            e = e.args[0]
        return attr_of(e) in attrs
    if is_attr(test):
        return 'T'
    if isinstance(test, ast.Compare) and len(test.ops) == 1 and is_attr(test.left) and isinstance(test.comparators[0], ast.Constant) \
            and test.comparators[0].value in ('', 0):
        op = test.ops[0]
        if isinstance(op, ast.Eq):
            return 'F'
        if isinstance(op, (ast.NotEq, ast.Gt)):
            return 'T'
    return None


def tok_11(ctx, rep):
    rep.rule('TOK-11', 'the start position yielded with an FSTRING_STRING token is recorded in the very scan step that matches '
                       'the first piece of its text: in the text finder every way to a return of possibly non-empty text '
                       'either stores (line number, match position) in the attribute the token is later built from, or has '
                       'seen carried-over text (whose start was recorded by the step that carried it over), or returns the '
                       'carried-over text itself')
    f = ctx.prog.func(TOK, 'tokenize_lines')
    # the FSTRING_STRING tokens and the attribute their start comes from
    pos_attrs, sites = set(), []
    for n in walk_own(f.node):
        if _yield_token_type(n) == 'FSTRING_STRING':
            c = n.value.value
            start = c.args[2] if len(c.args) > 2 else next((k.value for k in c.keywords if k.arg == 'start_pos'), None)
            sites.append((n, c, start))
            a = _attr_of_tos(start) if start is not None else None
            rep.ob('TOK-11', TOK, f.qual, 'start position of `yield PythonToken(FSTRING_STRING, %s, ...)`' % norm(c.args[1]),
                   a is not None, 'the start position is not read from the f-string stack entry: %s' % (norm(start) if start is not None else '-'))
            if a:
                pos_attrs.add(a)
    if not sites:
        raise AnalysisError('TOK-11: no FSTRING_STRING token is yielded by tokenize_lines')
    if len(pos_attrs) != 1:
        if pos_attrs:
            rep.ob('TOK-11', TOK, f.qual, 'one start-position attribute for f-string text', False,
                   'different attributes are used: %s' % sorted(pos_attrs))
        return
    (A,) = pos_attrs
    # the text finder: the function whose result tuple's first element is the yielded string
    finder = call = None
    for n, c, start in sites:
        s = c.args[1]
        if isinstance(s, ast.Name):
            for a in walk_own(f.node):
                if isinstance(a, ast.Assign) and isinstance(a.targets[0], ast.Tuple) and a.targets[0].elts \
                        and isinstance(a.targets[0].elts[0], ast.Name) and a.targets[0].elts[0].id == s.id \
                        and isinstance(a.value, ast.Call) and isinstance(a.value.func, ast.Name):
                    t = ctx.prog.resolve_global(f.mod, a.value.func.id)
                    if t is not None and hasattr(t, 'node'):
                        finder, call = t, a
    if finder is None:
        raise AnalysisError('TOK-11: the function that finds f-string text (its result is yielded as FSTRING_STRING) was not found')
    params = finder.params()
    assigned = {t.id for n in walk_own(finder.node) for t in ast.walk(n) if isinstance(t, ast.Name) and isinstance(t.ctx, ast.Store)}
    # the carried-over text attribute: what the finder returns when nothing matches / prepends to the match
    # (read-only local copies of an attribute, `previous = tos.previous_lines`, stand for the attribute)
    alias = {}
    for n in walk_own(finder.node):
        if isinstance(n, ast.Assign) and len(n.targets) == 1 and isinstance(n.targets[0], ast.Name) and _attr_of_tos(n.value):
            nm = n.targets[0].id
            alias[nm] = None if nm in alias else n.value.attr
    alias = {k: v for k, v in alias.items() if v is not None and sum(
        1 for x in walk_own(finder.node) if isinstance(x, ast.Name) and x.id == k and isinstance(x.ctx, ast.Store)) == 1}
    _plain_attr = _attr_of_tos

    def _attr_or_alias(e):
        if isinstance(e, ast.Name) and e.id in alias:
            return alias[e.id]
        return _plain_attr(e)
    carried = set()
    for n in walk_own(finder.node):
        if isinstance(n, ast.AugAssign) and _plain_attr(n.target):
            carried.add(n.target.attr)
        if isinstance(n, ast.Assign) and len(n.targets) == 1 and _plain_attr(n.targets[0]) and isinstance(n.value, ast.BinOp) \
                and isinstance(n.value.op, ast.Add) and _attr_or_alias(n.value.left) == n.targets[0].attr:
            carried.add(n.targets[0].attr)
    # the match position: second argument of the .match() call on the line
    match_pos = None
    for n in walk_own(finder.node):
        if isinstance(n, ast.Call) and isinstance(n.func, ast.Attribute) and n.func.attr == 'match' and len(n.args) == 2 \
                and isinstance(n.args[1], ast.Name) and n.args[1].id in params:
            match_pos = n.args[1].id
    if match_pos is None or not carried:
        raise AnalysisError('TOK-11: shape of the f-string text finder not recognised (match position %s, carried text %s)' % (match_pos, sorted(carried)))

    def good_store(st):
        if not (isinstance(st, ast.Assign) and len(st.targets) == 1 and _attr_or_alias(st.targets[0]) == A):
            return False
        v = st.value
        return isinstance(v, ast.Tuple) and len(v.elts) == 2 and isinstance(v.elts[0], ast.Name) and v.elts[0].id in params \
            and v.elts[0].id not in assigned and isinstance(v.elts[1], ast.Name) and v.elts[1].id == match_pos and match_pos not in assigned

    cfg = ctx.cfg(finder)
    start = (cfg.entry, False)
    seen = {start: None}
    todo = [start]
    bad = None
    n_ret = 0
    while todo and bad is None:
        state = todo.pop(0)
        node, ok = state
        a = node.ast
        if node.kind == 'stmt' and isinstance(a, ast.Return):
            v = a.value
            s = v.elts[0] if isinstance(v, ast.Tuple) and v.elts else v
            empty = s is None or (isinstance(s, ast.Constant) and not s.value)
            is_carried = s is not None and _attr_or_alias(s) in carried
            if not ok and not empty and not is_carried:
                bad = state
            continue
        if node.kind == 'stmt' and good_store(a):
            ok = True
        for s2, lab in node.succ:
            if lab == 'exc':
                continue
            ok2 = ok
            if node.kind == 'test' and _nonempty_on(a, carried, _attr_or_alias) == lab:
                ok2 = True
            nxt = (s2, ok2)
            if nxt not in seen:
                seen[nxt] = state
                todo.append(nxt)
    n_ret = sum(1 for n in walk_own(finder.node) if isinstance(n, ast.Return))
    path = []
    if bad is not None:
        k = bad
        while k is not None:
            path.append(k[0])
            k = seen[k]
        path.reverse()
    from ..paths import path_text
    rep.ob('TOK-11', TOK, finder.qual, 'every return of fresh text is preceded by the store of .%s = (line, match position)' % A,
           bad is None,
           'text whose first piece is matched in this call can be returned without its start having been recorded: the token is '
           'built from whatever an earlier event left in .%s (text also resumes after an error token or a re-balancing brace). '
           'Path: %s' % (A, ' -> '.join(path_text(path))) if bad is not None else '', witness=path_text(path) if bad else None)
    # the arguments bound to the stored names at the call site are the line counter and the scan position
    if call is not None:
        args = {p: (call.value.args[i] if i < len(call.value.args) else None) for i, p in enumerate(params)}
        pos_arg = args.get(match_pos)
        tgt = call.targets[0].elts
        same = isinstance(pos_arg, ast.Name) and len(tgt) > 1 and isinstance(tgt[1], ast.Name) and tgt[1].id == pos_arg.id
        rep.ob('TOK-11', TOK, f.qual, 'the match position handed to %s is the scan position it also returns' % finder.name, same,
               'the position argument %s is not the variable that receives the new scan position' % (norm(pos_arg) if pos_arg is not None else '-'))
    rep.stat('tok11_returns', n_ret)
    rep.minimum('TOK-11', 3)


# ---------------------------------------------------------------------------------------------------------------
# TOK-12  what a scan step emits and where the scan continues agree
def tok_12(ctx, rep):
    rep.rule('TOK-12', 'in the scan loop of tokenize_lines a step that emits a text shorter than the pseudo-token match (a '
                       'constant, or the first character) also moves the scan position to the end of exactly that text before '
                       'the next step: otherwise the rest of the match is in no token and no prefix')
    f = ctx.prog.func(TOK, 'tokenize_lines')
    cfg = ctx.cfg(f)
    start_name = pos_name = token_name = None
    anchor = None
    for n in cfg.nodes:
        a = n.ast
        if n.kind != 'stmt' or not isinstance(a, ast.Assign):
            continue
        t, v = a.targets[0], a.value
        if isinstance(t, ast.Tuple) and len(t.elts) == 2 and all(isinstance(x, ast.Name) for x in t.elts) \
                and isinstance(v, ast.Call) and isinstance(v.func, ast.Attribute) and v.func.attr == 'span':
            start_name, pos_name = t.elts[0].id, t.elts[1].id
            span_of = norm(v.func.value)
    if start_name is None:
        raise AnalysisError('TOK-12: `start, pos = <match>.span(k)` not found in tokenize_lines')
    # the physical line: the variable of the per-line loop
    line_name = None
    for n in walk_own(f.node):
        if isinstance(n, ast.For) and isinstance(n.target, ast.Name) and any(
                isinstance(x, ast.Call) and isinstance(x.func, ast.Attribute) and x.func.attr == 'span' for x in ast.walk(n)):
            line_name = n.target.id
    for n in cfg.nodes:
        a = n.ast
        if n.kind == 'stmt' and isinstance(a, ast.Assign) and isinstance(a.targets[0], ast.Name) and isinstance(a.value, ast.Call) \
                and isinstance(a.value.func, ast.Attribute) and a.value.func.attr == 'group' and norm(a.value.func.value) == span_of \
                and len(a.value.args) == 1 and norm(a.value.args[0]) == '2':
            token_name = a.targets[0].id
            anchor = n
    if anchor is None:
        raise AnalysisError('TOK-12: `token = <match>.group(2)` not found in tokenize_lines')
    # names bound to the first character of the token
    first_char = set()
    for a in walk_own(f.node):
        if isinstance(a, ast.Assign) and isinstance(a.targets[0], ast.Name) and isinstance(a.value, ast.Subscript) \
                and isinstance(a.value.value, ast.Name) and a.value.value.id == token_name \
                and isinstance(a.value.slice, ast.Constant) and a.value.slice.value == 0:
            first_char.add(a.targets[0].id)
    # the loop the anchor sits in
    loop = anchor.stmt
    while loop is not None and not isinstance(loop, ast.While):
        loop = getattr(loop, '_parent', None)
    if loop is None:
        raise AnalysisError('TOK-12: the scan loop was not found')
    heads = [n for n in cfg.nodes if n.kind == 'test' and n.stmt is loop]
    if not heads:
        raise AnalysisError('TOK-12: the test of the scan loop is not in the CFG')

    # the end of the physical line: the bound of the scan loop, or len(<line> ...)
    bound = None
    if isinstance(loop.test, ast.Compare) and len(loop.test.ops) == 1 and isinstance(loop.test.comparators[0], ast.Name):
        bound = loop.test.comparators[0].id

    def _is_end_of_line(v):
        if isinstance(v, ast.Name) and v.id == bound:
            return True
        return isinstance(v, ast.Call) and isinstance(v.func, ast.Name) and v.func.id == 'len' and len(v.args) == 1 and any(
            isinstance(x, ast.Name) and x.id == line_name for x in ast.walk(v.args[0]))

    def ev(e, tok):
        """small integer evaluator over len(token) and constants"""
        if isinstance(e, ast.Constant) and isinstance(e.value, int):
            return e.value
        if isinstance(e, ast.Call) and isinstance(e.func, ast.Name) and e.func.id == 'len' and len(e.args) == 1:
            a = e.args[0]
            if isinstance(a, ast.Name) and a.id == token_name and isinstance(tok, tuple):
                return len(tok[1])
            if isinstance(a, ast.Constant) and isinstance(a.value, str):
                return len(a.value)
            if isinstance(a, ast.Name) and a.id in first_char:
                return 1
            return None
        if isinstance(e, ast.BinOp) and isinstance(e.op, (ast.Add, ast.Sub)):
            l, r = ev(e.left, tok), ev(e.right, tok)
            if l is None or r is None:
                return None
            return l + r if isinstance(e.op, ast.Add) else l - r
        return None

    def guard_equal_const(node, const):
        from ..facts import guards_of
        for t, pol in guards_of(node):
            if pol and isinstance(t, ast.Compare) and len(t.ops) == 1 and isinstance(t.ops[0], ast.Eq) \
                    and norm(t.left) == token_name and isinstance(t.comparators[0], ast.Constant) and t.comparators[0].value == const:
                return True
        return False

    def emitted(a, tok):
        """length class of the text a statement emits from this match, or None"""
        out = None
        for c in ast.walk(a):
            if isinstance(c, ast.Call) and isinstance(c.func, ast.Name) and c.func.id == 'PythonToken' and len(c.args) > 1:
                s = c.args[1]
                if isinstance(s, ast.Name) and s.id == token_name:
                    out = 'M' if tok == 'M' else (('K', len(tok[1])) if isinstance(tok, tuple) else '?')
                elif isinstance(s, ast.Name) and s.id in first_char:
                    out = ('K', 1)
                elif isinstance(s, ast.Constant) and isinstance(s.value, str) and s.value:
                    out = ('K', len(s.value))
        return out

    init = (anchor, 'M', 'END', None)
    seen = {init: None}
    todo = [init]
    problems = {}
    while todo:
        state = todo.pop()
        node, tok, P, E = state
        a = node.ast
        if node is not anchor and node in heads:
            if isinstance(E, tuple) and (P == 'END' or (isinstance(P, tuple) and P[1] != E[1])):
                key = (E, P)
                problems.setdefault(key, state)
            if P == 'EOL' and E is not None and E != '?':
                problems.setdefault((E, P), state)
            continue
        if node.kind == 'stmt' and a is not None and node is not anchor:
            if isinstance(a, ast.Assign) and len(a.targets) == 1 and isinstance(a.targets[0], ast.Name):
                t = a.targets[0].id
                if t == token_name:
                    v = a.value
                    if isinstance(v, ast.Constant) and isinstance(v.value, str) and not guard_equal_const(a, v.value):
                        tok = ('C', v.value)
                    elif isinstance(v, ast.Constant):
                        pass
                    elif isinstance(v, ast.Subscript) and isinstance(v.slice, ast.Slice) and norm(v.slice.lower) == start_name \
                            and v.slice.upper is not None and norm(v.slice.upper) == pos_name:
                        tok, P = 'M', 'END'          # token is again exactly line[start:pos]
                    else:
                        tok = '?'
                elif t == pos_name:
                    v = a.value
                    if isinstance(v, ast.BinOp) and isinstance(v.op, ast.Add) and norm(v.left) == start_name:
                        k = ev(v.right, tok)
                        P = ('K', k) if k is not None else '?'
                    elif _is_end_of_line(v):
                        P = 'EOL'
                    else:
                        P = '?'
                elif t == start_name:
                    continue                            # another way of scanning: not this rule's business
            elif isinstance(a, ast.Assign) and any(isinstance(x, ast.Name) and x.id in (pos_name, token_name, start_name)
                                                   for t in a.targets for x in ast.walk(t)):
                continue                                # re-matched (tuple assignment): a new step
            elif isinstance(a, ast.AugAssign) and isinstance(a.target, ast.Name) and a.target.id == pos_name:
                d = ev(a.value, tok)
                if d is None:
                    P = '?'
                elif d != 0:
                    if isinstance(P, tuple):
                        P = ('K', P[1] + d if isinstance(a.op, ast.Add) else P[1] - d)
                    else:
                        P = '?'
            e2 = emitted(a, tok)
            if e2 is None and isinstance(a, (ast.Assign, ast.AugAssign)):
                # the text goes into a pending prefix:  acc = prefix + token  /  acc += prefix + token
                tg = a.targets[0] if isinstance(a, ast.Assign) else a.target
                if isinstance(tg, ast.Name) and tg.id not in (token_name, pos_name, start_name) and isinstance(a.value, ast.BinOp) \
                        and isinstance(a.value.op, ast.Add) and any(isinstance(x, ast.Name) and x.id == token_name
                                                                    for x in (a.value.left, a.value.right)):
                    e2 = 'M' if tok == 'M' else (('K', len(tok[1])) if isinstance(tok, tuple) else '?')
            if e2 is not None:
                E = e2
        for s2, lab in node.succ:
            if lab == 'exc':
                continue
            nxt = (s2, tok, P, E)
            if nxt not in seen:
                seen[nxt] = state
                todo.append(nxt)
    from ..paths import path_text

    def trail(state):
        out = []
        while state is not None:
            out.append(state[0])
            state = seen.get(state)
        return path_text(list(reversed(out)), limit=7)
    rep.stat('tok12_states', len(seen))
    if not problems:
        rep.ob('TOK-12', TOK, f.qual, 'emitted text and scan position agree at every return to the scan loop', True)
    for (E, P), state in sorted(problems.items(), key=str):
        if P == 'EOL':
            rep.ob('TOK-12', TOK, f.qual, 'the matched text is emitted and the scan continues at the end of the line', False,
                   'the step emits the text of the match (a token or a pending prefix) but the next step starts at the end of the '
                   'physical line: whatever lies between the end of the match and the end of the line is in no token and no '
                   'prefix (the match may have been taken on a shortened copy of the line). Path: %s' % ' -> '.join(trail(state)),
                   witness=trail(state))
            continue
        rep.ob('TOK-12', TOK, f.qual, 'a text of %d character(s) is emitted and the scan continues at %s' % (
            E[1], 'the end of the whole match' if P == 'END' else 'start + %d' % P[1]), False,
            'the step emits %d character(s) of the match but the next step starts %s: the characters in between are in no '
            'token and no prefix (or are scanned twice). Path: %s' % (E[1], 'behind the whole match' if P == 'END' else 'at start + %d' % P[1],
                                                                   ' -> '.join(trail(state))), witness=trail(state))


# ---------------------------------------------------------------------------------------------------------------
# TOK-13  the indentation of a logical line is decided once
def tok_13(ctx, rep):
    rep.rule('TOK-13', 'between two indentation decisions of tokenize_lines (a yield of INDENT / a call of the dedent helper under '
                       'the line-start flag) the flag is assigned: a line whose indentation was evaluated does not stay "new", '
                       'or the next physical line is measured as the same logical line again (INDENT directly followed by DEDENT)')
    from ..paths import FactFlow, path_text
    f = ctx.prog.func(TOK, 'tokenize_lines')
    cfg = ctx.cfg(f)
    flow = FactFlow(cfg)
    # the dedent helper: nested / module-level generator that yields DEDENT tokens
    helpers = set()
    for g in list(f.nested.values()) + [h for h in f.mod.funcs.values() if h.cls is None and h.outer is None]:
        if any(_yield_token_type(n) in ('DEDENT', 'ERROR_DEDENT') for n in walk_own(g.node)):
            helpers.add(g.name)
    helpers.discard(f.name)

    def is_decision(node):
        a = node.ast
        if a is None or node.kind != 'stmt':
            return False
        if _yield_token_type(a) == 'INDENT':
            return True
        for c in ast.walk(a):
            if isinstance(c, ast.Call) and isinstance(c.func, ast.Name) and c.func.id in helpers \
                    and isinstance(getattr(c, '_parent', None), ast.YieldFrom):
                return True
        return False
    decisions = [n for n in cfg.nodes if is_decision(n)]
    # the epilogue (DEDENTs at the end of the input) is not a line-start decision: it is not inside the per-line loop
    outer_for = [n for n in walk_own(f.node) if isinstance(n, ast.For)]
    def in_line_loop(node):
        p = node.stmt
        while p is not None and p is not f.node:
            if isinstance(p, ast.For) and p in outer_for and getattr(p, '_parent', None) is f.node:
                return True
            p = getattr(p, '_parent', None)
        return False
    decisions = [n for n in decisions if in_line_loop(n)]
    if len(decisions) < 2:
        raise AnalysisError('TOK-13: the indentation decisions of tokenize_lines were not found (%d)' % len(decisions))
    # the flag: the plain name tested (positively) in the guards of the INDENT yield
    from ..facts import guards_of
    def flag_names(n):
        names = set()
        for t, pol in guards_of(n.stmt):
            for part in (t.values if isinstance(t, ast.BoolOp) and isinstance(t.op, ast.And) else [t]):
                if pol and isinstance(part, ast.Name):
                    names.add(part.id)
        return names
    flags = None
    for n in decisions:
        if _yield_token_type(n.ast) == 'INDENT':
            flags = flag_names(n) if flags is None else (flags & flag_names(n))
    if not flags or len(flags) != 1:
        raise AnalysisError('TOK-13: the line-start flag was not identified (%s)' % sorted(flags or []))
    (flag,) = flags
    # decisions taken at the start of a line: those under the flag (a dedent forced by a keyword in the middle of a
    # broken bracket is another matter)
    decisions = [n for n in decisions if flag in flag_names(n)]
    dset = set(decisions)
    from ..paths import facts_on_arrival

    def guard_if(node):
        p = node.stmt
        while p is not None and p is not f.node:
            if isinstance(p, ast.If) and any(isinstance(x, ast.Name) and x.id == flag for x in ast.walk(p.test)):
                return p
            p = getattr(p, '_parent', None)
        return None
    bad = None
    flow = FactFlow(cfg, prune=True)
    for d in decisions:
        start = (d, frozenset(x for x in facts_on_arrival(cfg, flow, d) if x[0].split('#')[0] == flag), 0)
        seen = {start: None}
        todo = [start]
        while todo and bad is None:
            state = todo.pop(0)
            node, facts, step = state
            if step and node in dset:
                if guard_if(node) is guard_if(d) and node.id > d.id:
                    pass                        # a later step of the same decision (INDENT, then the dedent helper)
                else:
                    bad = state
                    break
            a = node.ast
            assigns = node.kind == 'stmt' and isinstance(a, (ast.Assign, ast.AugAssign, ast.AnnAssign)) and any(
                isinstance(t, ast.Name) and t.id == flag for t in ast.walk(a) if isinstance(getattr(t, 'ctx', None), ast.Store))
            if step and assigns:
                continue                        # the flag is decided anew on this way
            for s2, lab, f2 in flow.successors(node, facts):
                nxt = (s2, f2, 1)
                if nxt not in seen:
                    seen[nxt] = state
                    todo.append(nxt)
        if bad is not None:
            path = []
            k = bad
            while k is not None:
                path.append(k[0])
                k = seen[k]
            path.reverse()
            rep.ob('TOK-13', TOK, f.qual, 'indentation decision `%s`' % head(d.stmt), False,
                   'from this indentation decision the next one can be reached without %s having been assigned: the line stays '
                   '"new" and the following physical line is measured as part of the same logical line. Path: %s'
                   % (flag, ' -> '.join(path_text(path, limit=9))), witness=path_text(path, limit=9))
            bad = None
        else:
            rep.ob('TOK-13', TOK, f.qual, 'indentation decision `%s`' % head(d.stmt), True)
    rep.stat('tok13_decisions', len(decisions))
    rep.minimum('TOK-13', 2)


# ---------------------------------------------------------------------------------------------------------------
# TOK-14  "first line" means the first line
def tok_14(ctx, rep):
    """Three independent seeds (rt2-C09, rt13-C01, rt13-C03) put a fast path with `continue` above the block that handles
    the first line (BOM, start column): the block then runs for the first line that is *not* fast-pathed."""
    rep.rule('TOK-14', 'the first-line block of tokenize_lines (byte order mark, start column) is reached by the first '
                       'iteration of the line loop on every path: no `continue` / end of the loop body before the test of '
                       'the first-line flag')
    f = ctx.prog.func(TOK, 'tokenize_lines')
    # the flag by role: the plain name tested by an `if` whose body looks at the BOM constant and clears the flag
    flag = None
    block = None
    for n in walk_own(f.node):
        if isinstance(n, ast.If) and isinstance(n.test, ast.Name):
            body_txt = ' '.join(norm(b, 400) for b in n.body)
            clears = any(isinstance(b, ast.Assign) and any(isinstance(t, ast.Name) and t.id == n.test.id for t in b.targets)
                         and isinstance(b.value, ast.Constant) and b.value.value is False for b in ast.walk(n))
            if clears and 'BOM' in body_txt.upper():
                flag, block = n.test.id, n
    if flag is None:
        raise AnalysisError('TOK-14: the first-line block (flag test + BOM handling + flag cleared) was not found in tokenize_lines')
    loop = block
    while loop is not None and not isinstance(loop, ast.For):
        loop = getattr(loop, '_parent', None)
    if loop is None:
        raise AnalysisError('TOK-14: the first-line block is not inside the line loop')
    cfg = ctx.cfg(f)
    n1 = [n for n in cfg.nodes if n.kind == 'next' and n.stmt is loop]
    n0 = [n for n in cfg.nodes if n.kind == 'next0' and n.stmt is loop]
    tests = [n for n in cfg.nodes if n.kind == 'test' and n.stmt is block and isinstance(n.ast, ast.Name) and n.ast.id == flag]
    if not n1 or not n0 or not tests:
        raise AnalysisError('TOK-14: loop head / flag test not found in the control-flow graph')
    body_entry = [s for s, lab in n0[0].succ if lab == 'next']
    inside = {id(x) for b in loop.body for x in ast.walk(b)}
    from ..paths import find_path, path_text
    p = find_path(cfg, body_entry, lambda n: n is n1[0] or n is cfg.exit, lambda n: n in tests)
    rep.ob('TOK-14', TOK, f.qual, 'first-line block `if %s:` reached before the line loop goes round' % flag, p is None,
           'a line can be finished (continue / end of the body) before the first-line block has run: the BOM and the start '
           'column are then applied to a later line; path: %s' % (' -> '.join(path_text(p)) if p else ''),
           witness=path_text(p) if p else None)


# ---------------------------------------------------------------------------------------------------------------
# TOK-15  the dispatch of tokenize_lines types as NUMBER exactly what the Number pattern matches
def tok_15(ctx, rep):
    """The branch of the token dispatch that yields NUMBER is guarded by a condition over the first / last character and
    the spelling of the token.  That condition is a regular language C over the token text; the obligation is
    L(Number) <= C (every number is typed NUMBER) and no operator spelling in C (seed rt14-C10: `token[-1] in numchars`
    loses `.5j`)."""
    import re as _re
    from .. import rx
    rep.rule('TOK-15', 'the condition under which tokenize_lines yields NUMBER, read as a regular language over the token text, '
                       'contains every string of the Number pattern and no operator spelling')
    f = ctx.prog.func(TOK, 'tokenize_lines')
    guard = None
    for n in walk_own(f.node):
        if isinstance(n, ast.If) and any(_yield_token_type(s) == 'NUMBER' for s in n.body):
            guard = n
    if guard is None:
        raise AnalysisError('TOK-15: the branch that yields NUMBER was not found')
    # constants the condition mentions (numchars ...)
    def const(name):
        vals = [a.value for a in ast.walk(f.node) if isinstance(a, ast.Assign) and any(isinstance(t, ast.Name) and t.id == name for t in a.targets)]
        if len(vals) == 1 and isinstance(vals[0], ast.Constant) and isinstance(vals[0].value, str):
            return vals[0].value
        try:
            v = ctx.folder(TOK).get(name)
        except AnalysisError:
            return None
        return v if isinstance(v, str) else None

    atoms_ = []         # regex sources

    def cls(chars):
        return '[%s]' % ''.join(_re.escape(c) for c in sorted(set(chars)))

    def atom(src):
        if src not in atoms_:
            atoms_.append(src)
        return ('atom', atoms_.index(src))

    def chars_of(e):
        if isinstance(e, ast.Constant) and isinstance(e.value, str):
            return e.value
        if isinstance(e, ast.Name):
            return const(e.id)
        return None

    def tr(e):
        if isinstance(e, ast.BoolOp):
            return ('and' if isinstance(e.op, ast.And) else 'or', [tr(v) for v in e.values])
        if isinstance(e, ast.UnaryOp) and isinstance(e.op, ast.Not):
            return ('not', tr(e.operand))
        if isinstance(e, ast.Compare) and len(e.ops) == 1:
            l, op, r = e.left, e.ops[0], e.comparators[0]
            ltxt = norm(l)
            pos = {'initial': 'first', 'token[0]': 'first', 'token[-1]': 'last', 'token': 'whole'}.get(ltxt)
            if pos is not None:
                neg = isinstance(op, (ast.NotEq, ast.NotIn))
                if isinstance(op, (ast.Eq, ast.NotEq)):
                    lit = chars_of(r)
                    if lit is not None:
                        body = _re.escape(lit) if pos == 'whole' else cls(lit) if len(lit) == 1 else None
                        if body is not None:
                            src = body if pos == 'whole' else (body + '(?s:.*)' if pos == 'first' else '(?s:.*)' + body)
                            a = atom(src)
                            return ('not', a) if neg else a
                if isinstance(op, (ast.In, ast.NotIn)):
                    if pos == 'whole' and isinstance(r, (ast.Tuple, ast.List, ast.Set)) and all(isinstance(x, ast.Constant) and isinstance(x.value, str) for x in r.elts):
                        a = atom('(?:%s)' % '|'.join(_re.escape(x.value) for x in r.elts))
                        return ('not', a) if neg else a
                    chars = chars_of(r)
                    if chars is not None and pos in ('first', 'last'):
                        a = atom(cls(chars) + '(?s:.*)' if pos == 'first' else '(?s:.*)' + cls(chars))
                        return ('not', a) if neg else a
        raise AnalysisError('TOK-15: the NUMBER condition contains a test that is not modelled: %s' % norm(e))
    formula = tr(guard.test)

    def ev(fm, flags):
        k = fm[0]
        if k == 'atom':
            return flags[fm[1]]
        if k == 'not':
            return not ev(fm[1], flags)
        if k == 'and':
            return all(ev(x, flags) for x in fm[1])
        return any(ev(x, flags) for x in fm[1])
    nfas = [rx.compile_nfa(a) for a in atoms_]
    done = {}
    for version in ((3, 6), (3, 12)):
        env = ctx.token_collection(version)
        if env['Number'] not in done:
            number = rx.compile_nfa(env['Number'])
            done[env['Number']] = rx._search(nfas + [number], lambda fl: fl[-1] and not ev(formula, fl[:-1]))
        w = done[env['Number']]
        rep.ob('TOK-15', TOK, f.qual, 'every Number (%d.%d) satisfies `%s`' % (version + (norm(guard.test, 120),)), w is None,
               'the literal %r matches the Number pattern but not the condition of the NUMBER branch: it is typed by a later '
               'branch (operator / name)' % (w,), witness=w)
        ops = [o for o in rx.finite_language(rx.compile_nfa(env['Funny'])) if o and o[0] not in '\r\n']
        bad = [o for o in ops if ev(formula, [rx.nfa_accepts(a, o) for a in nfas])]
        rep.ob('TOK-15', TOK, f.qual, 'no operator spelling (%d.%d) satisfies the NUMBER condition' % version, not bad,
               'the operator %r satisfies the condition of the NUMBER branch' % (bad[:3],), witness=bad[0] if bad else None)
    rep.minimum('TOK-15', 4)
