"""GEN-5: the EBNF -> NFA construction of pgen2/grammar_parser.py, decided by abstract interpretation.

Every combinator method of GrammarParser (the methods that return a (start, end) pair of NFA states) is
interpreted *abstractly*, on all paths:

* the look-ahead token is an unknown; the tests the code makes on ``self.value`` / ``self.type`` fork the path and
  are recorded as constraints (a path whose constraints contradict each other is dropped);
* a call of another combinator returns a fresh symbolic fragment for a fresh letter; because what matters for the
  soundness of a composition is how the sub-fragment is wired at its two ends, each call is tried with five
  representative wirings - the ones the combinators themselves produce: plain (X), end loops back to start (X+),
  start by-passes to end (X?), both (X*), start *is* end (X*), a start that is entered again from inside (X+ Y) and
  an end that can be left into the fragment and reached again (Y X*);
* ``NFAState(...)`` allocates an abstract state, ``s.add_arc(t[, label])`` adds an (epsilon or letter) arc;
* paths are explored up to three sub-fragments (three alternatives, three items).

What a path *consumes* from the token stream (the meta tokens ``| [ ] ( ) + *`` it was constrained to, the
sub-fragments, NAME / STRING tokens) is an EBNF phrase; its language over the letters is computed independently
(as a regular expression, by the regex engine).  The obligation per path: the states and arcs built on that path,
read from the returned start state to the returned end state, accept exactly that language.

No grammar text is parsed and no parso code runs: the analysis sees only the syntax tree of grammar_parser.py.
"""
import ast
import copy

from .. import rx
from ..model import AnalysisError, norm, walk_own

GP = 'parso/pgen2/grammar_parser.py'
META = ('|', '[', ']', '(', ')', '+', '*', ':')
MAX_ITER = 3
MAX_SUBS = 3        # sub-fragments per path (three alternatives / three items)
SHAPES = ('plain', 'loop', 'bypass', 'loop+bypass', 'same', 'reentrant-start', 'leaky-end')
SHAPE_RX = {'plain': '%s', 'loop': '%s+', 'bypass': '%s?', 'loop+bypass': '%s*', 'same': '%s*',
            # the start is entered again from inside (X+ Y): being at the start does not mean "nothing consumed yet"
            'reentrant-start': '%s+%s',
            # the end has a way back into the fragment that returns to it (Y X*): being at the end allows more input
            'leaky-end': '%s%s*'}


class Infeasible(Exception):
    pass


class NotModelled(AnalysisError):
    pass


class Path:
    def __init__(self):
        self.env = {}
        self.n_states = 0
        self.arcs = []            # (src, dst, letter | None)
        self.gen = 0              # generation of the look-ahead token
        self.val = {}             # gen -> ('eq', c) | ('neq', set)
        self.typ = {}             # gen -> ('eq', T) | ('neq', set)
        self.letter_of_gen = {}
        self.n_letters = 0
        self.trace = []           # regex pieces of what was consumed
        self.shapes = []          # human readable: which sub-fragments with which wiring
        self.iters = {}

    def fork(self):
        return copy.deepcopy(self)

    def new_state(self):
        self.n_states += 1
        return self.n_states - 1

    def new_letter(self):
        ch = 'abcdefghijklmnopq'[self.n_letters]
        self.n_letters += 1
        return ch

    # -- constraints ----------------------------------------------------------------------------------------
    # per generation: {'allow': set | None (anything), 'deny': set}, for the token text and for the token type
    @staticmethod
    def _narrow(table, g, consts, positive):
        cur = table.setdefault(g, {'allow': None, 'deny': set()})
        if positive:
            cur['allow'] = set(consts) if cur['allow'] is None else cur['allow'] & set(consts)
        else:
            cur['deny'] |= set(consts)
        if cur['allow'] is not None:
            cur['allow'] -= cur['deny']
            if not cur['allow']:
                raise Infeasible()

    def _cross(self, g):
        v, t = self.val.get(g), self.typ.get(g)
        if v and v['allow'] is not None and v['allow'] <= set(META):
            # the token is a meta operator, hence an OP token
            self._narrow(self.typ, g, ['OP'], True)
        if t and t['allow'] is not None and 'OP' not in t['allow']:
            # not an operator: its text is none of the meta operators
            self._narrow(self.val, g, META, False)

    def constrain_val(self, g, consts, positive):
        self._narrow(self.val, g, consts, positive)
        self._cross(g)

    def constrain_typ(self, g, consts, positive):
        self._narrow(self.typ, g, consts, positive)
        self._cross(g)

    # -- consuming the look-ahead -----------------------------------------------------------------------------
    def advance(self):
        self.trace.append(('tok', self.gen))       # resolved at the end of the path, when all tests on it are known
        self.gen += 1

    def resolve(self, g):
        """-> list of candidate pieces for the token of generation g"""
        v, t = self.val.get(g), self.typ.get(g)
        if v and v['allow'] is not None and v['allow'] <= set(META):
            return [('meta', c) for c in sorted(v['allow'])]
        if t and t['allow'] is not None and t['allow'] <= {'NAME', 'STRING'}:
            if g not in self.letter_of_gen:
                self.letter_of_gen[g] = self.new_letter()
            return [('letter', self.letter_of_gen[g])]
        if t and t['allow'] is not None and t['allow'] <= {'NEWLINE', 'ENDMARKER'}:
            return [('other', '/'.join(sorted(t['allow'])))]
        return [('unknown', '?')]


class Interp:
    def __init__(self, cls, report):
        self.cls = cls
        self.report = report
        self.methods = cls.methods
        self.combinators = set()
        self.advance_m = self.expect_m = self.error_m = None
        for name, m in self.methods.items():
            rets = [n for n in walk_own(m.node) if isinstance(n, ast.Return) and n.value is not None]
            if rets and any(isinstance(r.value, ast.Tuple) and len(r.value.elts) == 2 for r in rets):
                self.combinators.add(name)
            if any(isinstance(n, ast.Attribute) and isinstance(n.ctx, ast.Store) and n.attr == 'value'
                   and norm(n.value) == 'self' for n in walk_own(m.node)):
                self.advance_m = name
            if any(isinstance(n, ast.Raise) for n in m.node.body):
                self.error_m = name
        for name, m in self.methods.items():
            if name in self.combinators or name in (self.advance_m, self.error_m) or name in ('__init__', 'parse'):
                continue
            calls = {n.func.attr for n in walk_own(m.node) if isinstance(n, ast.Call) and isinstance(n.func, ast.Attribute)
                     and norm(n.func.value) == 'self'}
            if self.advance_m in calls and len(m.params()) >= 2:
                self.expect_m = name
        # combinators proper consume tokens (directly or through other methods); a method that returns a pair without
        # consuming anything is a plain helper and is interpreted in place
        consumes = {self.advance_m, self.expect_m}
        changed = True
        while changed:
            changed = False
            for name, m in self.methods.items():
                if name in consumes:
                    continue
                for n in walk_own(m.node):
                    if isinstance(n, ast.Call) and isinstance(n.func, ast.Attribute) and norm(n.func.value) == 'self' \
                            and n.func.attr in consumes:
                        consumes.add(name)
                        changed = True
                        break
        self.helpers = {n for n in self.combinators if n not in consumes}
        self.combinators -= self.helpers
        if not (self.advance_m and self.error_m and self.expect_m):
            raise AnalysisError('GEN-5: token helpers of GrammarParser not recognised (advance=%s expect=%s error=%s)'
                                % (self.advance_m, self.expect_m, self.error_m))

    # -- values -------------------------------------------------------------------------------------------------
    def const_of(self, e, depth=0):
        """python constant, 'TT.X' for PythonTokenTypes.X, tuple of those; else None"""
        if isinstance(e, ast.Constant) and isinstance(e.value, str):
            return e.value
        if isinstance(e, ast.Name) and depth < 3:
            # a module-level constant
            vals = [v for v in self.cls.mod.globals.get(e.id, []) or [] if v is not None]
            if len(vals) == 1 and not isinstance(vals[0], (ast.FunctionDef, ast.ClassDef)):
                return self.const_of(vals[0], depth + 1)
            return None
        if isinstance(e, ast.Attribute) and norm(e.value) == 'PythonTokenTypes':
            return 'TT.' + e.attr
        if isinstance(e, (ast.Tuple, ast.List, ast.Set)):
            out = [self.const_of(x, depth) for x in e.elts]
            if all(o is not None for o in out):
                return tuple(out)
        return None

    def eval(self, e, p):
        """-> list of (value, path).  Values: ('state', i) ('tuple', [...]) ('la_value', g) ('la_type', g) ('const', c) ('unknown',)"""
        if isinstance(e, ast.Name):
            if e.id in p.env:
                return [(p.env[e.id], p)]
            c = self.const_of(e)
            if c is not None:
                return [(('const', c), p)]
            return [(('unknown',), p)]
        c = self.const_of(e)
        if c is not None:
            return [(('const', c), p)]
        if isinstance(e, ast.Constant):
            return [(('const', e.value), p)]
        if isinstance(e, ast.Attribute) and norm(e.value) == 'self':
            if e.attr == 'value':
                return [(('la_value', p.gen), p)]
            if e.attr == 'type':
                return [(('la_type', p.gen), p)]
            return [(('unknown',), p)]
        if isinstance(e, ast.Tuple):
            outs = [([], p)]
            for x in e.elts:
                nxt = []
                for vals, q in outs:
                    for v, q2 in self.eval(x, q):
                        nxt.append((vals + [v], q2))
                outs = nxt
            return [(('tuple', vals), q) for vals, q in outs]
        if isinstance(e, ast.Call):
            return self.call(e, p)
        raise NotModelled('GEN-5: expression not modelled: %s' % norm(e))

    def call(self, e, p):
        f = e.func
        if isinstance(f, ast.Name) and f.id == 'NFAState':
            return [(('state', p.new_state()), p)]
        if isinstance(f, ast.Attribute) and f.attr == 'add_arc':
            out = []
            for src, q in self.eval(f.value, p):
                for dst, q2 in self.eval(e.args[0], q):
                    label = None
                    lab_e = e.args[1] if len(e.args) > 1 else next((k.value for k in e.keywords), None)
                    q3 = q2
                    if lab_e is not None:
                        (lv, q3), = self.eval(lab_e, q2)
                        if lv[0] == 'la_value':
                            g = lv[1]
                            if g not in q3.letter_of_gen:
                                q3.letter_of_gen[g] = q3.new_letter()
                            label = q3.letter_of_gen[g]
                        elif lv == ('const', None):
                            label = None
                        else:
                            raise NotModelled('GEN-5: arc label not modelled: %s' % norm(lab_e))
                    if src[0] != 'state' or dst[0] != 'state':
                        raise NotModelled('GEN-5: add_arc on something that is not an NFA state: %s' % norm(e))
                    q3.arcs.append((src[1], dst[1], label))
                    out.append((('const', None), q3))
            return out
        if isinstance(f, ast.Attribute) and norm(f.value) == 'self':
            name = f.attr
            if name == self.advance_m:
                p.advance()
                return [(('unknown',), p)]
            if name == self.error_m:
                raise Infeasible()         # error exit: no fragment is returned
            if name == self.expect_m:
                T = self.const_of(e.args[0]) if e.args else None
                V = self.const_of(e.args[1]) if len(e.args) > 1 else None
                if T is None or not T.startswith('TT.'):
                    raise NotModelled('GEN-5: %s' % norm(e))
                p.constrain_typ(p.gen, [T[3:]], True)
                if V is not None:
                    p.constrain_val(p.gen, [V], True)
                p.advance()
                return [(('unknown',), p)]
            target = self.methods.get(name)
            if target is not None and (e.args or e.keywords or name in self.helpers) \
                    and name not in (self.advance_m, self.error_m, self.expect_m) and name not in self.combinators:
                # a helper that is handed states: interpreted in place with its parameters bound
                return self.inline(target, e, p)
            if name in self.combinators:
                if len(p.shapes) >= MAX_SUBS:
                    raise Infeasible()     # bound of the model reached: path not explored further
                out = []
                for shape in SHAPES:
                    q = p.fork()
                    ch = q.new_letter()
                    s = q.new_state()
                    rx_args = ch
                    if shape == 'same':
                        m = q.new_state()
                        q.arcs.append((s, m, ch))
                        q.arcs.append((m, s, None))
                        t = s
                    elif shape == 'reentrant-start':
                        ch2 = q.new_letter()
                        m = q.new_state()
                        t = q.new_state()
                        q.arcs.append((s, m, ch))
                        q.arcs.append((m, s, None))
                        q.arcs.append((m, t, ch2))
                        rx_args = (ch, ch2)
                    elif shape == 'leaky-end':
                        ch2 = q.new_letter()
                        m = q.new_state()
                        t = q.new_state()
                        q.arcs.append((s, t, ch))
                        q.arcs.append((t, m, ch2))
                        q.arcs.append((m, t, None))
                        rx_args = (ch, ch2)
                    else:
                        t = q.new_state()
                        q.arcs.append((s, t, ch))
                        if 'loop' in shape:
                            q.arcs.append((t, s, None))
                        if 'bypass' in shape:
                            q.arcs.append((s, t, None))
                    q.trace.append(('sub', SHAPE_RX[shape] % rx_args))
                    q.shapes.append('%s:%s=%s' % (name, ch, shape))
                    q.gen += 1             # the callee leaves a new look-ahead behind
                    out.append((('tuple', [('state', s), ('state', t)]), q))
                return out
        raise NotModelled('GEN-5: call not modelled: %s' % norm(e))

    def inline(self, target, e, p, depth=[0]):
        if depth[0] > 3:
            raise NotModelled('GEN-5: helper calls nested too deeply at %s' % norm(e))
        params = target.params()[1:]
        if e.keywords or len(e.args) != len(params):
            raise NotModelled('GEN-5: helper call not modelled: %s' % norm(e))
        outs = [([], p)]
        for a in e.args:
            nxt = []
            for vals, q in outs:
                for v, q2 in self.eval(a, q):
                    nxt.append((vals + [v], q2))
            outs = nxt
        results = []
        depth[0] += 1
        try:
            for vals, q in outs:
                saved = q.env
                q.env = dict(zip(params, vals))
                for oc, q2 in self.block(target.node.body, q):
                    q2.env = dict(saved)
                    if isinstance(oc, tuple) and oc[0] == 'return':
                        results.append((oc[1], q2))
                    elif oc == 'next':
                        results.append((('const', None), q2))
        finally:
            depth[0] -= 1
        return results

    # -- conditions -----------------------------------------------------------------------------------------------
    def branch(self, test, p):
        """-> list of (bool, path)"""
        if isinstance(test, ast.Constant):
            return [(bool(test.value), p)]
        if isinstance(test, ast.UnaryOp) and isinstance(test.op, ast.Not):
            return [(not b, q) for b, q in self.branch(test.operand, p)]
        if isinstance(test, ast.BoolOp):
            is_and = isinstance(test.op, ast.And)
            outs = [(None, p)]
            result = []
            for v in test.values:
                nxt = []
                for _, q in outs:
                    for b, q2 in self.branch(v, q.fork()):
                        if b != is_and:
                            result.append((b, q2))          # short circuit
                        else:
                            nxt.append((b, q2))
                outs = nxt
            result += [(is_and, q) for _, q in outs]
            return result
        if isinstance(test, ast.Attribute) and test.attr == 'arcs':
            # truthiness of a state's arc list: does the state have an outgoing arc in the automaton built so far
            out = []
            for val, q in self.eval(test.value, p):
                if val[0] != 'state':
                    raise NotModelled('GEN-5: condition not modelled: %s' % norm(test))
                out.append((any(a[0] == val[1] for a in q.arcs), q))
            return out
        if isinstance(test, ast.Call) and isinstance(test.func, ast.Attribute) and norm(test.func.value) == 'self' \
                and not test.args and not test.keywords and test.func.attr in self.methods:
            # a predicate method: `return EXPR`
            m = self.methods[test.func.attr]
            body = [st for st in m.node.body if not (isinstance(st, ast.Expr) and isinstance(st.value, ast.Constant))]
            if len(body) == 1 and isinstance(body[0], ast.Return) and body[0].value is not None:
                return self.branch(body[0].value, p)
        if isinstance(test, ast.Compare) and len(test.ops) == 1:
            op = test.ops[0]
            (lv, p), = self.eval(test.left, p)
            (rv, p), = self.eval(test.comparators[0], p)
            if lv[0] in ('la_value', 'la_type') and rv[0] == 'const':
                g = lv[1]
                consts = rv[1] if isinstance(rv[1], tuple) else (rv[1],)
                if isinstance(op, (ast.Eq, ast.NotEq)) and isinstance(rv[1], tuple):
                    raise NotModelled('GEN-5: %s' % norm(test))
                positive = isinstance(op, (ast.Eq, ast.In))
                if not isinstance(op, (ast.Eq, ast.NotEq, ast.In, ast.NotIn)):
                    raise NotModelled('GEN-5: %s' % norm(test))
                if lv[0] == 'la_value':
                    if not all(isinstance(c, str) and not c.startswith('TT.') for c in consts):
                        raise NotModelled('GEN-5: %s' % norm(test))
                    narrow, vals = Path.constrain_val, list(consts)
                else:
                    if not all(isinstance(c, str) and c.startswith('TT.') for c in consts):
                        raise NotModelled('GEN-5: %s' % norm(test))
                    narrow, vals = Path.constrain_typ, [c[3:] for c in consts]
                out = []
                for holds in (True, False):
                    q = p.fork()
                    try:
                        narrow(q, g, vals, holds)
                        out.append((holds == positive, q))
                    except Infeasible:
                        pass
                return out
        raise NotModelled('GEN-5: condition not modelled: %s' % norm(test))

    # -- statements -----------------------------------------------------------------------------------------------
    def assign(self, target, value, p):
        if isinstance(target, ast.Name):
            p.env[target.id] = value
        elif isinstance(target, ast.Tuple):
            if value[0] != 'tuple' or len(value[1]) != len(target.elts):
                raise NotModelled('GEN-5: unpacking of something that is not a pair: %s' % norm(target))
            for t, v in zip(target.elts, value[1]):
                self.assign(t, v, p)
        elif isinstance(target, ast.Attribute) and norm(target.value) == 'self' and target.attr not in ('value', 'type'):
            pass        # bookkeeping on the parser object (the current rule name ...): reads of it are 'unknown' anyway
        else:
            raise NotModelled('GEN-5: assignment target not modelled: %s' % norm(target))

    def block(self, stmts, p):
        """-> list of (outcome, path); outcome: 'next' | 'break' | 'continue' | ('return', value)"""
        states = [('next', p)]
        for st in stmts:
            nxt = []
            for oc, q in states:
                if oc != 'next':
                    nxt.append((oc, q))
                    continue
                try:
                    nxt.extend(self.stmt(st, q))
                except Infeasible:
                    pass
            states = nxt
        return states

    def stmt(self, st, p):
        if isinstance(st, ast.Expr):
            if isinstance(st.value, ast.Constant):
                return [('next', p)]
            return [('next', q) for _, q in self._eval_all(st.value, p)]
        if isinstance(st, ast.Assign):
            out = []
            for v, q in self._eval_all(st.value, p):
                for t in st.targets:
                    self.assign(t, v, q)
                out.append(('next', q))
            return out
        if isinstance(st, ast.Return):
            if st.value is None:
                return [(('return', ('const', None)), p)]
            return [(('return', v), q) for v, q in self._eval_all(st.value, p)]
        if isinstance(st, ast.If):
            out = []
            for b, q in self._branch_all(st.test, p):
                out.extend(self.block(st.body if b else st.orelse, q))
            return out
        if isinstance(st, ast.While):
            out = []
            key = id(st)
            work = [p]
            while work:
                q = work.pop()
                n = q.iters.get(key, 0)
                for b, q2 in self._branch_all(st.test, q):
                    if not b:
                        out.extend(self.block(st.orelse, q2) if st.orelse else [('next', q2)])
                        continue
                    if n >= MAX_ITER:
                        continue           # bound reached: path not explored further
                    q2.iters[key] = n + 1
                    for oc, q3 in self.block(st.body, q2):
                        if oc == 'break':
                            out.append(('next', q3))
                        elif oc in ('next', 'continue'):
                            work.append(q3)
                        else:
                            out.append((oc, q3))
            for oc, q in out:
                q.iters.pop(key, None)
            return out
        if isinstance(st, ast.Break):
            return [('break', p)]
        if isinstance(st, ast.Continue):
            return [('continue', p)]
        if isinstance(st, ast.Pass):
            return [('next', p)]
        if isinstance(st, ast.Raise):
            raise Infeasible()
        if isinstance(st, ast.Assert):
            return [('next', p)]
        raise NotModelled('GEN-5: statement not modelled: %s' % norm(st)[:80])

    def _eval_all(self, e, p):
        try:
            return self.eval(e, p)
        except Infeasible:
            return []

    def _branch_all(self, test, p):
        try:
            return self.branch(test, p.fork())
        except Infeasible:
            return []


def _resolved_traces(path):
    """All readings of the consumed tokens (a token the code never pinned down has several)."""
    outs = [[]]
    for kind, x in path.trace:
        cands = path.resolve(x) if kind == 'tok' else [(kind, x)]
        outs = [o + [c] for o in outs for c in cands]
    return outs


def _expected_regex(trace):
    """The consumed EBNF phrase as a regular expression over the letters; None when it is not well formed."""
    out = []
    depth = []
    for kind, x in trace:
        if kind == 'sub':
            out.append('(?:%s)' % x)
        elif kind == 'letter':
            out.append(x)
        elif kind == 'meta':
            if x == '[':
                out.append('(?:')
                depth.append(']')
            elif x == '(':
                out.append('(?:')
                depth.append(')')
            elif x in (']', ')'):
                if not depth or depth.pop() != x:
                    return None
                out.append(')?' if x == ']' else ')')
            elif x in ('|', '+', '*'):
                out.append(x)
            else:
                return None
        else:
            return None
    if depth:
        return None
    return ''.join(out)


def _nfa_of(path, start, end):
    n = rx.NFA(top=127)
    n.n = path.n_states
    for s, t, lab in path.arcs:
        if lab is None:
            n.eps[s].add(t)
        else:
            n.tr[s].append((rx.CS.of([ord(lab)]), t))
    n.start, n.final = start, end
    return n


def gen_5(ctx, rep):
    rep.rule('GEN-5', 'EBNF -> NFA: on every path of every combinator of GrammarParser (at most three operands per path, sub-fragments in '
                      'seven representative wirings) the states and arcs built, read from the returned start to the returned '
                      'end state, accept exactly the language of the EBNF phrase the path consumed (|, [], (), +, *, '
                      'juxtaposition)')
    cls = ctx.prog.cls(GP, 'GrammarParser')
    it = Interp(cls, rep)
    total = 0
    for name in sorted(it.combinators):
        m = cls.methods[name]
        if len(m.params()) > 1:
            continue          # a helper that is handed states: covered through its callers
        p0 = Path()
        try:
            results = it.block(m.node.body, p0)
        except RecursionError:
            raise AnalysisError('GEN-5: interpretation of %s did not terminate' % name)
        n_paths = 0
        failures = {}
        kinds = set()
        for oc, p in results:
            if not (isinstance(oc, tuple) and oc[0] == 'return'):
                continue      # falls off the end (error helper) - no fragment
            v = oc[1]
            if v == ('const', None):
                continue
            if not (v[0] == 'tuple' and len(v[1]) == 2 and all(x[0] == 'state' for x in v[1])):
                raise AnalysisError('GEN-5: %s returns something that is not a pair of states' % name)
            n_paths += 1
            got = None
            for trace in _resolved_traces(p):
                # the rule-level wrapper `NAME ':' rhs NEWLINE` (when it hands the fragment of its rhs through): the
                # colon is no operator of the right-hand side language, so the frame is unambiguous
                if len(trace) >= 4 and trace[1][1] == ':' and trace[-1][1] == 'NEWLINE':
                    trace = trace[2:-1]
                exp = _expected_regex(trace)
                phrase = ' '.join(x if k != 'sub' else '<%s>' % x for k, x in trace)
                if exp is None:
                    failures.setdefault('the tokens consumed on a path are not a well-formed EBNF phrase: %s' % phrase, p)
                    continue
                if exp == '':
                    failures.setdefault('a fragment is returned although nothing was consumed', p)
                    continue
                kinds.add(''.join(x for k, x in trace if k == 'meta') or 'seq%d' % len(trace))
                if got is None:
                    got = _nfa_of(p, v[1][0][1], v[1][1][1])
                try:
                    want = rx.compile_nfa(exp)
                except Exception:
                    failures.setdefault('the tokens consumed on a path are not a well-formed EBNF phrase: %s' % phrase, p)
                    continue
                d = rx.equivalent(got, want)
                if d is not None:
                    side, w = d
                    failures.setdefault('phrase `%s` [%s]: the word %r is %s' % (
                        phrase, ', '.join(p.shapes), w,
                        'accepted by the built automaton but not in the language of the phrase' if side == 'only-left'
                        else 'in the language of the phrase but not accepted by the built automaton'), p)
        total += n_paths
        if not n_paths:
            raise AnalysisError('GEN-5: no fragment-returning path found in %s' % name)
        first = sorted(failures)[0] if failures else ''
        rep.ob('GEN-5', GP, m.qual, 'fragment construction on %d paths (%d phrase forms)' % (n_paths, len(kinds)),
               not failures, first, witness=first or None,
               reason='every path builds an automaton equivalent to the phrase it consumed')
    rep.stat('gen5_paths', total)
    rep.minimum('GEN-5', 4, 'the four combinators _parse_rhs/_parse_items/_parse_item/_parse_atom')
