"""E6 - effect analysis: EFF-1 .. EFF-5."""
import ast

from ..model import AnalysisError, norm, head, walk_own, Cls, Func, qual_of
from .par import only_via, calls_in, is_method_call

MUTATORS = {'append', 'extend', 'insert', 'pop', 'remove', 'clear', 'update', 'setdefault', 'add', 'discard',
            'sort', 'reverse', 'popitem', '__setitem__', '__delitem__'}

SHARED_CLASSES = [
    ('parso/grammar.py', 'Grammar'), ('parso/grammar.py', 'PythonGrammar'),
    ('parso/pgen2/generator.py', 'Grammar'), ('parso/pgen2/generator.py', 'DFAState'),
    ('parso/pgen2/generator.py', 'DFAPlan'), ('parso/pgen2/generator.py', 'ReservedString'),
    ('parso/python/tokenize.py', 'TokenCollection'), ('parso/normalizer.py', 'NormalizerConfig'),
    ('parso/python/token.py', 'TokenType'),
]

GLOBAL_EFFECT_CALLS = {
    'warnings.catch_warnings': 'saves and restores the process-wide warning filter list (documented as not thread-safe)',
    'warnings.filterwarnings': 'mutates the process-wide warning filter list',
    'warnings.simplefilter': 'mutates the process-wide warning filter list',
    'warnings.resetwarnings': 'mutates the process-wide warning filter list',
    'gc.disable': 'process-wide garbage collector switch', 'gc.enable': 'process-wide garbage collector switch',
    'sys.setrecursionlimit': 'process-wide limit', 'os.chdir': 'process-wide working directory',
    'os.putenv': 'process environment', 'locale.setlocale': 'process-wide locale', 'random.seed': 'shared RNG state',
    'logging.basicConfig': 'process-wide logging configuration', 'sys.settrace': 'process-wide hook',
    'os.umask': 'process-wide umask',
}

TREE_ATTRS = {'children', 'parent', 'prefix', 'value', 'line', 'column', 'type', '_used_names', 'start_pos'}


def _mutable_value(v):
    if isinstance(v, (ast.Dict, ast.List, ast.Set, ast.ListComp, ast.SetComp, ast.DictComp)):
        return True
    if isinstance(v, ast.Call) and isinstance(v.func, ast.Name) and v.func.id in ('dict', 'list', 'set', 'defaultdict',
                                                                                 'OrderedDict', 'deque', 'bytearray'):
        return True
    if isinstance(v, ast.BinOp) and isinstance(v.op, ast.BitOr):
        return _mutable_value(v.left) or _mutable_value(v.right)
    return False


class Effects:
    def __init__(self, ctx):
        self.ctx = ctx
        self.prog = ctx.prog
        self.cg = ctx.cg
        self.shared_classes = []
        for rel, name in SHARED_CLASSES:
            c = self.prog.cls(rel, name)
            for s in self.prog.subclasses(c):
                if s not in self.shared_classes:
                    self.shared_classes.append(s)
        # classes that are instantiated only while a memoised value is built (token collection, grammar tables): every
        # instance ends up in the shared memo, so the class is shared like the listed ones
        self.build_only_classes = []
        try:
            memo_roots = [self.prog.funcs[k] for k in ALLOWED_SHARED_WRITES if k in self.prog.funcs]
            build = self.cg.reachable(memo_roots)
            # what runs at parse time other than through a memo function (whose work is building the shared value)
            elsewhere, _ = parse_time_functions(ctx, with_loading=False, blocked={f.key for f in memo_roots})
            build_only = {k for k in build if k not in elsewhere}
            ctor_sites = {}
            for f in self.prog.funcs.values():
                for site in self.cg.sites[f.key]:
                    r = self.cg.callee_object(f, site.node.func)
                    if isinstance(r, Cls):
                        ctor_sites.setdefault(r, set()).add(f.key)
            for c, sites in sorted(ctor_sites.items(), key=lambda kv: kv[0].qual):
                if sites and sites <= build_only and c not in self.shared_classes \
                        and not any(isinstance(b, str) and b in ('Exception', 'BaseException') for b in c.mro):
                    self.shared_classes.append(c)
                    self.build_only_classes.append(c)
        except AnalysisError:
            pass
        # module-level mutable bindings
        self.shared_globals = {}
        for rel, mod in self.prog.mods.items():
            for name, vals in mod.globals.items():
                if any(v is not None and _mutable_value(v) for v in vals):
                    self.shared_globals[(rel, name)] = vals
        # class-level mutable attributes (any class)
        self.shared_class_attrs = {}
        for c in self.prog.classes.values():
            for name, v in c.attrs.items():
                if _mutable_value(v):
                    self.shared_class_attrs.setdefault(name, []).append(c)
        # class attributes created by a metaclass (new_cls.X = <mutable> in __new__ / __init__ of a type subclass)
        self.meta_attrs = set()
        for c in self.prog.classes.values():
            if 'type' in [b for b in c.mro if isinstance(b, str)]:
                for m in c.methods.values():
                    if m.name in ('__new__', '__init__'):
                        for n in walk_own(m.node):
                            if isinstance(n, ast.Assign) and _mutable_value(n.value):
                                for t in n.targets:
                                    if isinstance(t, ast.Attribute):
                                        self.meta_attrs.add(t.attr)
        for a in self.meta_attrs:
            self.shared_class_attrs.setdefault(a, [])
        # attributes owned by shared classes vs by others
        owned_shared, owned_other = set(), set()
        for c in self.prog.classes.values():
            tgt = owned_shared if c in self.shared_classes else owned_other
            for m in c.methods.values():
                sn = self.cg.self_name(m)
                for n in walk_own(m.node):
                    if isinstance(n, (ast.Assign, ast.AnnAssign, ast.AugAssign)):
                        tg = n.targets if isinstance(n, ast.Assign) else [n.target]
                        for t in tg:
                            if isinstance(t, ast.Attribute) and isinstance(t.value, ast.Name) and t.value.id == sn:
                                tgt.add(t.attr)
            if c in self.shared_classes:
                for st in c.node.body:      # NamedTuple-style field annotations
                    if isinstance(st, ast.AnnAssign) and isinstance(st.target, ast.Name):
                        owned_shared.add(st.target.id)
        self.owned_shared = owned_shared
        self.exclusive = owned_shared - owned_other
        # mutable parameter defaults
        self.mutable_defaults = []
        for f in self.prog.funcs.values():
            a = f.node.args
            pos = [x.arg for x in a.posonlyargs + a.args]
            for p, d in list(zip(reversed(pos), reversed(a.defaults))) + \
                    [(k.arg, d) for k, d in zip(a.kwonlyargs, a.kw_defaults) if d is not None]:
                if _mutable_value(d):
                    self.mutable_defaults.append((f, p))

    # ------------------------------------------------------------------
    def _aliases(self, f):
        al = {}
        for n in walk_own(f.node):
            if isinstance(n, ast.Assign):
                for t in n.targets:
                    if isinstance(t, ast.Name):
                        al.setdefault(t.id, []).append(n.value)
                    elif isinstance(t, (ast.Tuple, ast.List)):
                        for e in t.elts:
                            if isinstance(e, ast.Name):
                                al.setdefault(e.id, []).append(n.value)
            elif isinstance(n, (ast.For, ast.AsyncFor)):
                it = n.iter
                # for x in C / C.values() / C.items() / C[k] ... : x denotes an element of C
                while isinstance(it, ast.Call) and isinstance(it.func, ast.Attribute) and it.func.attr in ('values', 'items', 'keys', 'get', 'copy'):
                    it = it.func.value
                if isinstance(it, ast.Call) and isinstance(it.func, ast.Name) and it.func.id in ('list', 'tuple', 'iter', 'reversed', 'enumerate', 'sorted') and it.args:
                    it = it.args[0]
                for x in ast.walk(n.target):
                    if isinstance(x, ast.Name):
                        al.setdefault(x.id, []).append(it)
        return al

    def _reaching_aliases(self, f, name_node, aliases):
        """The alias table with the entry of ``name_node`` cut down to the assignments that reach this use."""
        from ..model import reaching_values
        vals = reaching_values(f.node, name_node)
        if not vals:
            return aliases
        out = dict(aliases)
        out[name_node.id] = vals
        return out

    def _class_object(self, f, e):
        """Is ``e`` an expression denoting a class object (type(self), self.__class__, cls of a classmethod)?"""
        if isinstance(e, ast.Call) and isinstance(e.func, ast.Name) and e.func.id == 'type' and len(e.args) == 1:
            return True
        if isinstance(e, ast.Attribute) and e.attr == '__class__':
            return True
        if isinstance(e, ast.Name):
            g = f
            while g is not None:
                if g.cls is not None and 'classmethod' in g.decorators() and g.params() and g.params()[0] == e.id:
                    return True
                g = g.outer
            r = self.prog.resolve_global(f.mod, e.id) if not self.cg._is_local(f, e.id) else None
            if isinstance(r, Cls):
                return True
        return False

    def _shared_base(self, f, e, aliases, depth=0):
        """Why the object denoted by ``e`` is shared, or None."""
        if depth > 3:
            return None
        if isinstance(e, ast.Name):
            if not self.cg._is_local(f, e.id):
                key = (f.mod.rel, e.id)
                if key in self.shared_globals:
                    return 'module global %s' % e.id
                r = f.mod.imports.get(e.id)
                if r and r[0] == 'obj':
                    m = self.prog.by_name.get(r[1])
                    if m is not None and (m.rel, r[2]) in self.shared_globals:
                        return 'module global %s.%s' % (r[1], r[2])
                return None
            # mutable default parameter
            for g, p in self.mutable_defaults:
                if g is f and p == e.id:
                    return 'mutable default of parameter %s' % p
            for v in aliases.get(e.id, []):
                why = self._shared_base(f, v, aliases, depth + 1)
                if why:
                    return why
            return None
        if isinstance(e, ast.Attribute) and self._class_object(f, e.value):
            if e.attr in self.shared_class_attrs or e.attr in self.meta_attrs:
                return 'class-level container %s' % e.attr
            return 'attribute %s of a class object' % e.attr
        if isinstance(e, ast.Attribute):
            ts = self.cg.type_of(f, e.value)
            if ts:
                if any(t in self.shared_classes for t in ts):
                    return 'attribute %s of shared class %s' % (e.attr, sorted(t.name for t in ts if t in self.shared_classes)[0])
                # class-level mutable attribute not shadowed per instance
                for t in ts:
                    for c in t.mro:
                        if isinstance(c, Cls) and e.attr in c.attrs and _mutable_value(c.attrs[e.attr]):
                            if not self._instance_assigned(t, e.attr):
                                return 'class-level mutable attribute %s.%s' % (c.name, e.attr)
                return self._shared_base(f, e.value, aliases, depth + 1) if isinstance(e.value, ast.Attribute) else None
            if e.attr in self.exclusive:
                return 'attribute %s, which only shared (grammar / table / config) classes own' % e.attr
            if e.attr in self.shared_class_attrs and e.attr in ('rule_value_classes', 'rule_type_classes', 'node_map', 'leaf_map', '_leaf_map'):
                return 'class-level registry %s' % e.attr
            return self._shared_base(f, e.value, aliases, depth + 1)
        if isinstance(e, ast.Subscript):
            return self._shared_base(f, e.value, aliases, depth + 1)
        if isinstance(e, ast.Call) and isinstance(e.func, ast.Attribute) and e.func.attr in ('get', 'setdefault', '__getitem__'):
            return self._shared_base(f, e.func.value, aliases, depth + 1)
        if isinstance(e, ast.Call):
            ts = self.cg.type_of(f, e)
            if any(t in self.shared_classes for t in ts):
                return 'value obtained from shared %s' % sorted(t.name for t in ts if t in self.shared_classes)[0]
        return None

    def _instance_assigned(self, cls, attr):
        init = cls.lookup('__init__')
        for c in cls.mro:
            if isinstance(c, Cls):
                for m in c.methods.values():
                    sn = self.cg.self_name(m)
                    for n in walk_own(m.node):
                        if isinstance(n, ast.Assign):
                            for t in n.targets:
                                if isinstance(t, ast.Attribute) and t.attr == attr and isinstance(t.value, ast.Name) and t.value.id == sn:
                                    if m.name == '__init__':
                                        return True
        return False

    def shared_writes(self, f):
        """[(ast node, why)] writes to shared objects performed directly by function f."""
        out = []
        aliases = self._aliases(f)
        own_cls = self.cg.owner_class(f)
        sn = self.cg.self_name(f)
        for n in walk_own(f.node):
            targets = []
            if isinstance(n, ast.Assign):
                targets = n.targets
            elif isinstance(n, (ast.AugAssign, ast.AnnAssign)):
                targets = [n.target]
            elif isinstance(n, ast.Delete):
                targets = n.targets
            for t in targets:
                for sub in ([t] if not isinstance(t, (ast.Tuple, ast.List)) else t.elts):
                    if isinstance(sub, ast.Subscript):
                        why = self._shared_base(f, sub.value, aliases)
                        if why:
                            out.append((n, why))
                    elif isinstance(sub, ast.Attribute):
                        # constructor initialising its own instance is not a shared write
                        if isinstance(sub.value, ast.Name) and sub.value.id == sn and f.name == '__init__':
                            continue
                        ts = self.cg.type_of(f, sub.value)
                        if self._class_object(f, sub.value) and not (f.name in ('__new__', '__init__') and own_cls is not None
                                                                      and 'type' in [b for b in own_cls.mro if isinstance(b, str)]):
                            out.append((n, 'attribute %s of a class object' % sub.attr))
                        elif ts:
                            if any(x in self.shared_classes for x in ts):
                                out.append((n, 'attribute %s of shared class %s' % (sub.attr, sorted(x.name for x in ts)[0])))
                        elif sub.attr in self.exclusive:
                            out.append((n, 'attribute %s, which only shared classes own' % sub.attr))
                        elif isinstance(sub.value, ast.Name) and self.cg._is_local(f, sub.value.id):
                            why = self._shared_base(f, sub.value, aliases)
                            if why:
                                out.append((n, 'attribute %s of an object taken from shared state (%s)' % (sub.attr, why)))
                    elif isinstance(sub, ast.Name) and isinstance(n, ast.AugAssign) and self.cg._is_local(f, sub.id) \
                            and not (isinstance(n.value, ast.Constant) and isinstance(n.value.value, (int, float, str, bytes))) \
                            and self._shared_base(f, sub, self._reaching_aliases(f, sub, aliases)):
                        # x = SHARED; x += more : for a list / set / dict `+=`, `|=` ... change the shared object in place
                        out.append((n, 'in-place %s on a local that denotes shared state (%s)' % (
                            type(n.op).__name__, self._shared_base(f, sub, self._reaching_aliases(f, sub, aliases)))))
                    elif isinstance(sub, ast.Name) and isinstance(n, (ast.Assign, ast.AugAssign)):
                        # rebinding a module global
                        for g in walk_own(f.node):
                            if isinstance(g, ast.Global) and sub.id in g.names:
                                out.append((n, 'rebinds module global %s' % sub.id))
            if isinstance(n, ast.Call) and isinstance(n.func, ast.Attribute) and n.func.attr in MUTATORS:
                why = self._shared_base(f, n.func.value, aliases)
                if why:
                    out.append((n, why))
        return out


# ---------------------------------------------------------------------------
def parse_time_functions(ctx, include_normalizers=True, with_loading=True, only=None, blocked=()):
    """Functions reachable from the non-caching parse / tokenize / issue-listing entry points.
    Calls of Grammar.parse that are only reachable under a true `cache` / `diff_cache` test are dropped."""
    prog, cg = ctx.prog, ctx.cg
    gp0 = prog.func('parso/grammar.py', 'Grammar.parse')
    # the steps Grammar.parse was split into are read in place (inlined view): which calls sit behind `if cache` /
    # `if diff_cache` is a question about the whole pipeline, not about the function that happens to hold the call
    gp = ctx.view(gp0)
    inlined = set(getattr(gp, 'inlined', ()) or ())
    cfg = ctx.cfg(gp)
    cache_test = lambda e: norm(e) in ('cache', 'diff_cache')
    roots = []
    edges = dict(cg.edges)
    keep = set()
    for n in cfg.nodes:
        for c in calls_in(n, lambda c: True):
            if only_via(cfg, n, cache_test, 'T'):
                continue
            try:
                targets, _how = cg.resolve_call(gp, c)
            except Exception:
                targets = []
            keep |= {t.key for t in targets if isinstance(t, Func)}
            for t in targets:
                if isinstance(t, Cls):
                    init = t.lookup('__init__')
                    if init is not None:
                        keep.add(init.key)
    if not inlined:
        # nothing was inlined: the plain call sites of the function are authoritative (constructor expansion etc.)
        cfg0 = ctx.cfg(gp0)
        dropped = set()
        for n in cfg0.nodes:
            for c in calls_in(n, lambda c: True):
                if only_via(cfg0, n, cache_test, 'T'):
                    dropped.add(id(c))
        keep = set()
        for site in cg.sites[gp0.key]:
            if id(site.node) not in dropped:
                keep |= {t.key for t in site.targets}
    else:
        # the helpers themselves are reached only through the view
        keep -= {k for k in keep if k[0] == gp0.key[0] and k[1].split('.')[-1] in inlined}
    edges[gp0.key] = keep
    gp = gp0
    names = [('parso/grammar.py', 'Grammar.parse'), ('parso/grammar.py', 'PythonGrammar._tokenize_lines'),
             ('parso/grammar.py', 'PythonGrammar._tokenize'), ('parso/python/tokenize.py', 'tokenize'),
             ('parso/python/tokenize.py', 'tokenize_lines')]
    if with_loading:
        names += [('parso/grammar.py', 'load_grammar'), ('parso/__init__.py', 'parse')]
    if include_normalizers:
        names += [('parso/grammar.py', 'Grammar.iter_errors'), ('parso/grammar.py', 'Grammar._get_normalizer_issues'),
                  ('parso/grammar.py', 'Grammar.refactor'), ('parso/grammar.py', 'Grammar._normalize')]
    if only is not None:
        names = list(only)
    todo = [prog.func(*k).key for k in names]
    seen = set()
    prev = {}
    while todo:
        k = todo.pop()
        if k in seen:
            continue
        seen.add(k)
        if k in blocked:
            continue                    # reached, but what it calls is not followed
        for s in sorted(edges.get(k, ())):
            if s not in seen:
                prev.setdefault(s, k)
                todo.append(s)
    return seen, prev


def call_path(prev, key):
    out = [key]
    while key in prev:
        key = prev[key]
        out.append(key)
    return ['%s:%s' % k for k in reversed(out)]


ALLOWED_SHARED_WRITES = {
    ('parso/python/tokenize.py', '_get_token_collection'):
        'write-once memo: the stored value is a pure function of the key (version)',
    ('parso/grammar.py', 'load_grammar'):
        'write-once memo through setdefault: concurrent loaders agree on one grammar object',
}


def eff_1(ctx, rep, only=None, minimum=60):
    rep.rule('EFF-1', 'from the non-caching parse / tokenize / issue-listing entry points the only reachable writes to '
                      'shared objects (module globals, class-level containers, grammar / table / config instances, mutable '
                      'defaults) are the reasoned write-once memos')
    eff = Effects(ctx)
    reach, prev = parse_time_functions(ctx, only=only)
    rep.stat('shared_classes', sorted(c.name for c in eff.shared_classes))
    rep.stat('classes_instantiated_only_while_building_a_memo', sorted(c.name for c in eff.build_only_classes))
    rep.stat('shared_module_globals', sorted('%s:%s' % k for k in eff.shared_globals))
    rep.stat('exclusive_shared_attributes', sorted(eff.exclusive))
    rep.stat('parse_time_functions', len(reach))
    rep.stat('call_resolution', dict(ctx.cg.stats))
    build = ctx.cg.reachable([ctx.prog.func('parso/pgen2/generator.py', 'generate_grammar')])
    # functions that run only while a grammar is generated (not reachable from the parse-time roots without load_grammar)
    no_load, _ = parse_time_functions(ctx, with_loading=False)
    build_only = {k for k in build if k not in no_load} | {k for k in reach if k not in no_load and k[1].endswith('.__init__')
                                                          and k[0] in ('parso/grammar.py', 'parso/pgen2/generator.py', 'parso/pgen2/grammar_parser.py')}
    rep.stat('build_phase_functions', len(build_only))
    # private helpers a memo function was split into: their writes are judged as part of it (MEMO-1 reads the same view)
    memo_parts = {}
    for mkey in ALLOWED_SHARED_WRITES:
        mf = ctx.prog.funcs.get(mkey)
        if mf is None:
            continue
        for hname in getattr(ctx.view(mf), 'inlined', ()):
            h = mf.mod.funcs.get(hname)
            if h is not None and all(c == mkey or c in memo_parts for c, tgts in ctx.cg.edges.items() if h.key in tgts):
                memo_parts[h.key] = mkey
    # the container a memo function stores into: only writes to it are part of the memo (a helper of the memo function
    # that changes *another* module-level object is a shared write like any other - seed rt13-C18)
    import re as _re
    memo_globals = {}
    for mkey in ALLOWED_SHARED_WRITES:
        mf = ctx.prog.funcs.get(mkey)
        if mf is not None:
            memo_globals[mkey] = {m.group(1) for _n, why in eff.shared_writes(mf) for m in [_re.search(r'module global ([\w.]+)', why)] if m}
            # ... and the module-level containers the memo function looks a key up in (its store may sit in a helper)
            view = ctx.view(mf)
            for x in ast.walk(view.node):
                cand = None
                if isinstance(x, ast.Subscript):
                    cand = x.value
                elif isinstance(x, ast.Compare) and len(x.ops) == 1 and isinstance(x.ops[0], (ast.In, ast.NotIn)):
                    cand = x.comparators[0]
                elif isinstance(x, ast.Call) and isinstance(x.func, ast.Attribute) and x.func.attr in ('get', 'setdefault'):
                    cand = x.func.value
                if isinstance(cand, ast.Name) and (mf.mod.rel, cand.id) in eff.shared_globals:
                    memo_globals[mkey].add(cand.id)
    for key in sorted(reach):
        f = ctx.prog.funcs[key]
        writes = eff.shared_writes(f)
        if key in build_only:
            # table-building phase (first use of a grammar): the objects written are the ones under construction;
            # only writes to module-level state count here
            writes = [(n, why) for n, why in writes if why.startswith(('module global', 'rebinds module global', 'class-level'))
                      or (why.startswith('in-place') and ('module global' in why or 'class-level' in why))]
        if not writes:
            rep.ob('EFF-1', key[0], key[1], 'def %s' % f.name, True)
            continue
        for n, why in writes:
            if key in ALLOWED_SHARED_WRITES:
                rep.ob('EFF-1', key[0], key[1], norm(n), True, reason=ALLOWED_SHARED_WRITES[key])
            elif key in memo_parts and any(('module global %s' % g) in why for g in memo_globals.get(memo_parts[key], ())):
                rep.ob('EFF-1', key[0], key[1], norm(n), True,
                       reason='helper called only by %s: %s' % (memo_parts[key][1], ALLOWED_SHARED_WRITES[memo_parts[key]]))
            else:
                rep.ob('EFF-1', key[0], key[1], norm(n), False,
                       'write to shared state (%s) reachable at parse time via %s' % (why, ' -> '.join(call_path(prev, key)[-4:])))
    # mutable defaults are never mutated anywhere
    for f, p in eff.mutable_defaults:
        if only is not None and f.key not in reach:
            continue            # a property's own entry points: the default object of a function they never reach is not its concern
        aliases = eff._aliases(f)
        bad = [n for n, why in eff.shared_writes(f) if 'mutable default' in why]
        # the default object may also be stored on self and mutated elsewhere: attribute name = parameter name
        stored = [t.attr for n in walk_own(f.node) if isinstance(n, ast.Assign) and norm(n.value) == p
                  for t in n.targets if isinstance(t, ast.Attribute)]
        for attr in stored:
            for g in ctx.prog.funcs.values():
                for n in walk_own(g.node):
                    if isinstance(n, ast.Call) and isinstance(n.func, ast.Attribute) and n.func.attr in MUTATORS \
                            and isinstance(n.func.value, ast.Attribute) and n.func.value.attr == attr:
                        bad.append(n)
                    if isinstance(n, (ast.Assign, ast.AugAssign)):
                        for t in (n.targets if isinstance(n, ast.Assign) else [n.target]):
                            if isinstance(t, ast.Subscript) and isinstance(t.value, ast.Attribute) and t.value.attr == attr:
                                bad.append(n)
        rep.ob('EFF-1', f.mod.rel, f.qual, 'mutable default %s' % p, not bad,
               'the shared default object of parameter %s is mutated: %s' % (p, norm(bad[0])) if bad else '')
    rep.minimum('EFF-1', minimum)
    return reach, prev


def eff_3(ctx, rep, reach=None, prev=None):
    rep.rule('EFF-3', 'no call with a process-global effect (warning filters, gc switch, recursion limit, cwd, locale, '
                      'RNG seed ...) is reachable from the non-caching parse / tokenize / issue-listing entry points')
    if reach is None:
        reach, prev = parse_time_functions(ctx)
    n = 0
    for key in sorted(reach):
        f = ctx.prog.funcs[key]
        for c in walk_own(f.node):
            if isinstance(c, ast.Call):
                name = norm(c.func)
                root = name.split('.')[0]
                imp = f.mod.imports.get(root)
                full = name
                if imp and imp[0] == 'mod':
                    full = imp[1] + name[len(root):]
                elif imp and imp[0] == 'obj':
                    full = imp[1] + '.' + imp[2] + name[len(root):]
                if full in GLOBAL_EFFECT_CALLS:
                    n += 1
                    okey = ctx.owner(key)            # a private helper of one function: keyed by that function
                    rep.ob('EFF-3', okey[0], okey[1], norm(c), False,
                           '%s: %s; reachable via %s' % (full, GLOBAL_EFFECT_CALLS[full], ' -> '.join(call_path(prev, key)[-4:])))
        rep.ob('EFF-3', key[0], key[1], 'def %s: no process-global effect call' % f.name, True)
    rep.minimum('EFF-3', 60)


def _set_typed(ctx, f, e, depth=0):
    if depth > 2:
        return False
    if isinstance(e, (ast.Set, ast.SetComp)):
        return True
    if isinstance(e, ast.Call) and isinstance(e.func, ast.Name) and e.func.id in ('set', 'frozenset'):
        return True
    def view(x):
        # dict views: set operators on them give sets
        return isinstance(x, ast.Call) and isinstance(x.func, ast.Attribute) and x.func.attr in ('keys', 'items') and not x.args
    if isinstance(e, ast.BinOp) and isinstance(e.op, (ast.BitOr, ast.BitAnd, ast.Sub, ast.BitXor)):
        return _set_typed(ctx, f, e.left, depth + 1) or _set_typed(ctx, f, e.right, depth + 1) or view(e.left) or view(e.right)
    if isinstance(e, ast.Call) and isinstance(e.func, ast.Attribute) \
            and e.func.attr in ('intersection', 'union', 'difference', 'symmetric_difference', 'copy') \
            and (_set_typed(ctx, f, e.func.value, depth + 1) or view(e.func.value)):
        return True
    if isinstance(e, ast.Name):
        if ctx.cg._is_local(f, e.id):
            vals = []
            for n in walk_own(f.node):
                if isinstance(n, ast.Assign) and any(isinstance(t, ast.Name) and t.id == e.id for t in n.targets):
                    vals.append(n.value)
            return any(_set_typed(ctx, f, v, depth + 1) for v in vals)
        vals = [v for v in f.mod.globals.get(e.id, []) if v is not None]
        return any(_set_typed(ctx, f, v, depth + 1) for v in vals)
    if isinstance(e, ast.Attribute) and e.attr in ('always_break_tokens', 'single_quoted', 'triple_quoted'):
        return True
    if isinstance(e, ast.Attribute) and depth == 0:
        # an instance attribute that only ever holds sets (every assignment to it in its module builds a set)
        vals = []
        for g in f.mod.funcs.values():
            for n in walk_own(g.node):
                if isinstance(n, ast.Assign):
                    for t in n.targets:
                        if isinstance(t, ast.Attribute) and t.attr == e.attr:
                            vals.append((g, n.value))
        if vals and all(_set_typed(ctx, g, v, depth + 1) for g, v in vals):
            return True
    return False


EFF4_ALLOWED = {
    ('parso/python/tokenize.py', '_create_token_collection'):
        'alternation order of string prefixes: every alternative is followed by a quote character, so any order matches the same span',
    ('parso/python/tokenize.py', '_all_string_prefixes'):
        'builds a set; order irrelevant',
}


def eff_4(ctx, rep, roots):
    rep.rule('EFF-4', 'no iteration over a set value (hash order) on the analysed paths')
    reach = ctx.cg.reachable(roots)
    for key in sorted(reach):
        f = ctx.prog.funcs[key]
        bad = []
        for n in walk_own(f.node):
            its = []
            if isinstance(n, (ast.For, ast.AsyncFor)):
                its.append(n.iter)
            elif isinstance(n, (ast.ListComp, ast.GeneratorExp, ast.DictComp)):
                its += [g.iter for g in n.generators]
            elif isinstance(n, ast.Call) and isinstance(n.func, ast.Name) and n.func.id in ('list', 'tuple', 'sorted', 'next', 'iter') and n.args:
                if n.func.id != 'sorted':
                    its.append(n.args[0])
            elif isinstance(n, ast.Starred):
                its.append(n.value)
            for it in its:
                if _set_typed(ctx, f, it):
                    bad.append(it)
        if bad and key in EFF4_ALLOWED:
            rep.ob('EFF-4', key[0], key[1], 'iteration over %s' % norm(bad[0]), True, reason=EFF4_ALLOWED[key])
        else:
            rep.ob('EFF-4', key[0], key[1], 'def %s' % f.name if not bad else 'iteration over %s' % norm(bad[0]), not bad,
                   'result may depend on set iteration order (string hashing is randomised per process)')


def eff_2(ctx, rep, roots, label):
    rep.rule('EFF-2', 'no store to a tree attribute (children, parent, prefix, value, line, column, type, _used_names) '
                      'and no mutator call on a children list is reachable from the normalizer walk')
    from .par import tree_hierarchy
    root_cls, classes = tree_hierarchy(ctx)
    reach = ctx.cg.reachable(roots)
    for key in sorted(reach):
        f = ctx.prog.funcs[key]
        bad = []
        sn = ctx.cg.self_name(f)
        own = ctx.cg.owner_class(f)
        for n in walk_own(f.node):
            tg = []
            if isinstance(n, ast.Assign):
                tg = n.targets
            elif isinstance(n, (ast.AugAssign, ast.AnnAssign)):
                tg = [n.target]
            elif isinstance(n, ast.Delete):
                tg = n.targets
            for t in tg:
                for sub in ([t] if not isinstance(t, (ast.Tuple, ast.List)) else t.elts):
                    base = sub
                    if isinstance(sub, ast.Subscript):
                        base = sub.value
                        if isinstance(base, ast.Attribute) and base.attr == 'children':
                            bad.append(n)
                        continue
                    if isinstance(base, ast.Attribute) and base.attr in TREE_ATTRS:
                        ts = ctx.cg.type_of(f, base.value)
                        if ts:
                            if any(root_cls in c.mro for c in ts):
                                bad.append(n)
                        else:
                            bad.append(n)
            if isinstance(n, ast.Call) and isinstance(n.func, ast.Attribute) and n.func.attr in MUTATORS \
                    and isinstance(n.func.value, ast.Attribute) and n.func.value.attr == 'children':
                bad.append(n)
        rep.ob('EFF-2', key[0], key[1], 'def %s [%s]' % (f.name, label) if not bad else norm(bad[0]), not bad,
               'the tree is modified while issues are listed')
    rep.stat('eff2_functions_%s' % label, len(reach))


def eff_5(ctx, rep):
    rep.rule('EFF-5', 'the parser object used by Grammar.parse is created in the same activation and never stored; '
                      'normalizers and rule instances are created per call')
    prog = ctx.prog
    gp = ctx.view(prog.func('parso/grammar.py', 'Grammar.parse'))      # helpers it was split into are read in place
    parse_calls = [c for c in walk_own(gp.node) if isinstance(c, ast.Call) and is_method_call(c, 'parse')]
    for c in parse_calls:
        recv = c.func.value
        ok = False
        why = 'receiver of .parse() is not a local created by a call in this activation'
        if isinstance(recv, ast.Name):
            assigns = [n for n in walk_own(gp.node) if isinstance(n, ast.Assign)
                       and any(isinstance(t, ast.Name) and t.id == recv.id for t in n.targets)]
            ok = len(assigns) == 1 and isinstance(assigns[0].value, ast.Call)
            stored = [n for n in walk_own(gp.node) if isinstance(n, ast.Assign) and norm(n.value) == recv.id
                      and any(isinstance(t, (ast.Attribute, ast.Subscript)) for t in n.targets)]
            if stored:
                ok, why = False, 'the parser object is stored: %s' % norm(stored[0])
        elif isinstance(recv, ast.Call):
            ok = True
        rep.ob('EFF-5', gp.mod.rel, gp.qual, norm(c), ok, why)
    rep.minimum('EFF-5', 1)
    # tokens are produced per call
    tk = [n for n in walk_own(gp.node) if isinstance(n, ast.Assign) and isinstance(n.value, ast.Call)
          and norm(n.value.func) == 'self._tokenizer']
    rep.ob('EFF-5', gp.mod.rel, gp.qual, 'tokens = self._tokenizer(lines)', len(tk) == 1, 'token stream is not created per call')
    cn = prog.func('parso/normalizer.py', 'NormalizerConfig.create_normalizer')
    rets = [n for n in walk_own(cn.node) if isinstance(n, ast.Return)]
    ok = len(rets) == 1 and isinstance(rets[0].value, ast.Call) and norm(rets[0].value.func) == 'self.normalizer_class'
    rep.ob('EFF-5', cn.mod.rel, cn.qual, 'return self.normalizer_class(grammar, self)', ok, 'normalizer instances are reused')
    init = prog.func('parso/normalizer.py', 'Normalizer.__init__')
    ok = all(any(isinstance(n, ast.Assign) and norm(n.targets[0]) == 'self.%s' % a for n in walk_own(init.node))
             for a in ('_rule_type_instances', '_rule_value_instances', 'issues'))
    rep.ob('EFF-5', init.mod.rel, init.qual, 'per-instance rule instances and issue list', ok,
           'rule instances / issue list live on the class and are shared between calls')
    ir = prog.func('parso/normalizer.py', 'Normalizer._instantiate_rules')
    rets = [n for n in walk_own(ir.node) if isinstance(n, ast.Return)]
    ok = bool(rets)
    for r in rets:
        if not isinstance(r.value, ast.Name):
            ok = False
            continue
        vals = [n.value for n in walk_own(ir.node) if isinstance(n, ast.Assign)
                and any(isinstance(t, ast.Name) and t.id == r.value.id for t in n.targets)]
        if not vals or not all(isinstance(v, ast.Dict) and not v.keys for v in vals):
            ok = False
    created = [n for n in walk_own(ir.node) if isinstance(n, ast.Call) and isinstance(n.func, ast.Name)
               and [norm(a) for a in n.args] == [ir.params()[0]]]
    rep.ob('EFF-5', ir.mod.rel, ir.qual, 'returns a dict created in this call, filled with rule_cls(self) instances', ok and bool(created),
           'the rule table (or the rule instances in it) outlives one normalizer: rules report to whichever normalizer was created last')
    for q in ('ErrorFinder.__init__', 'ErrorFinder.initialize'):
        m = prog.func('parso/python/errors.py', q)
        sn = m.params()[0]
        cls_writes = [n for n in walk_own(m.node) if isinstance(n, ast.Assign) and any(
            isinstance(t, ast.Attribute) and not (isinstance(t.value, ast.Name) and t.value.id == sn) for t in n.targets)]
        rep.ob('EFF-5', m.mod.rel, m.qual, 'state initialised on the instance', not cls_writes,
               'per-walk state stored outside the normalizer instance: %s' % (norm(cls_writes[0]) if cls_writes else ''))


# ---------------------------------------------------------------------------
# MEMO-1: the key of a write-once memo determines the stored value
# ---------------------------------------------------------------------------
class _Deps:
    """Which parameters of f an expression depends on (flow-insensitive over the locals of f), in a *world* that
    fixes some parameters to 'given' (truthy) or 'absent' (falsy): `p or default` is p when given, default otherwise."""

    def __init__(self, f, world):
        self.f, self.world = f, world
        self.params = set(f.all_params())
        self.defs = {}
        for n in walk_own(f.node):
            if isinstance(n, ast.Assign):
                for t in n.targets:
                    self._bind(t, n.value)
            elif isinstance(n, ast.AnnAssign) and n.value is not None:
                self._bind(n.target, n.value)
            elif isinstance(n, ast.AugAssign):
                self._bind(n.target, n.value)
            elif isinstance(n, (ast.For, ast.AsyncFor)):
                self._bind(n.target, n.iter)
            elif isinstance(n, (ast.With, ast.AsyncWith)):
                for it in n.items:
                    if it.optional_vars is not None:
                        self._bind(it.optional_vars, it.context_expr)
            elif isinstance(n, ast.NamedExpr):
                self._bind(n.target, n.value)
        self._memo = {}

    def _bind(self, target, value):
        for x in ast.walk(target):
            if isinstance(x, ast.Name) and isinstance(x.ctx, ast.Store):
                self.defs.setdefault(x.id, []).append(value)

    def of_name(self, name, stack=()):
        if name in stack:
            return set()
        if name in self._memo:
            return self._memo[name]
        out = set()
        if name in self.params and self.world.get(name) != 'absent':
            out.add(name)
        for v in self.defs.get(name, []):
            out |= self.of(v, stack + (name,))
        if not stack:
            self._memo[name] = out
        return out

    def of(self, e, stack=()):
        if isinstance(e, ast.BoolOp) and isinstance(e.op, ast.Or) and isinstance(e.values[0], ast.Name) \
                and e.values[0].id in self.world:
            if self.world[e.values[0].id] == 'given':
                return self.of(e.values[0], stack)
            rest = e.values[1:]
            out = set()
            for v in rest:
                out |= self.of(v, stack)
            return out
        if isinstance(e, ast.Name):
            return self.of_name(e.id, stack)
        out = set()
        for c in ast.iter_child_nodes(e):
            if isinstance(c, (ast.expr, ast.comprehension, ast.keyword, ast.FormattedValue)):
                out |= self.of(c, stack)
        return out


def memo_1(ctx, rep):
    rep.rule('MEMO-1', 'for every write-once memo in a module-level dict (M.setdefault(K, V) / M[K] = V with V computed in '
                       'the function) the key depends on every parameter the stored value depends on - case by case for '
                       'parameters used as `p or default` - so that an entry can never be served for other arguments')
    eff = Effects(ctx)
    n_sites = 0
    for key in sorted(ALLOWED_SHARED_WRITES):
        f = ctx.prog.funcs.get(key)
        if f is None:
            raise AnalysisError('anchor vanished: memo function %s:%s' % key)
        if not any(why.startswith('module global') for _, why in eff.shared_writes(f)):
            f = ctx.view(f)         # the store was moved into a private helper: read it in place
        stores = []
        for n, why in eff.shared_writes(f):
            if not why.startswith('module global'):
                continue
            if isinstance(n, ast.Call) and n.func.attr == 'setdefault' and len(n.args) == 2:
                stores.append((n, n.args[0], n.args[1]))
            elif isinstance(n, ast.Assign) and any(isinstance(t, ast.Subscript) for t in n.targets) \
                    and all(isinstance(t, (ast.Subscript, ast.Name)) for t in n.targets):
                # M[K] = V, possibly chained with a plain local:  M[K] = result = V
                for t in n.targets:
                    if isinstance(t, ast.Subscript):
                        stores.append((n, t.slice, n.value))
            else:
                rep.ob('MEMO-1', key[0], key[1], norm(n), False, 'write to a shared dict that is not a keyed store')
        optional = sorted({n.values[0].id for n in walk_own(f.node)
                           if isinstance(n, ast.BoolOp) and isinstance(n.op, ast.Or) and isinstance(n.values[0], ast.Name)
                           and n.values[0].id in f.all_params()})
        worlds = [{}]
        for p in optional:
            worlds = [dict(w, **{p: s}) for w in worlds for s in ('given', 'absent')]
        for n, k, v in stores:
            n_sites += 1
            if isinstance(v, ast.Name) and v.id in f.all_params() and not _Deps(f, {}).defs.get(v.id):
                rep.skip('MEMO-1', key[0], key[1], norm(n), 'the value is handed in by the caller (a put, not a memo)')
                continue
            bad = None
            for w in worlds:
                d = _Deps(f, w)
                dk, dv = d.of(k), d.of(v)
                if not dv <= dk:
                    bad = (w, sorted(dv - dk), sorted(dk))
                    break
            case = ''
            if bad and bad[0]:
                case = ' when ' + ', '.join('%s is %s' % (p, s) for p, s in sorted(bad[0].items()))
            rep.ob('MEMO-1', key[0], key[1], 'memo store %s' % norm(n), bad is None,
                   'the stored value depends on %s, the key only on %s%s: a later call with another value of %s is served '
                   'the entry computed for the first one' % (bad[1], bad[2], case, bad[1]) if bad else '',
                   reason='key covers every parameter the value depends on (%d case(s))' % len(worlds))
    rep.minimum('MEMO-1', 2, 'the token-collection memo and the grammar memo')


# ---------------------------------------------------------------------------
# EFF-6: no memo hands the same mutable object to several callers
# ---------------------------------------------------------------------------
MEMO_WRAPPERS = {'lru_cache', 'functools.lru_cache', 'cache', 'functools.cache', 'cached_property', 'functools.cached_property'}
LIST_RETURNING = {'split', 'rsplit', 'splitlines', 'findall', 'readlines', 'copy', 'sorted', 'list', 'dict', 'set',
                  'bytearray', 'partition_list'}


def _mutable_result(ctx, mod, callee):
    """reason when calling ``callee`` (an expression or a function node) yields a fresh mutable container"""
    if isinstance(callee, (ast.FunctionDef, ast.AsyncFunctionDef)):
        for n in walk_own(callee):
            if isinstance(n, ast.Return) and n.value is not None:
                v = n.value
                if isinstance(v, (ast.List, ast.ListComp, ast.Dict, ast.DictComp, ast.Set, ast.SetComp)):
                    return 'returns a %s' % type(v).__name__.lower()
                if isinstance(v, ast.Call):
                    name = norm(v.func).split('.')[-1]
                    if name in LIST_RETURNING:
                        return 'returns the result of %s(...)' % norm(v.func)
                if isinstance(v, ast.Name):
                    for a in walk_own(callee):
                        if isinstance(a, ast.Assign) and any(isinstance(t, ast.Name) and t.id == v.id for t in a.targets) \
                                and isinstance(a.value, (ast.List, ast.ListComp, ast.Dict, ast.DictComp, ast.Set, ast.SetComp)):
                            return 'returns the %s built in %s' % (type(a.value).__name__.lower(), v.id)
            if isinstance(n, (ast.Yield, ast.YieldFrom)):
                return 'is a generator (the cached generator object is exhausted by its first consumer)'
        return None
    if isinstance(callee, ast.Attribute) and callee.attr in LIST_RETURNING:
        return 'is %s, which returns a new list' % norm(callee)
    if isinstance(callee, ast.Name):
        if callee.id in LIST_RETURNING:
            return 'is %s' % callee.id
        for v in mod.globals.get(callee.id, []) or []:
            if isinstance(v, (ast.FunctionDef, ast.AsyncFunctionDef)):
                return _mutable_result(ctx, mod, v)
        fn = mod.funcs.get(callee.id)
        if fn is not None:
            return _mutable_result(ctx, mod, fn.node)
    return None


def eff_6(ctx, rep):
    rep.rule('EFF-6', 'no memoising wrapper (functools.lru_cache / cache / cached_property) is put around a callable whose '
                      'result is a mutable container or a generator: every caller would receive the same object, and a '
                      'caller that edits its result changes what the next caller gets')
    n = 0
    for rel in sorted(ctx.prog.mods):
        mod = ctx.prog.mods[rel]
        def memo_name(e):
            if isinstance(e, ast.Call):
                return memo_name(e.func)
            s = norm(e)
            if s in MEMO_WRAPPERS:
                return s
            imp = mod.imports.get(s.split('.')[0])
            if imp and imp[0] == 'obj' and imp[1] == 'functools' and imp[2] in ('lru_cache', 'cache', 'cached_property'):
                return 'functools.' + imp[2]
            return None
        for node in ast.walk(mod.tree):
            if isinstance(node, (ast.FunctionDef, ast.AsyncFunctionDef)):
                for d in node.decorator_list:
                    w = memo_name(d)
                    if w:
                        n += 1
                        why = _mutable_result(ctx, mod, node)
                        rep.ob('EFF-6', mod.rel, node.name, '@%s def %s' % (norm(d), node.name), why is None,
                               '%s memoises %s, which %s' % (w, node.name, why))
            elif isinstance(node, ast.Call) and isinstance(node.func, ast.Call) and memo_name(node.func) and node.args:
                # lru_cache(maxsize=...)(callable)
                n += 1
                why = _mutable_result(ctx, mod, node.args[0])
                rep.ob('EFF-6', mod.rel, '<module>', norm(node), why is None,
                       '%s memoises %s, which %s' % (memo_name(node.func), norm(node.args[0]), why))
            elif isinstance(node, ast.Call) and not isinstance(node.func, ast.Call) and memo_name(node.func) and node.args \
                    and not node.keywords and isinstance(node.args[0], (ast.Name, ast.Attribute)):
                par = getattr(node, '_parent', None)
                if isinstance(par, ast.Call) and par.func is node:
                    continue
                # lru_cache(callable)
                n += 1
                why = _mutable_result(ctx, mod, node.args[0])
                rep.ob('EFF-6', mod.rel, '<module>', norm(node), why is None,
                       '%s memoises %s, which %s' % (memo_name(node.func), norm(node.args[0]), why))
    rep.stat('memo_wrappers_seen', n)
    rep.ob('EFF-6', 'parso', '<package>', 'memoising wrappers in the package: %d' % n, True,
           reason='every one of them wraps a callable with an immutable result' if n else 'none present')


# ---------------------------------------------------------------------------
# LMEMO-1: the key of a memo kept in a local dict determines what is stored under it
# ---------------------------------------------------------------------------
def _paths(e, params, defs, seen=None, depth=0):
    """Access paths rooted at parameters that the value of ``e`` depends on: ('p', 'attr'), ('p', '<type>'), ('p',)."""
    out = set()
    seen = seen if seen is not None else set()
    if e is None or depth > 6:
        return out

    def visit(x):
        if isinstance(x, ast.Attribute) and isinstance(x.value, ast.Name) and x.value.id in params:
            if isinstance(getattr(x, '_parent', None), ast.Call) and x._parent.func is x:
                out.add((x.value.id,))                      # a method call: may read anything of the object
            else:
                out.add((x.value.id, x.attr))
            return
        if isinstance(x, ast.Call) and isinstance(x.func, ast.Name) and x.func.id in ('type', 'isinstance') and x.args \
                and isinstance(x.args[0], ast.Name) and x.args[0].id in params:
            out.add((x.args[0].id, '<type>'))
            for a in x.args[1:]:
                visit(a)
            return
        if isinstance(x, ast.Name):
            if x.id in params:
                out.add((x.id,))
            elif x.id in defs and x.id not in seen:
                seen.add(x.id)
                for v, tests in defs[x.id]:
                    out.update(_paths(v, params, defs, seen, depth + 1))
                    for t in tests:
                        out.update(_paths(t, params, defs, seen, depth + 1))
            return
        for c in ast.iter_child_nodes(x):
            visit(c)
    visit(e)
    return out


def lmemo_sites(fn_node, local_dicts):
    """[(store node, key paths, value paths, missing)] for stores D[K] = V into activation-local dicts."""
    params = {a.arg for a in fn_node.args.posonlyargs + fn_node.args.args + fn_node.args.kwonlyargs}
    defs = {}
    for n in walk_own(fn_node):
        tests = []
        p = getattr(n, '_parent', None)
        while p is not None and p is not fn_node:
            if isinstance(p, (ast.If, ast.While)):
                tests.append(p.test)
            p = getattr(p, '_parent', None)
        if isinstance(n, ast.Assign):
            for t in n.targets:
                if isinstance(t, ast.Name):
                    defs.setdefault(t.id, []).append((n.value, tests))
        elif isinstance(n, ast.AugAssign) and isinstance(n.target, ast.Name):
            defs.setdefault(n.target.id, []).append((n.value, tests))
        elif isinstance(n, ast.AnnAssign) and isinstance(n.target, ast.Name) and n.value is not None:
            defs.setdefault(n.target.id, []).append((n.value, tests))
    out = []
    for n in walk_own(fn_node):
        if isinstance(n, ast.Assign) and len(n.targets) == 1 and isinstance(n.targets[0], ast.Subscript) \
                and isinstance(n.targets[0].value, ast.Name) and n.targets[0].value.id in local_dicts:
            d = n.targets[0].value.id
            # a lookup in the same dict makes it a memo (not a plain table that is being filled)
            looked_up = any(isinstance(x, ast.Call) and isinstance(x.func, ast.Attribute) and x.func.attr == 'get'
                            and isinstance(x.func.value, ast.Name) and x.func.value.id == d for x in walk_own(fn_node)) or any(
                isinstance(x, ast.Subscript) and isinstance(x.ctx, ast.Load) and isinstance(x.value, ast.Name) and x.value.id == d
                for x in walk_own(fn_node))
            if not looked_up:
                continue
            kp = _paths(n.targets[0].slice, params, {k: [(v, t) for v, t in vs if not _reads_dict(v, d)] for k, vs in defs.items()})
            vp = _paths(n.value, params, {k: [(v, t) for v, t in vs if not _reads_dict(v, d)] for k, vs in defs.items()})
            covered = set(kp)
            missing = sorted(x for x in vp if x not in covered and (x[0],) not in covered)
            out.append((n, kp, vp, missing))
    return out


def _reads_dict(v, d):
    return any(isinstance(x, ast.Name) and x.id == d for x in ast.walk(v))


def lmemo_1(ctx, rep):
    rep.rule('LMEMO-1', 'a memo kept in a dict that lives for one activation (looked up and filled inside a nested function): what '
                        'is stored under a key is computed only from what the key is built from - attribute by attribute '
                        '(`type(node)` covers isinstance tests, `node.type` covers reads of node.type, nothing covers '
                        'node.token_type)')
    probe_src = ("def outer(root):\n    heads = {}\n    def fmt(node):\n        key = type(node), node.type\n        head = heads.get(key)\n"
                 "        if head is None:\n            head = type(node).__name__\n            if isinstance(node, E):\n"
                 "                head += node.token_type\n            heads[key] = head\n        return head\n    return fmt(root)\n")
    probe = ast.parse(probe_src).body[0]
    for parent in ast.walk(probe):
        for child in ast.iter_child_nodes(parent):
            child._parent = parent
    inner = [n for n in probe.body if isinstance(n, ast.FunctionDef)][0]
    got = lmemo_sites(inner, {'heads'})
    if len(got) != 1 or got[0][3] != [('node', 'token_type')]:
        raise AnalysisError('LMEMO-1: the matcher does not report its built-in example (%s)' % [g[3] for g in got])
    n = 0
    for f in sorted(ctx.prog.funcs.values(), key=lambda f: f.key):
        # dicts created in this function or in an enclosing one (closure memo)
        local = set()
        g = f
        while g is not None:
            for st in walk_own(g.node):
                if isinstance(st, (ast.Assign, ast.AnnAssign)):
                    tg = st.targets[0] if isinstance(st, ast.Assign) else st.target
                    v = st.value
                    if isinstance(tg, ast.Name) and v is not None and (
                            (isinstance(v, ast.Dict) and not v.keys) or (isinstance(v, ast.Call) and norm(v.func) in ('dict', 'OrderedDict', 'collections.OrderedDict') and not v.args)):
                        local.add(tg.id)
            g = g.outer
        if not local:
            continue
        for store, kp, vp, missing in lmemo_sites(f.node, local):
            n += 1
            rep.ob('LMEMO-1', f.mod.rel, f.qual, 'memo store %s' % norm(store), not missing,
                   'the stored value depends on %s, the key only on %s: two objects with the same key but a different %s share one '
                   'entry' % (['.'.join(m) for m in missing], sorted('.'.join(k) for k in kp), '.'.join(missing[0]) if missing else ''),
                   witness=['.'.join(m) for m in missing] or None)
    rep.ob('LMEMO-1', 'parso', '<package>', 'activation-local memos in the package: %d' % n, True)
